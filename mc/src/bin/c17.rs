//! C17 — RFC 1982 serial arithmetic: flat exhaustive sweep.
//! For each base b: all 2^32 values c.
//!
//! Besides the sweep of `Serial` / `Timestamp` themselves the check drives the places of the library that
//! DECIDE something from two serials or two signature times, each over a menu of pairs on both sides of 0,
//! 2^31 and 2^32 and judged by the RFC 1982 reference below (never by the library's own comparison):
//! zone-diff direction, the IXFR interpreter and the zone updater, the serial-bumping commit, signature
//! times in text form, the stream client's "is a first message holding only the SOA the whole IXFR answer"
//! decision (mock peer on an in-memory connection, tokio's paused clock), the XFR sender's "client is up to
//! date" decision (real XfrMiddlewareSvc), the signer's validity-period check, the cookie validity window of
//! the new base and the serial type of the new base (`new::base::Serial`).
//! `C17_SITES_ONLY=1` runs only those parts (development aid, writes no evidence).
use domain::base::Serial;
use domain::rdata::dnssec::Timestamp;
use mc::*;
use rayon::prelude::*;
use serde_json::json;
use std::cmp::Ordering;
use std::sync::atomic::{AtomicU64, Ordering as AO};

fn reference(a: u32, b: u32) -> Option<Ordering> {
    // RFC 1982 section 3.2, computed in u64
    let (i1, i2) = (a as u64, b as u64);
    const H: u64 = 1 << 31;
    if i1 == i2 {
        Some(Ordering::Equal)
    } else if (i1 < i2 && i2 - i1 < H) || (i1 > i2 && i1 - i2 > H) {
        Some(Ordering::Less)
    } else if (i1 < i2 && i2 - i1 > H) || (i1 > i2 && i1 - i2 < H) {
        Some(Ordering::Greater)
    } else {
        None
    }
}

/// RFC 1982 "i2 is newer than i1"
fn newer(i1: u32, i2: u32) -> Option<bool> {
    reference(i1, i2).map(|o| o == Ordering::Less)
}

/// Use site: the direction check of zone diffs (zonetree::types). A diff from
/// serial `start` to serial `end` exists iff `end` is newer by RFC 1982.
fn part_diff_direction(ctx: &Ctx) -> u64 {
    use domain::base::{Name, Ttl};
    use domain::rdata::{Soa, ZoneRecordData};
    use domain::zonetree::types::InMemoryZoneDiffBuilder;
    use domain::zonetree::Rrset;
    use std::str::FromStr;
    let bases: [u32; 14] = [0, 1, 0x7FFF_FFFF, 0x8000_0000, 0x8000_0001, 0xFFFF_FFFF, 0xFFFF_FFFE, 0x1234_5679, 0xDEAD_BEEF, 0x7FFF_FFFE, 0x4000_0001, 0xC000_0003, 0x00FF_FF01, 0xFF00_00FF];
    let mut offsets: Vec<u32> = (0..65536u32).map(|k| k.wrapping_mul(65537)).collect();
    for c in [0u32, 0x8000_0000, 0xFFFF_FFFF] {
        for d in 0..=4u32 {
            offsets.push(c.wrapping_add(d).wrapping_sub(2));
        }
    }
    offsets.sort();
    offsets.dedup();
    let apex: Name<bytes::Bytes> = Name::from_str("z.").unwrap();
    let soa = |serial: u32| {
        let mut r = Rrset::new(domain::base::iana::Rtype::SOA, Ttl::from_secs(60));
        r.push_data(ZoneRecordData::Soa(Soa::new(apex.clone(), apex.clone(), serial.into(), Ttl::from_secs(1), Ttl::from_secs(1), Ttl::from_secs(1), Ttl::from_secs(1))));
        r.into_shared()
    };
    let n = std::sync::atomic::AtomicU64::new(0);
    bases.par_iter().for_each(|&b| {
        for &d in &offsets {
            let e = b.wrapping_add(d);
            let r = guard(|| {
                let mut bld = InMemoryZoneDiffBuilder::new();
                bld.remove(apex.clone(), domain::base::iana::Rtype::SOA, soa(b));
                bld.add(apex.clone(), domain::base::iana::Rtype::SOA, soa(e));
                bld.build().map(|d| (d.start_serial.into_int(), d.end_serial.into_int())).map_err(|e| format!("{e:?}"))
            });
            n.fetch_add(1, AO::Relaxed);
            let case = || json!({"start": b, "end": e, "part": "zone-diff"});
            match (r, newer(b, e)) {
                (Err(p), _) => {
                    ctx.violation(&format!("C17|zone-diff|panic|{}", panic_class(&p)), &p, case());
                }
                (Ok(Ok((s0, e0))), want) => {
                    if want == Some(false) {
                        ctx.violation("C17|zone-diff|diff-made-although-end-is-not-newer", &format!("a zone diff from serial {b} to serial {e} was built although {e} is not newer than {b} (RFC 1982)"), case());
                    } else if (s0, e0) != (b, e) {
                        ctx.violation("C17|zone-diff|serials-of-the-diff-differ", &format!("diff {b}->{e} reports {s0}->{e0}"), case());
                    }
                }
                (Ok(Err(err)), want) => {
                    if want == Some(true) {
                        ctx.violation("C17|zone-diff|refused-although-end-is-newer", &format!("a zone diff from serial {b} to the newer serial {e} was refused: {err}"), case());
                    }
                }
            }
        }
    });
    n.load(AO::Relaxed)
}

/// Bases for the use-site parts: both sides of 0, 2^31 and 2^32.
const USE_BASES: [u32; 12] = [0, 1, 7, 0x7FFF_FFFD, 0x7FFF_FFFF, 0x8000_0000, 0x8000_0001, 0xFFFF_FFFB, 0xFFFF_FFFD, 0xFFFF_FFFE, 0xFFFF_FFFF, 0x1234_5678];

/// Use site: the IXFR interpreter and the zone updater (net::xfr::protocol::interpreter,
/// zonetree::update / in_memory::write). An incremental transfer is a chain of difference sequences
/// old -> new; "new is newer than old" is a matter of RFC 1982, so a chain whose serials step across
/// 2^31 or across the 2^32 wrap is as good as any other: it must be accepted, reported with the
/// serials as sent, and leave the receiving zone at the last serial.
fn part_ixfr_across_the_wrap(ctx: &Ctx) -> u64 {
    use domain::base::iana::{Class, Rcode, Rtype};
    use domain::base::{Message, MessageBuilder, Name};
    use domain::net::xfr::protocol::XfrResponseInterpreter;
    use domain::zonetree::types::ZoneUpdate;
    use domain::zonetree::update::ZoneUpdater;
    use mc::zfix::*;
    let steps_menu: [&[u32]; 6] = [&[1], &[2], &[1, 1], &[1, 1, 1], &[3, 0x7FFF_FFF0], &[0x7FFF_FFFF]];
    let n = AtomicU64::new(0);
    USE_BASES.par_iter().for_each(|&b| {
        for steps in steps_menu {
            let mut serials = vec![b];
            for d in steps {
                serials.push(serials.last().unwrap().wrapping_add(*d));
            }
            let last = *serials.last().unwrap();
            let case = || json!({"part": "ixfr-across-the-wrap", "serials": serials});
            n.fetch_add(1, AO::Relaxed);
            let r = guard(|| -> Result<(), (String, String)> {
                // the response: SOA(last) { SOA(s_i) -A(i) SOA(s_i+1) +A(i+1) }* SOA(last)
                let soa = |ser: u32| record_of(&vec![], &Rd::Soa(ser));
                let a = |k: usize| record_of(&rel("a"), &Rd::A(10 + k as u8));
                let mut recs = vec![soa(last)];
                for i in 0..serials.len() - 1 {
                    recs.push(soa(serials[i]));
                    recs.push(a(i));
                    recs.push(soa(serials[i + 1]));
                    recs.push(a(i + 1));
                }
                recs.push(soa(last));
                let mut qb = MessageBuilder::new_vec().question();
                qb.header_mut().set_qr(true);
                qb.header_mut().set_rcode(Rcode::NOERROR);
                qb.push((Name::<Vec<u8>>::from_octets(vec![1, b'z', 0]).unwrap(), Rtype::IXFR, Class::IN)).unwrap();
                let mut ab = qb.answer();
                for r in &recs {
                    ab.push(r.clone()).map_err(|_| ("harness".to_string(), "push".to_string()))?;
                }
                let msg = Message::from_octets(bytes::Bytes::from(ab.finish())).unwrap();
                // the receiving zone holds the first version
                let mut c = Content::base(b);
                c.add("a", Rd::A(10));
                let zone = build_direct(&c, false);
                let rt = rt();
                let mut it = XfrResponseInterpreter::new();
                let ups = it.interpret_response(msg).map_err(|e| ("interpreter-rejects".to_string(), format!("interpret_response: {e:?}")))?;
                let mut got = Vec::new();
                let mut updates = Vec::new();
                for u in ups {
                    let u = u.map_err(|e| ("interpreter-rejects".to_string(), format!("update iterator: {e:?}")))?;
                    fn soa_of<N>(r: &domain::base::Record<N, domain::rdata::ZoneRecordData<bytes::Bytes, N>>) -> u32 {
                        match r.data() {
                            domain::rdata::ZoneRecordData::Soa(s) => s.serial().into_int(),
                            _ => u32::MAX,
                        }
                    }
                    match &u {
                        ZoneUpdate::BeginBatchDelete(r) => got.push(("del", soa_of(r))),
                        ZoneUpdate::BeginBatchAdd(r) => got.push(("add", soa_of(r))),
                        ZoneUpdate::Finished(r) => got.push(("fin", soa_of(r))),
                        ZoneUpdate::DeleteAllRecords => got.push(("delete-all", 0)),
                        _ => {}
                    }
                    updates.push(u);
                }
                let mut want = Vec::new();
                for i in 0..serials.len() - 1 {
                    want.push(("del", serials[i]));
                    want.push(("add", serials[i + 1]));
                }
                want.push(("fin", last));
                if got != want {
                    return Err(("interpreter-reports-other-serials".into(), format!("difference sequences reported as {:?}, sent {:?}", got, want)));
                }
                if !it.is_finished() {
                    return Err(("interpreter-not-finished".into(), "the transfer is complete but the interpreter wants more".into()));
                }
                // apply to the receiving zone
                rt.block_on(async {
                    let mut up = ZoneUpdater::new(zone.clone()).await.map_err(|e| ("updater-rejects".to_string(), format!("ZoneUpdater::new: {e}")))?;
                    for u in updates {
                        up.apply(u).await.map_err(|e| ("updater-rejects".to_string(), format!("apply: {e}")))?;
                    }
                    Ok::<(), (String, String)>(())
                })?;
                let mut cn = Content::base(last);
                cn.add("a", Rd::A(10 + (serials.len() - 1) as u8));
                let rd = zone.read();
                let (w, _) = walk(rd.as_ref());
                if w != content_as_walk(&cn) {
                    return Err(("receiver-zone-differs".into(), format!("after the transfer the zone does not hold the last version (serial {last})")));
                }
                Ok(())
            });
            match r {
                Ok(Ok(())) => {}
                Ok(Err((kind, what))) => {
                    let crossing = if serials.windows(2).any(|w| w[1] < w[0]) { "2^32" } else if serials.windows(2).any(|w| (w[0] ^ w[1]) & 0x8000_0000 != 0) { "2^31" } else { "none" };
                    ctx.violation(&format!("C17|ixfr|{kind}|chain-crosses={crossing}"), &format!("{what} [serials {:?}]", serials), case());
                }
                Err(p) => {
                    ctx.violation(&format!("C17|ixfr|panic|{}", panic_class(&p)), &p, case());
                }
            }
        }
    });
    n.load(AO::Relaxed)
}

/// Use site: commit(bump_soa_serial = true) of the in-memory zone (in_memory::write): the published SOA
/// serial must be the RFC 1982 successor of the previous one - also at 2^31-1 and at 2^32-1.
fn part_commit_bump(ctx: &Ctx) -> u64 {
    use domain::base::iana::Rtype;
    use mc::zfix::*;
    let n = AtomicU64::new(0);
    USE_BASES.par_iter().for_each(|&b| {
        let case = || json!({"part": "commit-bumps-serial", "start": b});
        let r = guard(|| -> Result<(), (String, String)> {
            let mut c = Content::base(b);
            c.add("a", Rd::A(1));
            let zone = build_direct(&c, false);
            let rt = rt();
            let mut cur = b;
            for k in 0..4u8 {
                n.fetch_add(1, AO::Relaxed);
                rt.block_on(async {
                    let mut w = zone.write().await;
                    let apex = w.open(false).await.unwrap();
                    let node = node_for(apex.as_ref(), &rel("a")).await.unwrap();
                    node.update_rrset(rrset_of(&[Rd::A(2 + k)])).await.unwrap();
                    drop(node);
                    drop(apex);
                    w.commit(true).await.unwrap();
                });
                let o = query(zone.read().as_ref(), &vec![], Rtype::SOA);
                let want = Rd::Soa(cur.wrapping_add(1)).wire();
                let got: Vec<Vec<u8>> = o.answer.iter().filter(|x| x.1 == 6).map(|x| x.2.clone()).collect();
                if got != vec![want] {
                    let serial = got.first().and_then(|g| g.len().checked_sub(20).map(|p| u32::from_be_bytes([g[p], g[p + 1], g[p + 2], g[p + 3]])));
                    return Err(("published-serial-is-not-the-successor".into(), format!("commit(true) on serial {cur} published serial {:?}, RFC 1982 successor is {}", serial, cur.wrapping_add(1))));
                }
                cur = cur.wrapping_add(1);
            }
            Ok(())
        });
        match r {
            Ok(Ok(())) => {}
            Ok(Err((kind, what))) => {
                ctx.violation(&format!("C17|commit-bump|{kind}"), &what, case());
            }
            Err(p) => {
                ctx.violation(&format!("C17|commit-bump|panic|{}", panic_class(&p)), &p, case());
            }
        }
    });
    n.load(AO::Relaxed)
}

// ====================================================================
// Decision sites: code that decides from two serials / two signature times
// which one is newer.  Every site is driven over the same menu of pairs and
// judged by the RFC 1982 reference above.
// ====================================================================

/// Distances of the pair menu: equal, 1, 2, small, quarter, both sides of 2^31, three quarters, just below 2^32.
const PAIR_DISTANCES: [u32; 14] = [0, 1, 2, 0x1000, 0x4000_0000, 0x7FFF_FFFE, 0x7FFF_FFFF, 0x8000_0000, 0x8000_0001, 0x8000_0002, 0xC000_0000, 0xFFFF_F000, 0xFFFF_FFFE, 0xFFFF_FFFF];
/// Further start values of the thorough tier.
const MORE_BASES: [u32; 8] = [2, 0x3FFF_FFFF, 0x4000_0000, 0x7FFF_FFFE, 0x8000_0002, 0xBFFF_FFFF, 0xC000_0000, 0xFFFF_F000];

/// (first, second = first + distance) for every start value on both sides of 0, 2^31 and 2^32.
fn serial_pairs(deep: bool) -> Vec<(u32, u32)> {
    let mut v = Vec::new();
    for &b in USE_BASES.iter().chain(if deep { MORE_BASES.iter() } else { [].iter() }) {
        for d in PAIR_DISTANCES {
            v.push((b, b.wrapping_add(d)));
        }
    }
    v.sort();
    v.dedup();
    v
}

/// Does the order of the two values as plain integers agree with their RFC 1982 order?
fn order_class(a: u32, b: u32) -> &'static str {
    match reference(a, b) {
        None => "2^31-apart",
        Some(o) if o == a.cmp(&b) => "plain-integer-order-agrees",
        Some(_) => "plain-integer-order-differs",
    }
}

fn paused_rt() -> tokio::runtime::Runtime {
    tokio::runtime::Builder::new_current_thread().enable_time().start_paused(true).build().unwrap()
}

/// The serial of a SOA RDATA as the independent reader returns it (the five 32-bit fields are its last 20 octets).
fn soa_serial_of(rdata: &[u8]) -> Option<u32> {
    let p = rdata.len().checked_sub(20)?;
    Some(u32::from_be_bytes([rdata[p], rdata[p + 1], rdata[p + 2], rdata[p + 3]]))
}

/// How a multi-response request ended for its caller.
#[derive(Debug, PartialEq, Clone, Copy)]
enum StreamEnd {
    /// the transport reported the end of the response
    Finished,
    /// the transport reported a failure
    Failed,
    /// neither within 5 s of virtual time although the peer has sent all it is going to send
    Hang,
}

/// One IXFR request (question z. IXFR, authority SOA with serial `client`) through the real
/// `net::client::stream::Connection` over an in-memory connection to a peer that answers with `msgs`
/// (under the ID of the request) and then keeps the connection open.  tokio's clock is paused: time moves only
/// when everything waits, so the outcome does not depend on the machine.
async fn stream_client_exchange(client: u32, msgs: Vec<Vec<u8>>) -> Result<(Vec<Vec<u8>>, StreamEnd), String> {
    use domain::base::iana::Rtype;
    use domain::base::MessageBuilder;
    use domain::net::client::request::{RequestMessage, RequestMessageMulti, SendRequestMulti};
    use domain::net::client::stream;
    use mc::zfix::*;
    use tokio::io::{AsyncReadExt, AsyncWriteExt};
    let mut q = MessageBuilder::new_vec().question();
    q.push((zone_apex(), Rtype::IXFR)).map_err(|_| "harness: question".to_string())?;
    let mut a = q.authority();
    a.push(record_of(&vec![], &Rd::Soa(client))).map_err(|_| "harness: authority".to_string())?;
    let req = RequestMessageMulti::new(a.into_message()).map_err(|_| "harness: RequestMessageMulti::new refused the IXFR request".to_string())?;
    let (cli, mut srv) = tokio::io::duplex(1 << 16);
    let mut cfg = stream::Config::new();
    // (the transport's own timers lie far behind the bound of the harness: the messages of the peer arrive without
    // any time passing, so whatever the transport decides it decides at virtual time 0; the harness gives every
    // step 5 s of virtual time and never lets the clock reach a timer of the transport)
    cfg.set_response_timeout(std::time::Duration::from_secs(120));
    cfg.set_idle_timeout(std::time::Duration::from_secs(120));
    let (conn, transport) = stream::Connection::<RequestMessage<Vec<u8>>, RequestMessageMulti<Vec<u8>>>::with_config(cli, cfg);
    let tr = tokio::spawn(transport.run());
    let sv = tokio::spawn(async move {
        let mut l = [0u8; 2];
        if srv.read_exact(&mut l).await.is_err() {
            return;
        }
        let mut req = vec![0u8; u16::from_be_bytes(l) as usize];
        if srv.read_exact(&mut req).await.is_err() || req.len() < 2 {
            return;
        }
        for m in &msgs {
            let mut v = m.clone();
            v[0] = req[0];
            v[1] = req[1];
            if srv.write_all(&(v.len() as u16).to_be_bytes()).await.is_err() || srv.write_all(&v).await.is_err() {
                return;
            }
        }
        // the peer has said all it has to say and keeps the connection open
        std::future::pending::<()>().await;
    });
    let mut got = Vec::new();
    let mut get = conn.send_request(req);
    let end = loop {
        match tokio::time::timeout(std::time::Duration::from_secs(5), get.get_response()).await {
            Err(_) => break StreamEnd::Hang,
            Ok(Err(_)) => break StreamEnd::Failed,
            Ok(Ok(None)) => break StreamEnd::Finished,
            Ok(Ok(Some(m))) => {
                got.push(m.as_slice().to_vec());
                if got.len() > 64 {
                    break StreamEnd::Failed;
                }
            }
        }
    };
    drop(get);
    drop(conn);
    sv.abort();
    tr.abort();
    let _ = sv.await;
    let _ = tr.await;
    Ok((got, end))
}

/// Use site: the stream client (`net::client::stream`, multi-response IXFR request).  RFC 1995 section 4:
/// a response whose first message holds nothing but the server's SOA is complete if the server has nothing
/// newer than the serial in the request; a server with a newer version may equally send its transfer one
/// record (or a few) per message, so that the same first message is followed by more.  The transport has to
/// decide between the two from (serial in the request, serial of the server) - by RFC 1982.
fn part_stream_client(ctx: &Ctx) -> u64 {
    let pairs = serial_pairs(!ctx.quick());
    // (rest of the transfer: one record per message / in one message, later messages repeat the question)
    let shapes: [(bool, bool); 4] = [(true, true), (true, false), (false, true), (false, false)];
    let n = AtomicU64::new(0);
    pairs.par_iter().for_each(|&(client, server)| {
        for (one_per_message, repeat_question) in shapes {
            n.fetch_add(1, AO::Relaxed);
            stream_client_case(ctx, client, server, one_per_message, repeat_question);
        }
    });
    n.load(AO::Relaxed)
}

fn stream_client_case(ctx: &Ctx, client: u32, server: u32, one_per_message: bool, repeat_question: bool) {
    use domain::base::iana::{Class, Rtype};
    use domain::base::MessageBuilder;
    use mc::zfix::*;
    let want = newer(client, server);
    let case = || json!({"part": "stream-client-lone-soa", "client_serial": client, "server_serial": server, "one_record_per_message": one_per_message, "later_messages_repeat_the_question": repeat_question});
    let message = |with_question: bool, recs: &[domain::zonetree::types::StoredRecord]| -> Vec<u8> {
        let mut qb = MessageBuilder::new_vec().question();
        qb.header_mut().set_qr(true);
        qb.header_mut().set_aa(true);
        if with_question {
            qb.push((zone_apex(), Rtype::IXFR, Class::IN)).unwrap();
        }
        let mut ab = qb.answer();
        for r in recs {
            ab.push(r.clone()).unwrap();
        }
        ab.finish()
    };
    let soa = |s: u32| record_of(&vec![], &Rd::Soa(s));
    let a = |k: u8| record_of(&rel("a"), &Rd::A(k));
    // SOA(server) | SOA(client) -A SOA(server) +A SOA(server)
    let rest = [soa(client), a(10), soa(server), a(11), soa(server)];
    let mut all = vec![message(true, &[soa(server)])];
    if one_per_message {
        for r in &rest {
            all.push(message(repeat_question, std::slice::from_ref(r)));
        }
    } else {
        all.push(message(repeat_question, &rest));
    }
    // a server that has nothing newer sends its SOA and nothing else
    let sent: Vec<Vec<u8>> = if want == Some(false) { all[..1].to_vec() } else { all.clone() };
    let r = guard(|| paused_rt().block_on(stream_client_exchange(client, sent.clone())));
    let (got, end) = match r {
        Err(p) => {
            ctx.violation(&format!("C17|stream-client-ixfr|panic|{}", panic_class(&p)), &p, case());
            return;
        }
        Ok(Err(e)) => {
            eprintln!("MACHINERY: {e}");
            std::process::exit(2);
        }
        Ok(Ok(x)) => x,
    };
    let same = |k: usize| got.len() == k && (0..k).all(|i| got[i].len() >= 2 && got[i][2..] == sent[i][2..]);
    let whole = same(sent.len()) && end == StreamEnd::Finished;
    let first_only = same(1) && end == StreamEnd::Finished;
    let ok = match want {
        Some(true) => whole,
        Some(false) => first_only,
        None => whole || first_only,
    };
    if ok {
        return;
    }
    let server_is = match want {
        Some(true) => "newer",
        Some(false) => "not-newer",
        None => "2^31-apart",
    };
    let observed = if first_only {
        "response-declared-complete-after-the-first-message".to_string()
    } else if same(got.len().min(sent.len())) && got.len() <= sent.len() {
        format!(
            "{}-after-{}",
            match end {
                StreamEnd::Finished => "end",
                StreamEnd::Failed => "failure",
                StreamEnd::Hang => "waiting",
            },
            if got.len() == 1 { "the-first-message" } else if got.len() == sent.len() { "all-messages" } else { "some-messages" }
        )
    } else {
        "messages-delivered-are-not-the-messages-sent".to_string()
    };
    ctx.violation(
        &format!("C17|stream-client-ixfr|first-message-holds-only-the-soa|server-{server_is}|{observed}|{}", order_class(client, server)),
        &format!(
            "IXFR request with serial {client}, server at serial {server} (RFC 1982: server newer = {want:?}); the peer sent {} message(s), the first holding only its SOA, and kept the connection open; the caller got {} message(s), then {end:?}; expected {}",
            sent.len(),
            got.len(),
            match want {
                Some(true) => "all messages, then the end of the response",
                Some(false) => "the one message, then the end of the response without waiting for more",
                None => "either of the two",
            }
        ),
        case(),
    );
}

mod xfr_site {
    //! The pieces around the real `XfrMiddlewareSvc`: a provider that hands out the zone and the diffs it
    //! keeps, and a next service that must never be reached.
    use domain::base::Serial;
    use domain::net::server::message::Request;
    use domain::net::server::middleware::xfr::{XfrData, XfrDataProvider, XfrDataProviderError};
    use domain::net::server::service::{Service, ServiceError, ServiceResult};
    use domain::zonetree::{InMemoryZoneDiff, Zone};
    use std::future::Future;
    use std::pin::Pin;
    use std::sync::Arc;

    #[derive(Clone)]
    pub struct Provider {
        pub zone: Zone,
        pub diffs: Vec<Arc<InMemoryZoneDiff>>,
    }

    impl<M> XfrDataProvider<M> for Provider {
        type Diff = Arc<InMemoryZoneDiff>;
        fn request<Octs>(&self, _req: &Request<Octs, M>, diff_from: Option<Serial>) -> Pin<Box<dyn Future<Output = Result<XfrData<Self::Diff>, XfrDataProviderError>> + Sync + Send + '_>>
        where
            Octs: octseq::Octets + Send + Sync,
        {
            // (hands out the history it keeps whenever differences are asked for; it does no serial arithmetic of its own)
            let diffs = if diff_from.is_some() { self.diffs.clone() } else { vec![] };
            Box::pin(std::future::ready(Ok(XfrData::new(self.zone.clone(), diffs, false))))
        }
    }

    #[derive(Clone)]
    pub struct NoSvc;

    impl<M: Clone + Default + Send + Sync + 'static> Service<Vec<u8>, M> for NoSvc {
        type Target = Vec<u8>;
        type Stream = futures_util::stream::Once<std::future::Ready<ServiceResult<Vec<u8>>>>;
        type Future = std::future::Ready<Self::Stream>;
        fn call(&self, _r: Request<Vec<u8>, M>) -> Self::Future {
            std::future::ready(futures_util::stream::once(std::future::ready(Err(ServiceError::Refused))))
        }
    }
}

/// Use site: the sender of incremental transfers (`net::server::middleware::xfr`).  RFC 1995 section 2: "If an
/// IXFR query with the same or newer version number than that of the server is received, it is replied to with
/// a single SOA record of the server's current version"; a client whose version is older gets the transfer
/// (section 4: difference sequences or the entire zone, first and last record the server's SOA).
fn part_xfr_server(ctx: &Ctx) -> u64 {
    let pairs = serial_pairs(!ctx.quick());
    let n = AtomicU64::new(0);
    pairs.par_iter().for_each(|&(client, server)| {
        for udp in [false, true] {
            n.fetch_add(1, AO::Relaxed);
            xfr_server_case(ctx, client, server, udp);
        }
    });
    n.load(AO::Relaxed)
}

fn xfr_server_case(ctx: &Ctx, client: u32, server: u32, udp: bool) {
    use domain::base::iana::Rtype;
    use domain::base::MessageBuilder;
    use domain::net::server::message::{NonUdpTransportContext, Request, TransportSpecificContext, UdpTransportContext};
    use domain::net::server::middleware::xfr::XfrMiddlewareSvc;
    use domain::net::server::service::Service;
    use futures_util::StreamExt;
    use mc::zfix::*;
    use std::sync::Arc;
    let want = newer(client, server);
    // the server's history: one step, from the client's version if that is older, else from the version before
    let start = if want == Some(true) { client } else { server.wrapping_sub(1) };
    let case = || json!({"part": "xfr-server-ixfr", "client_serial": client, "server_serial": server, "history_from": start, "udp": udp});
    let r = guard(|| {
        paused_rt().block_on(async {
            let mut c = Content::base(start);
            c.add("a", Rd::A(10));
            let zone = build_direct(&c, false);
            let diff = {
                let mut w = zone.write().await;
                let apex = w.open(true).await.map_err(|e| ("harness".to_string(), format!("open: {e}")))?;
                let node = node_for(apex.as_ref(), &rel("a")).await.unwrap();
                node.update_rrset(rrset_of(&[Rd::A(11)])).await.map_err(|e| ("harness".to_string(), format!("update_rrset: {e}")))?;
                apex.update_rrset(rrset_of(&[Rd::Soa(server)])).await.map_err(|e| ("harness".to_string(), format!("update_rrset(soa): {e}")))?;
                drop(node);
                drop(apex);
                w.commit(false).await.map_err(|e| ("harness".to_string(), format!("commit: {e}")))?
            };
            let Some(diff) = diff else {
                return Err(("no-diff-from-a-commit-to-a-newer-serial".to_string(), format!("the commit from serial {start} to serial {server} made no diff")));
            };
            let svc = XfrMiddlewareSvc::<Vec<u8>, xfr_site::NoSvc, (), xfr_site::Provider>::new(xfr_site::NoSvc, xfr_site::Provider { zone, diffs: vec![Arc::new(diff)] }, 1);
            let mut q = MessageBuilder::new_vec().question();
            q.header_mut().set_id(0x4242);
            q.push((zone_apex(), Rtype::IXFR)).unwrap();
            let mut a = q.authority();
            a.push(record_of(&vec![], &Rd::Soa(client))).unwrap();
            let tctx: TransportSpecificContext = if udp { UdpTransportContext::new(None).into() } else { NonUdpTransportContext::new(None).into() };
            let request = Request::new("192.0.2.1:5300".parse().unwrap(), tokio::time::Instant::now(), a.into_message(), tctx, ());
            let mut msgs: Vec<Vec<u8>> = Vec::new();
            let collect = async {
                let mut stream = svc.call(request).await;
                while let Some(item) = stream.next().await {
                    match item {
                        Ok(cr) => {
                            if let (Some(r), _) = cr.into_inner() {
                                msgs.push(r.finish().as_dgram_slice().to_vec());
                            }
                        }
                        Err(_) => return Err(("service-error".to_string(), "the response stream yielded a service error".to_string())),
                    }
                }
                Ok(())
            };
            match tokio::time::timeout(std::time::Duration::from_secs(30), collect).await {
                Err(_) => return Err(("response-stream-never-ends".to_string(), "no end of the response stream within 30 s of virtual time".to_string())),
                Ok(r) => r?,
            }
            Ok::<_, (String, String)>(msgs)
        })
    });
    let server_is = match want {
        Some(true) => "newer",
        Some(false) => "not-newer",
        None => "2^31-apart",
    };
    let msgs = match r {
        Err(p) => {
            ctx.violation(&format!("C17|xfr-server-ixfr|panic|{}", panic_class(&p)), &p, case());
            return;
        }
        Ok(Err((kind, what))) if kind == "harness" => {
            eprintln!("MACHINERY: xfr-server part: {what}");
            std::process::exit(2);
        }
        Ok(Err((kind, what))) => {
            if kind.starts_with("no-diff") {
                ctx.violation(&format!("C17|xfr-server-ixfr|{kind}|{}", order_class(start, server)), &what, case());
            } else {
                ctx.violation(&format!("C17|xfr-server-ixfr|{kind}|server-{server_is}|{}", order_class(client, server)), &format!("{what} [client serial {client}, server serial {server}]"), case());
            }
            return;
        }
        Ok(Ok(m)) => m,
    };
    // read the response with the independent reader
    let mut answer: Vec<(u16, Option<u32>)> = Vec::new();
    let mut bad: Option<String> = None;
    for m in &msgs {
        match mc::wire::read_message(m) {
            Ok(raw) => {
                if raw.flags & 0x000F != 0 {
                    bad = Some(format!("error-response-rcode-{}", raw.flags & 0x000F));
                }
                for rec in &raw.sections[0] {
                    answer.push((rec.rtype, if rec.rtype == 6 { soa_serial_of(&rec.rdata) } else { None }));
                }
            }
            Err(_) => bad = Some("unreadable-message".into()),
        }
    }
    let is_server_soa = |x: Option<&(u16, Option<u32>)>| x == Some(&(6u16, Some(server)));
    let lone_soa = answer.len() == 1 && is_server_soa(answer.first());
    let framed = answer.len() >= 3 && is_server_soa(answer.first()) && is_server_soa(answer.last());
    let incremental = framed && answer[1].0 == 6;
    let observed = match &bad {
        Some(b) => b.clone(),
        None if lone_soa => "single-soa".into(),
        None if incremental => "difference-sequences".into(),
        None if framed => "entire-zone".into(),
        None => "neither-a-single-soa-nor-a-transfer-framed-by-the-server-soa".into(),
    };
    let ok = bad.is_none()
        && match want {
            // the client has nothing to fetch: the single SOA (or, where a server cannot tell, the entire zone), never differences
            Some(false) => lone_soa || (framed && !incremental),
            Some(true) => framed,
            None => lone_soa || framed,
        };
    if !ok {
        ctx.violation(
            &format!("C17|xfr-server-ixfr|server-{server_is}|answered-with-{observed}|{}", order_class(client, server)),
            &format!(
                "IXFR request with serial {client} to a server at serial {server} holding the difference {start} -> {server} (RFC 1982: server newer = {want:?}) over {}: {} message(s), answer records (type, SOA serial) {:?}",
                if udp { "UDP" } else { "TCP" },
                msgs.len(),
                answer
            ),
            case(),
        );
    }
}

/// Use site: the signer's check of the validity period (`dnssec::sign::signatures::rrsigs`).  RFC 4034 3.1.5:
/// inception and expiration are serial numbers; a period is the wrong way round iff the expiration is older than
/// the inception BY RFC 1982 - a period that spans 2^31 or the 2^32 wrap is as good as any other and the
/// signature must carry the two times as given.
fn part_signer_validity(ctx: &Ctx, only: Option<(u32, u32)>) -> u64 {
    use domain::base::iana::Class;
    use domain::base::{Name, Record, Ttl};
    use domain::crypto::sign::{KeyPair, SecretKeyBytes};
    use domain::dnssec::common::parse_from_bind;
    use domain::dnssec::sign::keys::SigningKey;
    use domain::dnssec::sign::records::Rrset;
    use domain::dnssec::sign::signatures::rrsigs::sign_rrset;
    use domain::rdata::A;
    let base = "/repo/test-data/dnssec-keys/Ktest.+015+56037";
    let (Ok(pubt), Ok(sect)) = (std::fs::read_to_string(format!("{base}.key")), std::fs::read_to_string(format!("{base}.private"))) else {
        eprintln!("MACHINERY: key files {base}.* not readable");
        std::process::exit(2);
    };
    let rec = parse_from_bind::<Vec<u8>>(&pubt).expect("MACHINERY: .key");
    let secret = SecretKeyBytes::parse_from_bind(&sect).expect("MACHINERY: .private");
    let dnskey = rec.data().clone();
    let kp = KeyPair::from_bytes(&secret, &dnskey).expect("MACHINERY: key pair");
    let owner: Name<bytes::Bytes> = Name::from_octets(bytes::Bytes::from_static(b"\x04test\x00")).unwrap();
    let key: SigningKey<bytes::Bytes, KeyPair> = SigningKey::new(owner.clone(), dnskey.flags(), kp);
    let recs = vec![Record::new(owner.clone(), Class::IN, Ttl::from_secs(300), A::from_octets(192, 0, 2, 1))];
    let pairs = match only {
        Some(p) => vec![p],
        None => serial_pairs(!ctx.quick()),
    };
    let n = pairs.len() as u64;
    pairs.par_iter().for_each(|&(inception, expiration)| {
        let case = || json!({"part": "signer-validity-period", "inception": inception, "expiration": expiration});
        // expiration vs inception
        let want = reference(expiration, inception);
        let r = guard(|| {
            let rrset = Rrset::new_from_owned(&recs).expect("MACHINERY: rrset");
            sign_rrset(&key, &rrset, Timestamp::from(inception), Timestamp::from(expiration)).map(|sig| (sig.data().inception().into_int(), sig.data().expiration().into_int())).map_err(|_| ())
        });
        let cls = order_class(inception, expiration);
        match (r, want) {
            (Err(p), _) => {
                ctx.violation(&format!("C17|signer-validity|panic|{}", panic_class(&p)), &p, case());
            }
            (Ok(Ok(got)), w) => {
                if w == Some(Ordering::Less) {
                    ctx.violation(&format!("C17|signer-validity|signed-although-expiration-is-older-than-inception|{cls}"), &format!("sign_rrset made a signature valid from {inception} to {expiration}; by RFC 1982 the expiration is older than the inception"), case());
                } else if got != (inception, expiration) {
                    ctx.violation(&format!("C17|signer-validity|signature-carries-other-times|{cls}"), &format!("asked for {inception}..{expiration}, the RRSIG says {}..{}", got.0, got.1), case());
                }
            }
            (Ok(Err(())), w) => {
                if matches!(w, Some(Ordering::Greater | Ordering::Equal)) {
                    ctx.violation(&format!("C17|signer-validity|refused-although-expiration-is-not-older-than-inception|{cls}"), &format!("sign_rrset refused the validity period {inception}..{expiration}; by RFC 1982 the expiration is {} the inception", if w == Some(Ordering::Equal) { "equal to" } else { "newer than" }), case());
                }
            }
        }
    });
    n
}

/// Use site: the validity window of a server cookie (`new::edns::Cookie::verify`, RFC 9018 4.3: the timestamp is a
/// serial number).  A cookie made for timestamp t (by the established `base::opt::cookie` code, same interoperable
/// format) is checked against the window [from, from + length): it is inside iff `from` is not newer than t and
/// from + length is newer than t - by RFC 1982, wherever in the 32-bit space the window lies.
fn part_cookie_window(ctx: &Ctx, only: Option<(u32, u32, u32)>) -> u64 {
    use domain::base::opt::cookie as old;
    use domain::new::base::wire::ParseBytesZC;
    use domain::new::base::Serial as NSerial;
    use domain::new::edns::Cookie as NCookie;
    let ip: std::net::IpAddr = "192.0.2.7".parse().unwrap();
    let secret = [0x5Au8; 16];
    let lengths: [u32; 5] = [1, 300, 3900, 0x4000_0000, 0x7FFF_FFFF];
    let cases: Vec<(u32, u32, u32)> = match only {
        Some(c) => vec![c],
        None => serial_pairs(!ctx.quick()).into_iter().flat_map(|(from, t)| lengths.into_iter().map(move |l| (from, t, l))).collect(),
    };
    let n = cases.len() as u64;
    cases.par_iter().for_each(|&(from, t, length)| {
        let until = from.wrapping_add(length);
        let case = || json!({"part": "cookie-window", "from": from, "timestamp": t, "length": length});
        let r = guard(|| {
            let made = old::Cookie::new(old::ClientCookie::from([1, 2, 3, 4, 5, 6, 7, 8]), None).create_response(Serial::from(t), ip, &secret);
            let mut octets = made.client().as_ref().to_vec();
            octets.extend_from_slice(made.server().map(|s| s.as_ref()).unwrap_or(&[]));
            let Ok(c) = NCookie::parse_bytes_by_ref(&octets) else {
                return Err(());
            };
            let inside = c.verify(ip, &secret, NSerial::new(from)..NSerial::new(until)).is_ok();
            // control: the cookie itself is good (window around its own timestamp)
            let control = c.verify(ip, &secret, NSerial::new(t)..NSerial::new(t.wrapping_add(1))).is_ok();
            Ok((inside, control, c.timestamp().get()))
        });
        let (lower, upper) = (reference(from, t), reference(t, until));
        match r {
            Err(p) => {
                ctx.violation(&format!("C17|cookie-window|panic|{}", panic_class(&p)), &p, case());
            }
            Ok(Err(())) => {
                ctx.violation("C17|cookie-window|interoperable-cookie-not-readable", "a 24-octet version 1 cookie made by base::opt::cookie is not read by new::edns::Cookie", case());
            }
            Ok(Ok((_, control, ts))) if !control || ts != t => {
                ctx.violation("C17|cookie-window|cookie-not-valid-in-the-window-of-its-own-timestamp", &format!("cookie made for timestamp {t} (read back as {ts}) is rejected for the window [{t}, {t}+1)"), case());
            }
            Ok(Ok((inside, _, _))) => {
                if let (Some(lo), Some(up)) = (lower, upper) {
                    let want = lo != Ordering::Greater && up == Ordering::Less;
                    if inside != want {
                        let cls = if order_class(from, t) == "plain-integer-order-differs" || order_class(t, until) == "plain-integer-order-differs" { "plain-integer-order-differs" } else { "plain-integer-order-agrees" };
                        ctx.violation(
                            &format!("C17|cookie-window|{}|{cls}", if want { "rejected-inside-the-window" } else { "accepted-outside-the-window" }),
                            &format!("cookie with timestamp {t}, window [{from}, {until}): RFC 1982 says from vs t = {lo:?}, t vs end = {up:?}, so inside = {want}; verify says {inside}"),
                            case(),
                        );
                    }
                }
            }
        }
    });
    n
}

/// The serial number type of the new base (`new::base::Serial`) is a second implementation of the same
/// arithmetic: comparison, operators and `inc` against the RFC 1982 reference for one pair.
#[inline]
fn new_api_pair(b: u32, c: u32) -> Option<(&'static str, String)> {
    use domain::new::base::Serial as NSerial;
    let (nb, nc) = (NSerial::new(b), NSerial::new(c));
    let r = reference(b, c);
    let got = nb.partial_cmp(&nc);
    if got != r {
        return Some(("cmp-vs-rfc1982", format!("new::base::Serial partial_cmp({b},{c})={got:?}, RFC 1982 says {r:?}")));
    }
    let rev = nc.partial_cmp(&nb);
    if rev != r.map(Ordering::reverse) {
        return Some(("antisymmetry", format!("new::base::Serial partial_cmp({c},{b})={rev:?} but partial_cmp({b},{c})={got:?}")));
    }
    if (nb < nc) != (r == Some(Ordering::Less)) || (nb > nc) != (r == Some(Ordering::Greater)) || (nb <= nc) != matches!(r, Some(Ordering::Less | Ordering::Equal)) || (nb >= nc) != matches!(r, Some(Ordering::Greater | Ordering::Equal)) || (nb == nc) != (b == c) {
        return Some(("operators", format!("new::base::Serial <,>,<=,>=,== of ({b},{c}) disagree with RFC 1982 {r:?}")));
    }
    // c as the amount to add
    if c <= 0x7FFF_FFFF {
        let s = nb.inc(c as i32);
        if s.get() != b.wrapping_add(c) {
            return Some(("add-value", format!("new::base::Serial {b}.inc({c}) = {}", s.get())));
        }
        if c >= 1 && !(s > nb && nb < s && s.partial_cmp(&nb) == Some(Ordering::Greater)) {
            return Some(("add-not-greater", format!("new::base::Serial {b}.inc({c}) = {} is not greater than {b}", s.get())));
        }
        if c == 0 && s != nb {
            return Some(("add-zero", format!("new::base::Serial {b}.inc(0) != {b}")));
        }
    }
    None
}

/// `new::base::Serial` over a dense grid (quick) - in the thorough tier it also rides along with the full sweep.
fn part_new_api_grid(ctx: &Ctx) -> u64 {
    let bases: [u32; 14] = [0, 1, 0x7FFF_FFFF, 0x8000_0000, 0x8000_0001, 0xFFFF_FFFF, 0xFFFF_FFFE, 0x1234_5679, 0xDEAD_BEEF, 0x7FFF_FFFE, 0x4000_0001, 0xC000_0003, 0x00FF_FF01, 0xFF00_00FF];
    let mut others: Vec<u32> = (0..65536u32).map(|k| k.wrapping_mul(65537)).collect();
    for c in [0u32, 0x4000_0000, 0x8000_0000, 0xC000_0000] {
        for d in 0..=8u32 {
            others.push(c.wrapping_add(d).wrapping_sub(4));
        }
    }
    others.sort();
    others.dedup();
    let n = AtomicU64::new(0);
    bases.par_iter().for_each(|&b| {
        let mut first: Option<(&'static str, String, u32)> = None;
        // c both as the other value (relative to b) and as the amount to add
        for &d in &others {
            for c in [d, b.wrapping_add(d)] {
                n.fetch_add(1, AO::Relaxed);
                match guard(|| new_api_pair(b, c)) {
                    Ok(None) => {}
                    Ok(Some((sig, what))) => {
                        first.get_or_insert((sig, what, c));
                    }
                    Err(p) => {
                        first.get_or_insert(("panic", p, c));
                    }
                }
            }
        }
        if let Some((sig, what, c)) = first {
            ctx.violation(&format!("C17|new-base-serial|{sig}"), &what, json!({"part": "new-base-serial", "base": b, "other": c}));
        }
        // inc() must panic for a negative amount (documented)
        for a in [-1i32, i32::MIN] {
            n.fetch_add(1, AO::Relaxed);
            if let Ok(v) = guard(|| domain::new::base::Serial::new(b).inc(a)) {
                ctx.violation("C17|new-base-serial|add-precondition", &format!("new::base::Serial {b}.inc({a}) returned {} instead of panicking as documented", v.get()), json!({"part": "new-base-serial", "base": b, "addend": a}));
            }
        }
    });
    n.load(AO::Relaxed)
}

fn days_from_civil(y: i64, m: i64, d: i64) -> i64 {
    // proleptic Gregorian calendar, days since 1970-01-01
    let y = if m <= 2 { y - 1 } else { y };
    let era = if y >= 0 { y } else { y - 399 } / 400;
    let yoe = y - era * 400;
    let doy = (153 * (if m > 2 { m - 3 } else { m + 9 }) + 2) / 5 + d - 1;
    let doe = yoe * 365 + yoe / 4 - yoe / 100 + doy;
    era * 146097 + doe - 719468
}

fn days_in_month(y: i64, m: i64) -> i64 {
    match m {
        1 | 3 | 5 | 7 | 8 | 10 | 12 => 31,
        4 | 6 | 9 | 11 => 30,
        2 => {
            if (y % 4 == 0 && y % 100 != 0) || y % 400 == 0 {
                29
            } else {
                28
            }
        }
        _ => 0,
    }
}

/// Use site: signature times in presentation format (RFC 4034 3.2): integer
/// or YYYYMMDDHHmmSS, seconds since the epoch modulo 2^32.
fn part_text_forms(ctx: &Ctx) -> u64 {
    use domain::base::scan::IterScanner;
    use std::str::FromStr;
    // (text, expected: Some(value) accept with that value / None reject)
    let mut cases: Vec<(String, Option<u32>)> = Vec::new();
    let mut add_date = |y: i64, mo: i64, d: i64, h: i64, mi: i64, s: i64| {
        let valid = (1..=12).contains(&mo) && d >= 1 && d <= days_in_month(y, mo) && (0..24).contains(&h) && (0..60).contains(&mi) && (0..60).contains(&s);
        let text = format!("{y:04}{mo:02}{d:02}{h:02}{mi:02}{s:02}");
        if text.len() != 14 {
            return;
        }
        let secs = days_from_civil(y, mo, d) * 86400 + h * 3600 + mi * 60 + s;
        cases.push((text, if valid { Some(secs.rem_euclid(1i64 << 32) as u32) } else { None }));
    };
    // every day 1970..=2500 at the first and the last second
    for y in 1970..=2500 {
        for mo in 1..=12 {
            for d in 1..=days_in_month(y, mo) {
                add_date(y, mo, d, 0, 0, 0);
                add_date(y, mo, d, 23, 59, 59);
            }
        }
    }
    // every second around k * 2^31
    for k in 1..=8i64 {
        for off in -3..=3i64 {
            let t = k * (1i64 << 31) + off;
            let days = t.div_euclid(86400);
            let rem = t.rem_euclid(86400);
            // civil from days
            let z = days + 719468;
            let era = z.div_euclid(146097);
            let doe = z - era * 146097;
            let yoe = (doe - doe / 1460 + doe / 36524 - doe / 146096) / 365;
            let doy = doe - (365 * yoe + yoe / 4 - yoe / 100);
            let mp = (5 * doy + 2) / 153;
            let d = doy - (153 * mp + 2) / 5 + 1;
            let m = if mp < 10 { mp + 3 } else { mp - 9 };
            let y = yoe + era * 400 + if m <= 2 { 1 } else { 0 };
            add_date(y, m, d, rem / 3600, rem % 3600 / 60, rem % 60);
        }
    }
    for y in (1971..=9998).step_by(97) {
        add_date(y, 1, 1, 0, 0, 0);
        add_date(y, 12, 31, 23, 59, 59);
    }
    // (the last days of year 9999 are outside jiff's timestamp range: not asked for)
    // calendar validity: all month x day combinations of a leap and a non-leap year, time edges
    for y in [2023i64, 2024, 2100, 2400] {
        for mo in 0..=13 {
            for d in 0..=32 {
                add_date(y, mo, d, 12, 0, 0);
            }
        }
    }
    for (h, mi, s) in [(24, 0, 0), (23, 60, 0), (0, 0, 0), (23, 59, 59), (12, 59, 0)] {
        add_date(2024, 6, 15, h, mi, s);
    }
    // integer forms
    for v in [0u64, 1, 9, 10, 0x7FFF_FFFF, 0x8000_0000, 0xFFFF_FFFE, 0xFFFF_FFFF, 0x1_0000_0000, 0x1_0000_0001, 9_999_999_999, 10_000_000_000, 99_999_999_999_999] {
        let text = format!("{v}");
        if text.len() == 14 {
            continue; // that is a date form
        }
        cases.push((text, if v <= 0xFFFF_FFFF { Some(v as u32) } else { None }));
    }
    let n = cases.len() as u64 * 2;
    cases.par_iter().for_each(|(text, want)| {
        let r1 = guard(|| domain::rdata::dnssec::Timestamp::from_str(text).map(|t| t.into_int()).ok());
        let r2 = guard(|| {
            let mut sc = IterScanner::<_, Vec<u8>>::new([text.as_str()].into_iter());
            domain::rdata::dnssec::Timestamp::scan(&mut sc).map(|t| t.into_int()).ok()
        });
        for (route, r) in [("from_str", r1), ("scan", r2)] {
            let case = || json!({"text": text, "route": route, "part": "signature-time-text"});
            let kind = if text.len() == 14 { "date" } else { "integer" };
            match (r, want) {
                (Err(p), _) => {
                    ctx.violation(&format!("C17|sigtime-text|{route}|panic|{}", panic_class(&p)), &p, case());
                }
                (Ok(Some(got)), Some(w)) => {
                    if got != *w {
                        ctx.violation(&format!("C17|sigtime-text|{route}|{kind}|value-is-not-seconds-since-epoch-mod-2^32"), &format!("{text} read as {got}, expected {w}"), case());
                    }
                }
                (Ok(Some(got)), None) => {
                    ctx.violation(&format!("C17|sigtime-text|{route}|{kind}|accepted-invalid"), &format!("{text} is not a valid signature time but was read as {got}"), case());
                }
                (Ok(None), Some(w)) => {
                    ctx.violation(&format!("C17|sigtime-text|{route}|{kind}|rejected-valid"), &format!("{text} (= {w}) was rejected"), case());
                }
                (Ok(None), None) => {}
            }
        }
    });
    n
}

fn main() {
    let ctx = Ctx::new("C17", "exploration");
    if let Some(path) = &ctx.replay {
        // replay one stored case without the sweep
        use std::str::FromStr;
        let v: serde_json::Value = serde_json::from_str(&std::fs::read_to_string(path).expect("replay file")).expect("json");
        let c = &v["case"];
        println!("replaying {}", v["signature"]);
        if let Some(t) = c["text"].as_str() {
            println!("Timestamp::from_str({t:?}) = {:?}", guard(|| Timestamp::from_str(t).map(|x| x.into_int()).ok()));
        } else if c["part"] == "stream-client-lone-soa" {
            let u = |k: &str| c[k].as_u64().expect("replay field") as u32;
            let (cl, sv) = (u("client_serial"), u("server_serial"));
            println!("RFC 1982: server serial {sv} newer than the request's serial {cl} = {:?}", newer(cl, sv));
            stream_client_case(&ctx, cl, sv, c["one_record_per_message"].as_bool().unwrap(), c["later_messages_repeat_the_question"].as_bool().unwrap());
        } else if c["part"] == "xfr-server-ixfr" {
            let u = |k: &str| c[k].as_u64().expect("replay field") as u32;
            let (cl, sv) = (u("client_serial"), u("server_serial"));
            println!("RFC 1982: server serial {sv} newer than the request's serial {cl} = {:?}", newer(cl, sv));
            xfr_server_case(&ctx, cl, sv, c["udp"].as_bool().unwrap());
        } else if c["part"] == "signer-validity-period" {
            let u = |k: &str| c[k].as_u64().expect("replay field") as u32;
            println!("RFC 1982: expiration vs inception = {:?}", reference(u("expiration"), u("inception")));
            part_signer_validity(&ctx, Some((u("inception"), u("expiration"))));
        } else if c["part"] == "cookie-window" {
            let u = |k: &str| c[k].as_u64().expect("replay field") as u32;
            println!("RFC 1982: from vs timestamp = {:?}, timestamp vs end = {:?}", reference(u("from"), u("timestamp")), reference(u("timestamp"), u("from").wrapping_add(u("length"))));
            part_cookie_window(&ctx, Some((u("from"), u("timestamp"), u("length"))));
        } else if c["part"] == "new-base-serial" {
            let b = c["base"].as_u64().unwrap() as u32;
            if let Some(o) = c["other"].as_u64() {
                println!("RFC 1982 {:?}; new::base::Serial: {:?}", reference(b, o as u32), guard(|| new_api_pair(b, o as u32)));
            } else {
                let a = c["addend"].as_i64().unwrap() as i32;
                println!("new::base::Serial {b}.inc({a}) = {:?}", guard(|| domain::new::base::Serial::new(b).inc(a).get()));
            }
        } else if c["part"] == "zone-diff" {
            let (b, e) = (c["start"].as_u64().unwrap() as u32, c["end"].as_u64().unwrap() as u32);
            println!("RFC 1982: end newer than start = {:?}; Serial({b}).partial_cmp(Serial({e})) = {:?}", newer(b, e), Serial::from(b).partial_cmp(&Serial::from(e)));
            println!("(the diff itself is rebuilt by the zone-diff part of the check: run the check to see the class again)");
        } else {
            let b = c["base"].as_u64().unwrap() as u32;
            let o = c["other"].as_u64().or(c["addend"].as_u64()).unwrap() as u32;
            println!("Serial({b}).partial_cmp(Serial({o})) = {:?}, reverse {:?}, RFC 1982 {:?}", Serial::from(b).partial_cmp(&Serial::from(o)), Serial::from(o).partial_cmp(&Serial::from(b)), reference(b, o));
            println!("Timestamp: {:?}", Timestamp::from(b).partial_cmp(&Timestamp::from(o)));
            println!("Serial({b}).add({o}) = {:?}", guard(|| Serial::from(b).add(o).into_int()));
            let st = Timestamp::from(o).to_system_time(std::time::UNIX_EPOCH + std::time::Duration::from_secs((1u64 << 32) + b as u64));
            println!("Timestamp({o}).to_system_time(2^32+{b}) = {:?}", st.duration_since(std::time::UNIX_EPOCH).map(|d| d.as_secs()));
        }
        ctx.finish_quiet();
    }
    if std::env::var("C17_SITES_ONLY").is_ok() {
        // development aid: only the use-site parts, no sweep, no evidence file
        let t = std::time::Instant::now();
        let counts = [part_diff_direction(&ctx), part_text_forms(&ctx), part_ixfr_across_the_wrap(&ctx), part_commit_bump(&ctx), part_stream_client(&ctx), part_xfr_server(&ctx), part_signer_validity(&ctx, None), part_new_api_grid(&ctx), part_cookie_window(&ctx, None)];
        println!("use-site parts only: cases {counts:?} in {:.1} s", t.elapsed().as_secs_f64());
        ctx.finish_quiet();
    }
    let bases: Vec<u32> = if ctx.quick() {
        vec![0x7FFF_FFFF, 0xFFFF_FFFE]
    } else {
        vec![
            0, 1, 0x7FFF_FFFF, 0x8000_0000, 0x8000_0001, 0xFFFF_FFFF, 0xFFFF_FFFE, 0x1234_5679,
            0xDEAD_BEEF, 0x7FFF_FFFE, 0x4000_0001, 0xC000_0003, 0x00FF_FF01, 0xFF00_00FF,
        ]
    };
    let ks: [u32; 3] = [1, 0x7FFF_FFFF, 0x8000_0001];
    let evals = AtomicU64::new(0);
    let nontriv = AtomicU64::new(0);
    let outcomes = [AtomicU64::new(0), AtomicU64::new(0), AtomicU64::new(0), AtomicU64::new(0)];
    let stats = Stats::new();
    const CHUNK: u64 = 1 << 22;
    let deep = !ctx.quick();
    for (bi, &b) in bases.iter().enumerate() {
        // quick: one era per base (both eras are swept, over different bases); thorough: both for every base
        let eras: Vec<u64> = if ctx.quick() { vec![(bi as u64 + 1) % 2] } else { vec![0, 1] };
        (0..(1u64 << 32) / CHUNK).into_par_iter().for_each(|ch| {
            let mut local_out = [0u64; 4];
            let mut viol: Option<(String, String, u32)> = None;
            let sb = Serial::from(b);
            let tb = Timestamp::from(b);
            for c64 in ch * CHUNK..(ch + 1) * CHUNK {
                let c = c64 as u32;
                let sc = Serial::from(c);
                let r = reference(b, c);
                let got = sb.partial_cmp(&sc);
                let rev = sc.partial_cmp(&sb);
                local_out[match got {
                    Some(Ordering::Less) => 0,
                    Some(Ordering::Equal) => 1,
                    Some(Ordering::Greater) => 2,
                    None => 3,
                }] += 1;
                if got != r {
                    viol.get_or_insert(("cmp-vs-rfc1982".into(), format!("partial_cmp({b},{c})={got:?}, RFC 1982 says {r:?}"), c));
                }
                if rev != r.map(Ordering::reverse) {
                    viol.get_or_insert(("antisymmetry".into(), format!("partial_cmp({c},{b})={rev:?} but partial_cmp({b},{c})={got:?}"), c));
                }
                // undefined exactly at distance 2^31
                if got.is_none() != (b.wrapping_sub(c) == 0x8000_0000) {
                    viol.get_or_insert(("undefined-iff-2^31".into(), format!("partial_cmp({b},{c})={got:?}"), c));
                }
                // operators agree with partial_cmp
                if (sb < sc) != (r == Some(Ordering::Less))
                    || (sb > sc) != (r == Some(Ordering::Greater))
                    || (sb <= sc) != matches!(r, Some(Ordering::Less | Ordering::Equal))
                    || (sb >= sc) != matches!(r, Some(Ordering::Greater | Ordering::Equal))
                    || (sb == sc) != (b == c)
                {
                    viol.get_or_insert(("operators".into(), format!("<,>,<=,>=,== of ({b},{c}) disagree with RFC 1982 {r:?}"), c));
                }
                // Timestamp wraps Serial
                let tc = Timestamp::from(c);
                if tb.partial_cmp(&tc) != r || (tb < tc) != (r == Some(Ordering::Less)) || (tb > tc) != (r == Some(Ordering::Greater)) {
                    viol.get_or_insert(("timestamp-cmp".into(), format!("Timestamp partial_cmp({b},{c}) != RFC 1982 {r:?}"), c));
                }
                // Timestamp::to_system_time: the documented requirements - (1) the result is congruent
                // to the timestamp modulo 2^32, (2) its distance from the reference fits an i32 -
                // for references in the first two 2^32-second eras (the first one has no earlier era to fall back to) whose low part is the base
                for era in eras.iter().cloned() {
                    let refsecs = era * (1u64 << 32) + b as u64;
                    let st = tc.to_system_time(std::time::UNIX_EPOCH + std::time::Duration::from_secs(refsecs));
                    let got = st.duration_since(std::time::UNIX_EPOCH).map(|d| d.as_secs()).unwrap_or(u64::MAX);
                    if got & 0xFFFF_FFFF != c as u64 {
                        viol.get_or_insert(("to_system_time-not-congruent".into(), format!("Timestamp({c}).to_system_time(reference {refsecs}) = {got}, not congruent to {c} mod 2^32"), c));
                    }
                    let dist = got as i128 - refsecs as i128;
                    let fits = dist >= i32::MIN as i128 && dist <= i32::MAX as i128 + 1; // exactly 2^31 apart has no closer choice
                    // before the epoch there is no SystemTime to return: only demanded when a candidate >= 0 exists
                    let achievable = era > 0 || {
                        let d0 = c as i128 - refsecs as i128;
                        d0 >= i32::MIN as i128 && d0 <= i32::MAX as i128 + 1 || d0 + (1i128 << 32) <= i32::MAX as i128 + 1
                    };
                    if achievable && !fits {
                        viol.get_or_insert(("to_system_time-too-far-from-reference".into(), format!("Timestamp({c}).to_system_time(reference {refsecs}) = {got}: distance {dist} does not fit an i32"), c));
                    }
                }
                // the serial type of the new base (thorough tier; the quick tier covers it over a grid)
                if deep {
                    if let Some((sig, what)) = new_api_pair(b, c) {
                        viol.get_or_insert((format!("new-base-serial|{sig}"), what, c));
                    }
                }
                // invariance under adding the same amount to both sides
                for k in ks {
                    let (b2, c2) = (b.wrapping_add(k), c.wrapping_add(k));
                    if Serial::from(b2).partial_cmp(&Serial::from(c2)) != got {
                        viol.get_or_insert(("shift-invariance".into(), format!("cmp({b}+{k},{c}+{k}) != cmp({b},{c})"), c));
                    }
                }
                // addition: c as addend
                if c <= 0x7FFF_FFFF {
                    let s = sb.add(c);
                    if s.into_int() != b.wrapping_add(c) {
                        viol.get_or_insert(("add-value".into(), format!("{b}.add({c}) = {}", s.into_int()), c));
                    }
                    if c >= 1 && !(s > sb && sb < s && s.partial_cmp(&sb) == Some(Ordering::Greater)) {
                        viol.get_or_insert(("add-not-greater".into(), format!("{b}.add({c}) = {} is not greater than {b}", s.into_int()), c));
                    }
                    if c == 0 && s != sb {
                        viol.get_or_insert(("add-zero".into(), format!("{b}.add(0) != {b}"), c));
                    }
                }
            }
            evals.fetch_add(CHUNK, AO::Relaxed);
            let lo = ch * CHUNK;
            let hi = (ch + 1) * CHUNK;
            let contains_b = (b as u64) >= lo && (b as u64) < hi;
            nontriv.fetch_add(CHUNK - contains_b as u64, AO::Relaxed);
            for i in 0..4 {
                outcomes[i].fetch_add(local_out[i], AO::Relaxed);
            }
            if let Some((sig, what, c)) = viol {
                ctx.violation(&format!("C17|{sig}"), &what, json!({"base": b, "other": c}));
            }
        });
        stats.sample(6, || json!({"base": b, "swept": "all 2^32 values c: cmp(b,c), cmp(c,b), operators, Timestamp, cmp(b+k,c+k) k in {1,2^31-1,2^31+1}, b.add(c) for c<2^31"}));
        // add() must panic above 2^31-1 (documented precondition)
        for a in [0x8000_0000u32, 0x8000_0001, 0xFFFF_FFFF] {
            let r = guard(|| Serial::from(b).add(a));
            if let Ok(v) = r {
                ctx.violation("C17|add-precondition", &format!("{b}.add({a}) returned {} instead of panicking as documented", v.into_int()), json!({"base": b, "addend": a}));
            }
            evals.fetch_add(1, AO::Relaxed);
        }
    }
    let (diff_cases, text_cases) = (part_diff_direction(&ctx), part_text_forms(&ctx));
    let (ixfr_cases, bump_cases) = (part_ixfr_across_the_wrap(&ctx), part_commit_bump(&ctx));
    let (client_cases, server_cases) = (part_stream_client(&ctx), part_xfr_server(&ctx));
    let (signer_cases, new_api_cases) = (part_signer_validity(&ctx, None), part_new_api_grid(&ctx));
    let cookie_cases = part_cookie_window(&ctx, None);
    let site_cases = diff_cases + text_cases + ixfr_cases + bump_cases + client_cases + server_cases + signer_cases + new_api_cases + cookie_cases;
    evals.fetch_add(site_cases, AO::Relaxed);
    nontriv.fetch_add(site_cases, AO::Relaxed);
    let e = evals.load(AO::Relaxed);
    ctx.finish(
        json!({
            "evaluations": e,
            "distinct_nontrivial": nontriv.load(AO::Relaxed),
            "rule": "pairs (base, c) for every c in 0..2^32 per base; every pair is distinct by construction; non-trivial = c != base (counted per chunk)",
            "exhaustive": true,
            "bases": bases,
            "use_sites": {"zone_diff_direction_cases": diff_cases, "signature_time_text_cases": text_cases, "ixfr_chains": ixfr_cases, "commit_bumps": bump_cases, "stream_client_lone_soa_cases": client_cases, "xfr_server_ixfr_cases": server_cases, "signer_validity_periods": signer_cases, "new_base_serial_pairs": new_api_cases, "cookie_windows": cookie_cases, "serial_pair_menu": {"pairs": serial_pairs(!ctx.quick()).len(), "rule": "(first, first + d) for first on both sides of 0, 2^31 and 2^32 (12 values; thorough: 20) and d in {0, 1, 2, 2^12, 2^30, 2^31-2, 2^31-1, 2^31, 2^31+1, 2^31+2, 3*2^30, 2^32-2^12, 2^32-2, 2^32-1}"}, "decision_sites_rule": "every decision site is judged by the RFC 1982 reference of the harness over the serial pair menu. stream client (net::client::stream, RequestMessageMulti IXFR with the first serial in the authority SOA, mock peer on an in-memory connection under tokio's paused clock): the peer at the second serial answers with a first message holding only its SOA, followed - unless it has nothing newer - by the difference sequence (one record per message or all in one, later messages with or without the question) and keeps the connection open; server newer: all messages are delivered, then the end of the response; not newer (equal or older): the one message, then the end, no waiting (a failure, or no end within 5 s of virtual time - the peer's messages arrive without time passing - is a violation); 2^31 apart: either. XFR sender (XfrMiddlewareSvc over TCP and UDP, provider handing out the zone and the one difference it keeps, history_from -> server serial): client same or newer: a single SOA of the server's serial (or the entire zone), never difference sequences; client older: a transfer of at least 3 records framed by the server's SOA; 2^31 apart: either; responses read by the independent wire reader. signer (sign_rrset, Ed25519 test key): first = inception, second = expiration: expiration not older than inception: signed, RRSIG carries both times as given; older: refused; 2^31 apart: either. new::base::Serial (the serial type of the new base): partial_cmp both ways, <,>,<=,>=,==, inc(c) value and strictly-greater, for 14 bases x (every multiple of 65537 and +-4 around 0, 2^30, 2^31, 3*2^30), c taken both as absolute value and as distance from the base; inc() of a negative amount panics; in the thorough tier it rides along with the full sweep. cookie window (new::edns::Cookie::verify with an explicit Range of serials; the cookie is made for the second value of the pair by base::opt::cookie, the window starts at the first value and is 1 s, 300 s, 3900 s, 2^30 s or 2^31-1 s long): accepted iff the start is not newer than the timestamp and the end is newer (skipped where one of the two comparisons is undefined); control: every cookie is accepted for the window [t, t+1). Not driven: net::server::middleware::cookies (reads the wall clock, no hook; at today's wall-clock value no pair distinguishes serial from plain integer comparison), the validator's signature-time checks (driven by C14 over its wrap clocks), zonetree's internal Version counter (starts at 0, +1 per commit)", "rule": "IXFR: for 12 start serials on both sides of 0, 2^31 and 2^32 x 6 chains of 1-3 difference sequences (steps 1, 2, 2^31-16, 2^31-1) the response is built, interpreted by XfrResponseInterpreter (batches reported with the serials sent) and applied by ZoneUpdater to a zone at the first serial (ends at the last version); commit(true): 4 successive serial-bumping commits from each start serial publish the RFC 1982 successor each time; zone diffs: InMemoryZoneDiffBuilder::build for start = base, end = base + d over 14 bases x a dense offset grid (every multiple of 65537 and +-2 around 0, 2^31, 2^32): a diff is made iff end is newer than start by RFC 1982 (2^31 apart: either), with start/end serials as given; signature times in text: every calendar day 1970-01-01..2500-12-31 at 00:00:00 and 23:59:59, every second +-3 around k*2^31 (k = 1..8), Jan 1/Dec 31 of years 1971..9998 step 97, all month x day combinations of a leap and a non-leap year, hour/minute/second edge values, and integer forms at the u32 boundaries, through Timestamp::from_str and Timestamp::scan: value == seconds since the epoch mod 2^32 (own civil-date arithmetic), invalid dates rejected, integers above 2^32-1 rejected; Timestamp::to_system_time for references in the first two 2^32-second eras for all 2^32 timestamps"},
            "outcome_counts": {"less": outcomes[0].load(AO::Relaxed), "equal": outcomes[1].load(AO::Relaxed), "greater": outcomes[2].load(AO::Relaxed), "undefined": outcomes[3].load(AO::Relaxed)},
            "samples": stats.samples(),
        }),
        &["the cross-sections {base} x 2^32 contain every branch pair of partial_cmp; the full 2^64 pair space is not swept"],
    );
}
