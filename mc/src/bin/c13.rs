//! C13 — generated NSEC / NSEC3 chains are complete, ordered, closed and
//! exactly typed.
//!
//! Exhaustive enumeration of every zone over a small name universe under the
//! apex `z.` (every subset of the names x RRset kinds per name) x every
//! generator configuration.  For each (zone, config) the REAL
//! `generate_nsecs` / `generate_nsec3s` is run on a real `SortedRecords` and
//! the result is compared with an independent chain builder written here
//! from RFC 4034 §4/§6.1, RFC 4035 §2.3 and RFC 5155 §5/§7.1 (own canonical
//! order, own cut/glue/occlusion predicates, own ENT derivation, own
//! iterated+salted SHA-1, own base32hex, own type-bitmap encoder).  Then,
//! for every absent (name, type) probe over the closure of the universe, an
//! independent "matches-without-the-bit" / "covers (incl. wrap-around)"
//! predicate is evaluated on the records the library returned.
//!
//! Three enumerations share the oracle: (1) the main product over the name
//! universe of `slots()`; (2) the TYPE-axis sweep (`sweep_zones()`); (3) the
//! below-the-cut sweep (`bc_slots()`): the full product of what may sit AT a
//! delegation point (nothing / NS / NS+DS / NS + glue A at the cut owner) and
//! at three sibling names plus one deeper name BELOW it (nothing / A / NS =
//! occluded nested delegation / NS+DS / NS+A; thorough also DS alone, DNAME,
//! SOA), with a plain name before and a second delegation after the
//! subtree.  "Authoritative" is derived from RFC 4035 §2.3 / RFC 5155 §7.1
//! only: strictly below ANY non-apex NS owner = not authoritative, so the
//! top-most NS owner of a branch is the delegation point and an NS owner
//! below it decides nothing.  A probe for a name below a cut is a referral:
//! the delegation record of the top-most cut must be there (NS, no SOA, DS
//! as present, or the opt-out proof) and nothing below the cut owns,
//! matches or starts an interval.
//!
//! A fourth enumeration is over the ROUTES by which the NSEC3 parameters
//! reach the generator (`PRoute`): `Nsec3param::new` with the Opt-Out bit in
//! its flags argument, `with_opt_out()`, `set_opt_out_flag()`, the wire
//! parser, the zonefile scanner, octets conversion, the public fields of a
//! default configuration, the default object; x Opt-Out modes x reserved flag
//! bits, on the product of the zone features Opt-Out acts on.  All
//! expectations are computed from the REQUESTED values held in `N3Cfg`, never
//! from a getter of the library's parameters object; the getters themselves
//! are checked against the requested values, and `Nsec3param` / `Nsec3` are
//! checked as value carriers over menus of all four parameter fields.
use bytes::Bytes;
use domain::base::iana::{Class, DigestAlgorithm, Nsec3HashAlgorithm, Rtype, SecurityAlgorithm};
use domain::base::name::{Name, ParsedName};
use domain::base::rdata::{ComposeRecordData, RecordData};
use domain::base::{Record, Serial, Ttl};
use domain::dnssec::common::{nsec3_default_hash, nsec3_hash, Nsec3HashError};
use domain::dnssec::sign::error::SigningError;
use domain::dnssec::sign::records::{RecordsIter, SliceRefsOrOwned};
use domain::rdata::dnssec::{RtypeBitmap, RtypeBitmapBuilder};
use domain::rdata::nsec3::OwnerHash;
use domain::rdata::{Nsec, Nsec3};
use octseq::builder::{EmptyBuilder, FromBuilder};
use octseq::{OctetsFrom, OctetsInto, Parser};
use domain::zonefile::inplace::{Entry, Zonefile};
use domain::dnssec::sign::denial::nsec::{generate_nsecs, GenerateNsecConfig};
use domain::dnssec::sign::denial::nsec3::{generate_nsec3s, GenerateNsec3Config, Nsec3ParamTtlMode};
use domain::dnssec::sign::records::{DefaultSorter, SortedRecords};
use domain::rdata::nsec3::Nsec3Salt;
use domain::base::rdata::UnknownRecordData;
use domain::rdata::{Aaaa, Cname, Ds, Ns, Nsec3param, Soa, Txt, ZoneRecordData, A};
use mc::*;
use rayon::prelude::*;
use serde_json::{json, Value};
use std::cmp::Ordering;
use std::collections::{BTreeMap, BTreeSet, HashMap};
use std::sync::Mutex;
use std::time::Duration;

// ---------------------------------------------------------------- types

const T_A: u16 = 1;
const T_NS: u16 = 2;
const T_CNAME: u16 = 5;
const T_SOA: u16 = 6;
const T_TXT: u16 = 16;
const T_AAAA: u16 = 28;
const T_DS: u16 = 43;
const T_RRSIG: u16 = 46;
const T_NSEC: u16 = 47;
const T_DNSKEY: u16 = 48;
const T_NSEC3PARAM: u16 = 51;
const T_CAA: u16 = 257;
const T_PRIV: u16 = 65280;
const T_PRIV2: u16 = 65281;

/// qtypes used for "absent type" probes.
const PROBE_TYPES: [u16; 12] = [
    T_A, T_NS, T_CNAME, T_SOA, T_TXT, T_AAAA, T_DS, T_DNSKEY, T_NSEC3PARAM, T_CAA, T_PRIV, T_PRIV2,
];

fn tname(t: u16) -> String {
    match t {
        T_A => "A".into(),
        T_NS => "NS".into(),
        T_CNAME => "CNAME".into(),
        T_SOA => "SOA".into(),
        T_TXT => "TXT".into(),
        T_AAAA => "AAAA".into(),
        T_DS => "DS".into(),
        T_RRSIG => "RRSIG".into(),
        T_NSEC => "NSEC".into(),
        T_DNSKEY => "DNSKEY".into(),
        T_NSEC3PARAM => "NSEC3PARAM".into(),
        T_CAA => "CAA".into(),
        t => format!("TYPE{t}"),
    }
}

fn tnames(ts: &[u16]) -> String {
    ts.iter().map(|t| tname(*t)).collect::<Vec<_>>().join("+")
}

/// Type numbers that cannot be zone data, or that only a signer produces:
/// OPT (41) and the QTYPE/Meta-TYPE range 128..=255 (RFC 6895 §3.1; RFC 4034
/// §4.1.2 and RFC 5155 §3.2.1 say their bits "MUST be clear, as they do not
/// appear in zone data"), NSEC3 (50; RFC 5155 §7.1: never present in a type
/// bitmap) and, in an NSEC3-signed zone, NSEC (47).  The library lets a
/// caller store such a record (`ZoneRecordData::Unknown`), and the property
/// says "exactly the types present", so for a record of such a type that IS
/// in the input the oracle accepts the bit set or clear; it never accepts
/// the bit when the type is absent, and every other type number must be
/// listed exactly.
fn unconstrained(t: u16, nsec3: bool) -> bool {
    t == 41 || (128..=255).contains(&t) || t == 50 || (nsec3 && t == T_NSEC)
}

/// None if `got` is acceptable; otherwise (missing, extra).
fn bitmap_diff(got: &[u16], want: &[u16], mandated: &[u16], nsec3: bool) -> Option<(Vec<u16>, Vec<u16>)> {
    let missing: Vec<u16> = want.iter().copied().filter(|t| !got.contains(t) && (mandated.contains(t) || !unconstrained(*t, nsec3))).collect();
    let extra: Vec<u16> = got.iter().copied().filter(|t| !want.contains(t)).collect();
    if missing.is_empty() && extra.is_empty() {
        None
    } else {
        Some((missing, extra))
    }
}

type LName = Name<Bytes>;
type LData = ZoneRecordData<Bytes, LName>;
type LRec = Record<LName, LData>;
type Sorted = SortedRecords<LName, LData>;
type VName = Name<Vec<u8>>;
type VData = ZoneRecordData<Vec<u8>, VName>;
type SortedV = SortedRecords<VName, VData>;

// ------------------------------------------------- own name machinery

/// Absolute name, labels leftmost first, root label not stored.
type Labels = Vec<Vec<u8>>;

fn parse_name(s: &str) -> Labels {
    s.split('.').filter(|l| !l.is_empty()).map(|l| l.as_bytes().to_vec()).collect()
}

fn show_name(l: &Labels) -> String {
    let mut s = String::new();
    for x in l {
        s.push_str(&String::from_utf8_lossy(x));
        s.push('.');
    }
    if s.is_empty() {
        s.push('.');
    }
    s
}

fn lower(l: &Labels) -> Labels {
    l.iter().map(|x| x.to_ascii_lowercase()).collect()
}

/// RFC 4034 §6.1 canonical name order: compare label by label starting from
/// the rightmost, each label as a left-justified lowercase octet string, a
/// missing label (or octet) sorting first.
fn canon_cmp(a: &Labels, b: &Labels) -> Ordering {
    let mut ia = a.iter().rev();
    let mut ib = b.iter().rev();
    loop {
        match (ia.next(), ib.next()) {
            (None, None) => return Ordering::Equal,
            (None, Some(_)) => return Ordering::Less,
            (Some(_), None) => return Ordering::Greater,
            (Some(x), Some(y)) => {
                let (lx, ly) = (x.to_ascii_lowercase(), y.to_ascii_lowercase());
                let n = lx.len().min(ly.len());
                for i in 0..n {
                    if lx[i] != ly[i] {
                        return lx[i].cmp(&ly[i]);
                    }
                }
                if lx.len() != ly.len() {
                    return lx.len().cmp(&ly.len());
                }
            }
        }
    }
}

/// `n` is at or below `anc` (case-insensitive label-wise suffix).
fn at_or_below(n: &Labels, anc: &Labels) -> bool {
    if n.len() < anc.len() {
        return false;
    }
    let off = n.len() - anc.len();
    (0..anc.len()).all(|i| n[off + i].eq_ignore_ascii_case(&anc[i]))
}

fn wire(l: &Labels) -> Vec<u8> {
    let mut w = Vec::new();
    for x in l {
        w.push(x.len() as u8);
        w.extend_from_slice(x);
    }
    w.push(0);
    w
}

fn wire_lc(l: &Labels) -> Vec<u8> {
    wire(&lower(l))
}

/// Split uncompressed wire format into labels (root dropped).
fn unwire(w: &[u8]) -> Option<Labels> {
    let mut out = Vec::new();
    let mut i = 0;
    loop {
        let n = *w.get(i)? as usize;
        if n == 0 {
            return if i + 1 == w.len() { Some(out) } else { None };
        }
        if n > 63 {
            return None;
        }
        out.push(w.get(i + 1..i + 1 + n)?.to_vec());
        i += 1 + n;
    }
}

/// Well-formedness of an uncompressed absolute wire name.
fn unwire_ok(w: &[u8]) -> Option<()> {
    let mut i = 0;
    loop {
        let n = *w.get(i)? as usize;
        if n == 0 {
            return if i + 1 == w.len() { Some(()) } else { None };
        }
        if n > 63 {
            return None;
        }
        i += 1 + n;
    }
}

// ------------------------------------------------ own NSEC3 primitives

/// RFC 5155 §5: IH(salt, x, 0) = H(x || salt); IH(salt, x, k) =
/// H(IH(salt, x, k-1) || salt); x = owner name in canonical (lowercase,
/// uncompressed) wire form.
fn own_nsec3_hash(name: &Labels, salt: &[u8], iterations: u16) -> [u8; 20] {
    let mut buf = wire_lc(name);
    buf.extend_from_slice(salt);
    let mut h = ring::digest::digest(&ring::digest::SHA1_FOR_LEGACY_USE_ONLY, &buf);
    for _ in 0..iterations {
        let mut b = h.as_ref().to_vec();
        b.extend_from_slice(salt);
        h = ring::digest::digest(&ring::digest::SHA1_FOR_LEGACY_USE_ONLY, &b);
    }
    let mut out = [0u8; 20];
    out.copy_from_slice(h.as_ref());
    out
}

const B32HEX: &[u8; 32] = b"0123456789abcdefghijklmnopqrstuv";

/// RFC 4648 §7 base32hex without padding.
fn b32hex_encode(data: &[u8]) -> String {
    let mut out = String::new();
    let mut acc: u32 = 0;
    let mut bits = 0;
    for &b in data {
        acc = (acc << 8) | b as u32;
        bits += 8;
        while bits >= 5 {
            bits -= 5;
            out.push(B32HEX[((acc >> bits) & 31) as usize] as char);
        }
    }
    if bits > 0 {
        out.push(B32HEX[((acc << (5 - bits)) & 31) as usize] as char);
    }
    out
}

fn b32hex_decode(s: &[u8]) -> Option<Vec<u8>> {
    let mut out = Vec::new();
    let mut acc: u32 = 0;
    let mut bits = 0;
    for &c in s {
        let c = c.to_ascii_lowercase();
        let v = B32HEX.iter().position(|x| *x == c)? as u32;
        acc = (acc << 5) | v;
        bits += 5;
        if bits >= 8 {
            bits -= 8;
            out.push(((acc >> bits) & 0xff) as u8);
        }
    }
    // left-over bits must be zero padding
    if bits > 0 && (acc & ((1 << bits) - 1)) != 0 {
        return None;
    }
    Some(out)
}

// ------------------------------------------------- own type bitmaps

/// RFC 4034 §4.1.2 / RFC 5155 §3.2.1 encoding.
fn bitmap_encode(types: &[u16]) -> Vec<u8> {
    let mut ts: Vec<u16> = types.to_vec();
    ts.sort();
    ts.dedup();
    let mut out = Vec::new();
    let mut i = 0;
    while i < ts.len() {
        let win = (ts[i] >> 8) as u8;
        let mut bytes = [0u8; 32];
        let mut maxo = 0usize;
        while i < ts.len() && (ts[i] >> 8) as u8 == win {
            let lo = (ts[i] & 0xff) as usize;
            bytes[lo / 8] |= 0x80 >> (lo % 8);
            maxo = lo / 8;
            i += 1;
        }
        out.push(win);
        out.push((maxo + 1) as u8);
        out.extend_from_slice(&bytes[..=maxo]);
    }
    out
}

/// Decode; None if the octets are not a well-formed minimal bitmap
/// (windows strictly ascending, length 1..=32, last octet non-zero).
fn bitmap_decode(mut d: &[u8]) -> Option<Vec<u16>> {
    let mut out = Vec::new();
    let mut last: i32 = -1;
    while !d.is_empty() {
        if d.len() < 2 {
            return None;
        }
        let (win, len) = (d[0] as i32, d[1] as usize);
        if win <= last || len == 0 || len > 32 || d.len() < 2 + len {
            return None;
        }
        last = win;
        let b = &d[2..2 + len];
        if b[len - 1] == 0 {
            return None;
        }
        for (o, &x) in b.iter().enumerate() {
            for bit in 0..8 {
                if x & (0x80 >> bit) != 0 {
                    out.push(((win as u16) << 8) | (o * 8 + bit) as u16);
                }
            }
        }
        d = &d[2 + len..];
    }
    Some(out)
}

// ------------------------------------------------------------ universe

/// NSEC3 hash parameter menu (salt, iterations).
fn param_menu() -> Vec<(Vec<u8>, u16)> {
    let mut v = Vec::new();
    for salt in [vec![], vec![0xAB]] {
        for it in [0u16, 1, 5] {
            v.push((salt.clone(), it));
        }
    }
    v
}

/// The closed set of names the model reasons about: every universe name,
/// every ancestor up to the apex, extra probe names, and `*.X` for every
/// non-wildcard X.  Ids are assigned in OWN canonical order, so comparing
/// ids compares names canonically.
struct Universe {
    apex: usize,
    apex_labels: Labels,
    names: Vec<Labels>, // lower-case
    parent: Vec<Option<usize>>,
    wild_child: Vec<Option<usize>>,
    by_wire: HashMap<Vec<u8>, usize>,
    params: Vec<(Vec<u8>, u16)>,
    hashes: Vec<Vec<[u8; 20]>>,
    by_hash: Vec<HashMap<[u8; 20], usize>>,
}

impl Universe {
    fn build(apex: &Labels, seeds: &[Labels], params: Vec<(Vec<u8>, u16)>) -> Universe {
        let apex = lower(apex);
        let mut set: BTreeSet<Labels> = BTreeSet::new();
        set.insert(apex.clone());
        for s in seeds {
            let s = lower(s);
            if !at_or_below(&s, &apex) {
                continue;
            }
            let mut cur = s.clone();
            while cur.len() > apex.len() {
                set.insert(cur.clone());
                cur.remove(0);
            }
        }
        let plain: Vec<Labels> = set.iter().filter(|n| n.first().map(|l| l.as_slice()) != Some(b"*")).cloned().collect();
        for p in plain {
            let mut w = vec![b"*".to_vec()];
            w.extend(p);
            set.insert(w);
        }
        let mut names: Vec<Labels> = set.into_iter().collect();
        names.sort_by(canon_cmp);
        let by_wire: HashMap<Vec<u8>, usize> = names.iter().enumerate().map(|(i, n)| (wire(n), i)).collect();
        let apex_id = by_wire[&wire(&apex)];
        let mut parent = vec![None; names.len()];
        let mut wild_child = vec![None; names.len()];
        for (i, n) in names.iter().enumerate() {
            if i != apex_id {
                let p: Labels = n[1..].to_vec();
                parent[i] = Some(by_wire[&wire(&p)]);
            }
            let mut w = vec![b"*".to_vec()];
            w.extend(n.clone());
            wild_child[i] = by_wire.get(&wire(&w)).copied();
        }
        let mut hashes = Vec::new();
        let mut by_hash = Vec::new();
        for (salt, it) in &params {
            let hs: Vec<[u8; 20]> = names.iter().map(|n| own_nsec3_hash(n, salt, *it)).collect();
            let m: HashMap<[u8; 20], usize> = hs.iter().enumerate().map(|(i, h)| (*h, i)).collect();
            assert_eq!(m.len(), hs.len(), "SHA-1 collision inside the universe");
            hashes.push(hs);
            by_hash.push(m);
        }
        Universe { apex: apex_id, apex_labels: apex, names, parent, wild_child, by_wire, params, hashes, by_hash }
    }

    fn id_of(&self, l: &Labels) -> Option<usize> {
        self.by_wire.get(&wire_lc(l)).copied()
    }

    /// Look up an uncompressed wire-format name.  Lower-casing the whole
    /// slice is safe: length octets are <= 63 and so never ASCII letters.
    fn id_of_wire(&self, w: &[u8]) -> Option<usize> {
        if w.len() > 255 || unwire_ok(w).is_none() {
            return None;
        }
        let mut buf = [0u8; 255];
        let b = &mut buf[..w.len()];
        b.copy_from_slice(w);
        b.make_ascii_lowercase();
        self.by_wire.get(&*b).copied()
    }

    fn pidx(&self, salt: &[u8], it: u16) -> usize {
        self.params.iter().position(|(s, i)| s == salt && *i == it).expect("param in menu")
    }

    fn show(&self, id: usize) -> String {
        show_name(&self.names[id])
    }
}

// ---------------------------------------------------------- zone model

#[derive(Clone, Copy, PartialEq, Eq, Debug)]
enum Cls {
    /// strictly below a delegation point: glue or occluded
    BelowCut,
    /// delegation point (NS, not the apex)
    Cut,
    /// authoritative name with RRsets
    Owner,
    /// no RRsets but an authoritative descendant
    Ent,
    /// does not exist
    Nx,
}

struct Zone {
    /// (TTL, MINIMUM) of the apex SOA
    soa: (u32, u32),
    /// every record as given to the library: owner (original case), type, rdata variant
    recs: Vec<(Labels, u16, u8)>,
    types: Vec<Vec<u16>>,
    cls: Vec<Cls>,
}

impl Zone {
    #[allow(dead_code)]
    fn build(u: &Universe, recs: Vec<(Labels, u16, u8)>) -> Zone {
        let eff: Vec<(Labels, u16)> = recs.iter().map(|(o, t, _)| (o.clone(), *t)).collect();
        Zone::build_eff(u, recs, &eff)
    }

    /// `recs` = what the caller put into SortedRecords (kept for replay);
    /// `eff` = the (owner, type) pairs SortedRecords actually holds and
    /// hands to the generators.
    fn build_eff(u: &Universe, recs: Vec<(Labels, u16, u8)>, eff: &[(Labels, u16)]) -> Zone {
        let n = u.names.len();
        let mut types: Vec<Vec<u16>> = vec![Vec::new(); n];
        for (owner, t) in eff {
            if !at_or_below(owner, &u.apex_labels) {
                continue; // outside the zone
            }
            let id = u.id_of(owner).expect("zone name inside the closure");
            types[id].push(*t);
        }
        for t in types.iter_mut() {
            t.sort();
            t.dedup();
        }
        // RFC 4035 §2.3 / RFC 4033 §2: a delegation point is a non-apex name
        // owning an NS RRset; everything strictly below it is not
        // authoritative (glue / occluded).
        let is_cutname = |id: usize| id != u.apex && types[id].contains(&T_NS);
        let mut below = vec![false; n];
        for id in 0..n {
            let mut p = u.parent[id];
            while let Some(q) = p {
                if is_cutname(q) {
                    below[id] = true;
                }
                p = u.parent[q];
            }
        }
        let mut has_auth_desc = vec![false; n];
        for id in 0..n {
            if !types[id].is_empty() && !below[id] {
                let mut p = u.parent[id];
                while let Some(q) = p {
                    has_auth_desc[q] = true;
                    p = u.parent[q];
                }
            }
        }
        let cls = (0..n)
            .map(|id| {
                if below[id] {
                    Cls::BelowCut
                } else if !types[id].is_empty() {
                    if is_cutname(id) {
                        Cls::Cut
                    } else {
                        Cls::Owner
                    }
                } else if has_auth_desc[id] {
                    Cls::Ent
                } else {
                    Cls::Nx
                }
            })
            .collect();
        let soa = recs.iter().find(|(o, t, _)| *t == T_SOA && wire_lc(o) == wire(&u.apex_labels)).map(|(_, _, v)| soa_params(*v)).unwrap_or(soa_params(1));
        Zone { soa, recs, types, cls }
    }

    fn has(&self, id: usize, t: u16) -> bool {
        self.types[id].contains(&t)
    }

    /// The delegation point that makes `id` non-authoritative: the TOP-MOST
    /// ancestor owning NS (the only one classified `Cut`; an NS owner below it
    /// is itself `BelowCut` and decides nothing).
    fn top_cut(&self, u: &Universe, id: usize) -> Option<usize> {
        let mut t = None;
        let mut p = u.parent[id];
        while let Some(q) = p {
            if self.cls[q] == Cls::Cut {
                t = Some(q);
            }
            p = u.parent[q];
        }
        t
    }

    /// Data-owning names strictly below the delegation point `cut`, in
    /// canonical order.
    fn data_below(&self, u: &Universe, cut: usize) -> Vec<usize> {
        (0..u.names.len()).filter(|&i| self.cls[i] == Cls::BelowCut && !self.types[i].is_empty() && self.top_cut(u, i) == Some(cut)).collect()
    }

    /// Violation-class fragment for a chain record owned by the non-authoritative
    /// name `id`: says whether the delegation above it has an occluded NS owner
    /// (nested delegation) among the names below it.
    fn below_cut_kind(&self, u: &Universe, id: usize) -> &'static str {
        let nested = self.top_cut(u, id).map(|t| self.data_below(u, t).iter().any(|&i| self.has(i, T_NS))).unwrap_or(false);
        if self.has(id, T_NS) {
            "extra-below-cut(occluded-NS-owner-below-the-top-most-cut)"
        } else if nested {
            "extra-below-cut(beside-an-occluded-NS-owner-below-the-top-most-cut)"
        } else {
            "extra-below-cut(glue-or-occluded)"
        }
    }

    fn recs_json(&self) -> Value {
        json!(self.recs.iter().map(|(o, t, v)| json!([show_name(o), t, v])).collect::<Vec<_>>())
    }

    fn text(&self) -> String {
        self.recs.iter().map(|(o, t, _)| format!("{} {}", show_name(o), tname(*t))).collect::<Vec<_>>().join("; ")
    }

    /// Expected NSEC bitmap types at an authoritative owner / delegation.
    fn nsec_types(&self, u: &Universe, id: usize, dnskey: bool) -> Vec<u16> {
        let mut t: Vec<u16> = match self.cls[id] {
            Cls::Cut => self.types[id].iter().copied().filter(|t| *t == T_NS || *t == T_DS).collect(),
            _ => self.types[id].clone(),
        };
        t.push(T_RRSIG);
        t.push(T_NSEC);
        if id == u.apex && dnskey {
            t.push(T_DNSKEY);
        }
        t.sort();
        t.dedup();
        t
    }

    /// Types the generator lists regardless of the RRsets at the name.
    fn nsec_mandated(&self, u: &Universe, id: usize, dnskey: bool) -> Vec<u16> {
        let mut m = vec![T_RRSIG, T_NSEC];
        if id == u.apex && dnskey {
            m.push(T_DNSKEY);
        }
        m
    }

    fn nsec3_mandated(&self, u: &Universe, id: usize, dnskey: bool) -> Vec<u16> {
        let mut m = match self.cls[id] {
            Cls::Ent => return Vec::new(),
            Cls::Cut => {
                if self.has(id, T_DS) {
                    vec![T_RRSIG]
                } else {
                    vec![]
                }
            }
            _ => vec![T_RRSIG],
        };
        if id == u.apex {
            m.push(T_NSEC3PARAM);
            if dnskey {
                m.push(T_DNSKEY);
            }
        }
        m
    }

    /// Expected NSEC3 bitmap types (RFC 5155 §7.1).
    fn nsec3_types(&self, u: &Universe, id: usize, dnskey: bool) -> Vec<u16> {
        let mut t: Vec<u16> = match self.cls[id] {
            Cls::Ent => return Vec::new(),
            Cls::Cut => {
                if self.has(id, T_DS) {
                    vec![T_NS, T_DS, T_RRSIG]
                } else {
                    vec![T_NS]
                }
            }
            _ => {
                let mut t = self.types[id].clone();
                t.push(T_RRSIG);
                t
            }
        };
        if id == u.apex {
            t.push(T_NSEC3PARAM);
            if dnskey {
                t.push(T_DNSKEY);
            }
        }
        t.sort();
        t.dedup();
        t
    }
}

// ------------------------------------------------------ library records

fn gname<O: From<Vec<u8>> + AsRef<[u8]>>(l: &Labels) -> Name<O> {
    Name::from_octets(O::from(wire(l))).expect("valid name")
}

fn lname(l: &Labels) -> LName {
    gname(l)
}

/// SOA TTL and MINIMUM by rdata variant: variant 2 has TTL < MINIMUM, every
/// other variant TTL > MINIMUM (RFC 9077: NSEC(3) TTL = the lesser).
fn soa_params(v: u8) -> (u32, u32) {
    if v == 2 {
        (300, 1800)
    } else {
        (3600, 1800)
    }
}

const REC_TTL: u32 = 3600;

/// One record, generic over the octets type (Bytes and Vec<u8> are used).
fn mk_rec_g<O: From<Vec<u8>> + AsRef<[u8]>>(owner: &Labels, t: u16, v: u8) -> Record<Name<O>, ZoneRecordData<O, Name<O>>> {
    let nm = |a: String| -> Name<O> { gname(&vec![a.into_bytes(), b"invalid".to_vec()]) };
    let mut ttl = REC_TTL;
    let data: ZoneRecordData<O, Name<O>> = match t {
        T_A => ZoneRecordData::A(A::from_octets(192, 0, 2, v)),
        T_AAAA => ZoneRecordData::Aaaa(Aaaa::new(std::net::Ipv6Addr::new(0x2001, 0xdb8, 0, 0, 0, 0, 0, v as u16))),
        T_NS => ZoneRecordData::Ns(Ns::new(nm(format!("ns{v}")))),
        T_CNAME => ZoneRecordData::Cname(Cname::new(nm(format!("t{v}")))),
        T_SOA => {
            let (t, min) = soa_params(v);
            ttl = t;
            ZoneRecordData::Soa(Soa::new(nm("m".into()), nm("r".into()), Serial::from(v as u32), Ttl::from_secs(7200), Ttl::from_secs(900), Ttl::from_secs(86400), Ttl::from_secs(min)))
        }
        T_TXT => ZoneRecordData::Txt(Txt::from_octets(O::from(vec![3, b't', b'0' + v / 10, b'0' + v % 10])).expect("txt")),
        T_DS => ZoneRecordData::Ds(Ds::new(v as u16, SecurityAlgorithm::RSASHA256, DigestAlgorithm::SHA256, O::from(vec![v; 32])).expect("ds")),
        // TYPE65280 and TYPE65281 deliberately carry identical RDATA octets
        // (two different RRsets); CAA differs.
        T_PRIV | T_PRIV2 => ZoneRecordData::Unknown(UnknownRecordData::from_octets(Rtype::from_int(t), O::from(vec![v, 0xff])).expect("unknown")),
        t => ZoneRecordData::Unknown(UnknownRecordData::from_octets(Rtype::from_int(t), O::from(vec![v])).expect("unknown")),
    };
    Record::new(gname(owner), Class::IN, Ttl::from_secs(ttl), data)
}

fn mk_rec(owner: &Labels, t: u16, v: u8) -> LRec {
    mk_rec_g::<Bytes>(owner, t, v)
}

// ------------------------------------------------------------- configs

/// How the `Nsec3param` inside the generator configuration comes into being.
/// The REQUESTED values are the fields of `N3Cfg`; every expectation of the
/// oracle is computed from them, never from a getter of the library object.
#[derive(Clone, Copy, PartialEq, Eq, Debug)]
enum PRoute {
    /// `Nsec3param::new(SHA1, reserved bits, ..)` + `GenerateNsec3Config::with_opt_out()`
    Setter,
    /// Opt-Out requested through the flags argument of `Nsec3param::new`
    NewFlags,
    /// `Nsec3param::new(.., reserved bits, ..)` + `Nsec3param::set_opt_out_flag()`
    SetFlag,
    /// RFC 5155 §4.2 wire octets -> `Nsec3param::parse` -> octets conversion
    Wire,
    /// RFC 5155 §4.3 presentation text in a zone file -> zonefile scanner
    Text,
    /// `Nsec3param<&[u8]>::new` -> `OctetsFrom` conversion
    Convert,
    /// `GenerateNsec3Config::default()` with every public field assigned
    Field,
    /// `GenerateNsec3Config::default()` (+ `with_opt_out()`): only for the
    /// RFC 9276 parameters without reserved bits
    DefaultObj,
}

const PROUTES: [PRoute; 8] = [PRoute::Setter, PRoute::NewFlags, PRoute::SetFlag, PRoute::Wire, PRoute::Text, PRoute::Convert, PRoute::Field, PRoute::DefaultObj];

impl PRoute {
    fn name(self) -> &'static str {
        match self {
            PRoute::Setter => "new(flags=reserved)+with_opt_out",
            PRoute::NewFlags => "new(flags=reserved|opt-out)",
            PRoute::SetFlag => "new(flags=reserved)+set_opt_out_flag",
            PRoute::Wire => "parse(wire)",
            PRoute::Text => "zonefile-scan(text)",
            PRoute::Convert => "new<&[u8]>+octets-conversion",
            PRoute::Field => "default-config+public-fields",
            PRoute::DefaultObj => "default-config(+with_opt_out)",
        }
    }
    fn parse(s: &str) -> PRoute {
        PROUTES.iter().copied().find(|r| r.name() == s).unwrap_or(PRoute::Setter)
    }
}

/// RFC 5155 §4.2 NSEC3PARAM RDATA (same layout as the head of §3.2).
fn param_wire(alg: u8, flags: u8, iters: u16, salt: &[u8]) -> Vec<u8> {
    let mut w = vec![alg, flags];
    w.extend_from_slice(&iters.to_be_bytes());
    w.push(salt.len() as u8);
    w.extend_from_slice(salt);
    w
}

/// RFC 5155 §4.3 presentation format: decimal algorithm, flags, iterations;
/// salt in hex or "-".
fn param_text(alg: u8, flags: u8, iters: u16, salt: &[u8]) -> String {
    format!("{alg} {flags} {iters} {}", if salt.is_empty() { "-".to_string() } else { hex(salt) })
}

fn param_from_wire(w: &[u8]) -> Result<Nsec3param<Vec<u8>>, String> {
    let mut p = Parser::from_ref(w);
    let r = Nsec3param::<&[u8]>::parse(&mut p).map_err(|_| "Nsec3param::parse refused RFC 5155 wire octets".to_string())?;
    if p.remaining() != 0 {
        return Err("Nsec3param::parse left octets unread".into());
    }
    r.try_octets_into().map_err(|_| "octets conversion failed".to_string())
}

fn param_from_text(rdata: &str) -> Result<Nsec3param<Vec<u8>>, String> {
    let zone = format!("z. 3600 IN NSEC3PARAM {rdata}\n");
    let mut zf = Zonefile::from(zone.as_bytes());
    match zf.next_entry() {
        Ok(Some(Entry::Record(r))) => match r.into_data() {
            ZoneRecordData::Nsec3param(p) => p.try_octets_into().map_err(|_| "octets conversion failed".to_string()),
            _ => Err("zonefile scanner did not produce NSEC3PARAM record data".into()),
        },
        _ => Err("zonefile scanner refused RFC 5155 presentation text".into()),
    }
}

#[derive(Clone, Debug)]
struct N3Cfg {
    salt: Vec<u8>,
    iters: u16,
    opt_out: bool,
    /// `opt_out_exclude_owner_names_of_unsigned_delegations`
    exclude: bool,
    dnskey: bool,
    /// 0 = Soa, 1 = Fixed(7), 2 = SoaMinimum
    ttl_mode: u8,
    /// how the parameters object is constructed
    proute: PRoute,
    /// reserved bits (mask 0xFE) requested in the flags octet
    xflags: u8,
}

impl N3Cfg {
    fn json(&self) -> Value {
        json!({"salt": hex(&self.salt), "iterations": self.iters, "opt_out": self.opt_out, "exclude": self.exclude, "dnskey": self.dnskey, "ttl_mode": self.ttl_mode, "params_route": self.proute.name(), "reserved_flags": self.xflags})
    }
    fn lib(&self) -> GenerateNsec3Config<Bytes, DefaultSorter> {
        self.lib_g::<Bytes>()
    }

    /// Is this the configuration `GenerateNsec3Config::default()` documents?
    fn is_default(&self) -> bool {
        self.salt.is_empty() && self.iters == 0 && !self.opt_out && self.exclude && self.dnskey && self.ttl_mode == 0 && self.proute == PRoute::Setter && self.xflags == 0
    }

    /// The flags octet the caller asks for.
    fn want_flags(&self) -> u8 {
        (self.xflags & 0xFE) | self.opt_out as u8
    }

    fn lib_g<O>(&self) -> GenerateNsec3Config<O, DefaultSorter>
    where
        O: AsRef<[u8]> + From<&'static [u8]> + From<Vec<u8>> + Clone + FromBuilder + OctetsFrom<Vec<u8>>,
        <O as FromBuilder>::Builder: EmptyBuilder + AsRef<[u8]> + AsMut<[u8]>,
    {
        self.try_lib_g::<O>().expect("parameter construction")
    }

    fn try_lib_g<O>(&self) -> Result<GenerateNsec3Config<O, DefaultSorter>, String>
    where
        O: AsRef<[u8]> + From<&'static [u8]> + From<Vec<u8>> + Clone + FromBuilder + OctetsFrom<Vec<u8>>,
        <O as FromBuilder>::Builder: EmptyBuilder + AsRef<[u8]> + AsMut<[u8]>,
    {
        let salt = || Nsec3Salt::<O>::from_octets(O::from(self.salt.clone())).expect("salt");
        let conv = |p: Nsec3param<Vec<u8>>| -> Result<Nsec3param<O>, String> { p.try_octets_into().map_err(|_| "octets conversion failed".to_string()) };
        let reserved = self.xflags & 0xFE;
        let ttl = || match self.ttl_mode {
            0 => Nsec3ParamTtlMode::soa(),
            1 => Nsec3ParamTtlMode::fixed(Ttl::from_secs(7)),
            _ => Nsec3ParamTtlMode::soa_minimum(),
        };
        let mut with_opt_out = false;
        let params: Nsec3param<O> = match self.proute {
            PRoute::Setter => {
                with_opt_out = self.opt_out;
                Nsec3param::new(Nsec3HashAlgorithm::SHA1, reserved, self.iters, salt())
            }
            PRoute::NewFlags => Nsec3param::new(Nsec3HashAlgorithm::SHA1, self.want_flags(), self.iters, salt()),
            PRoute::SetFlag => {
                let mut p = Nsec3param::new(Nsec3HashAlgorithm::SHA1, reserved, self.iters, salt());
                if self.opt_out {
                    p.set_opt_out_flag();
                }
                p
            }
            PRoute::Wire => conv(param_from_wire(&param_wire(1, self.want_flags(), self.iters, &self.salt))?)?,
            PRoute::Text => conv(param_from_text(&param_text(1, self.want_flags(), self.iters, &self.salt))?)?,
            PRoute::Convert => {
                let s = Nsec3Salt::<&[u8]>::from_octets(self.salt.as_slice()).expect("salt");
                let p: Nsec3param<Vec<u8>> = Nsec3param::<&[u8]>::new(Nsec3HashAlgorithm::SHA1, self.want_flags(), self.iters, s).try_octets_into().map_err(|_| "octets conversion failed".to_string())?;
                conv(p.clone())?
            }
            PRoute::Field => {
                let mut c = GenerateNsec3Config::<O, DefaultSorter>::default();
                c.params = Nsec3param::new(Nsec3HashAlgorithm::SHA1, self.want_flags(), self.iters, salt());
                c.opt_out_exclude_owner_names_of_unsigned_delegations = self.exclude;
                c.assume_dnskeys_will_be_added = self.dnskey;
                c.nsec3param_ttl_mode = ttl();
                return Ok(c);
            }
            PRoute::DefaultObj => {
                if !(self.salt.is_empty() && self.iters == 0 && reserved == 0) {
                    return Err("harness: the default route only exists for the RFC 9276 parameters".into());
                }
                let mut c = GenerateNsec3Config::<O, DefaultSorter>::default();
                if self.opt_out {
                    c = c.with_opt_out();
                }
                if !self.exclude {
                    c = c.without_opt_out_excluding_owner_names_of_unsigned_delegations();
                }
                if !self.dnskey {
                    c = c.without_assuming_dnskeys_will_be_added();
                }
                return Ok(c.with_ttl_mode(ttl()));
            }
        };
        let mut cfg = GenerateNsec3Config::<O, DefaultSorter>::new(params);
        if with_opt_out {
            cfg = cfg.with_opt_out();
        }
        if !self.exclude {
            cfg = cfg.without_opt_out_excluding_owner_names_of_unsigned_delegations();
        }
        if !self.dnskey {
            cfg = cfg.without_assuming_dnskeys_will_be_added();
        }
        Ok(cfg.with_ttl_mode(ttl()))
    }
}

fn nsec3_configs(quick: bool) -> Vec<N3Cfg> {
    let mut v = Vec::new();
    let opt = [(false, true), (true, true), (true, false)];
    for (salt, it) in param_menu() {
        if quick && !matches!((salt.len(), it), (0, 0) | (1, 1) | (1, 5)) {
            // quick: (no salt, 0), (AB, 1), (AB, 5)
            continue;
        }
        for (opt_out, exclude) in opt {
            for dnskey in [true, false] {
                if !dnskey && !(salt.is_empty() && it == 0) && (quick || !(salt.len() == 1 && it == 5)) {
                    // DNSKEY-off (it only changes one apex bit): quick with
                    // the RFC 9276 parameters only, thorough also with (AB, 5)
                    continue;
                }
                v.push(N3Cfg { salt: salt.clone(), iters: it, opt_out, exclude, dnskey, ttl_mode: 0, proute: PRoute::Setter, xflags: 0 });
            }
        }
    }
    // NSEC3PARAM TTL mode: the two non-default modes with the RFC 9276
    // parameters (the mode cannot influence the chain).
    for (opt_out, exclude) in opt {
        if quick && opt_out {
            continue;
        }
        for ttl_mode in [1u8, 2] {
            v.push(N3Cfg { salt: vec![], iters: 0, opt_out, exclude, dnskey: true, ttl_mode, proute: PRoute::Setter, xflags: 0 });
        }
    }
    v
}

// ------------------------------------------------------------ counters

#[derive(Default)]
struct Local {
    /// counters keyed by the address of the key literal (cheap); merged by
    /// string value at the end of a chunk
    c: Vec<(&'static str, u64)>,
    nsec_len: [u64; 32],
    nsec3_len: [u64; 32],
    distinct: Vec<u64>,
    shapes: Vec<u64>,
    evals: u64,
    probes: u64,
}

impl Local {
    #[inline]
    fn inc(&mut self, k: &'static str) {
        self.add(k, 1)
    }
    #[inline]
    fn add(&mut self, k: &'static str, n: u64) {
        for e in self.c.iter_mut() {
            if std::ptr::eq(e.0.as_ptr(), k.as_ptr()) && e.0.len() == k.len() {
                e.1 += n;
                return;
            }
        }
        self.c.push((k, n));
    }
    fn map(&self) -> BTreeMap<&'static str, u64> {
        let mut m = BTreeMap::new();
        for (k, v) in &self.c {
            *m.entry(*k).or_insert(0) += *v;
        }
        m
    }
}

struct Run<'a> {
    ctx: &'a Ctx,
    u: &'a Universe,
    apex: LName,
    verbose: bool,
}

struct N3Run {
    cfg: N3Cfg,
    lib: GenerateNsec3Config<Bytes, DefaultSorter>,
    lib_v: GenerateNsec3Config<Vec<u8>, DefaultSorter>,
    pidx: usize,
}

impl N3Run {
    fn new(u: &Universe, cfg: N3Cfg) -> N3Run {
        N3Run { lib: cfg.lib(), lib_v: cfg.lib_g::<Vec<u8>>(), pidx: u.pidx(&cfg.salt, cfg.iters), cfg }
    }

    /// Builds the library configuration through `cfg.proute` and checks that
    /// the getters of the resulting parameters object return the REQUESTED
    /// values.  A route that fails is reported and replaced by the setter
    /// route so that the zones still run.
    fn checked(ctx: &Ctx, u: &Universe, cfg: N3Cfg, loc: &mut Local) -> N3Run {
        let replay = json!({"mode": "static", "params": cfg.json()});
        let built = guard(|| (cfg.try_lib_g::<Bytes>(), cfg.try_lib_g::<Vec<u8>>()));
        loc.evals += 1;
        loc.inc("params_route_objects_built");
        match built {
            Ok((Ok(lib), Ok(lib_v))) => {
                for (octs, got) in [("Bytes", params_facts(&lib.params)), ("Vec<u8>", params_facts(&lib_v.params))] {
                    for which in params_facts_diff(&got, 1, cfg.want_flags(), cfg.iters, &cfg.salt) {
                        ctx.violation(
                            &format!("C13|nsec3|params-object|{}|{which}", cfg.proute.name()),
                            &format!("parameters requested: alg 1 flags {} iterations {} salt {}; built through {} over {octs}; {which}: the object says alg {} flags {} opt_out_flag {} iterations {} salt {}", cfg.want_flags(), cfg.iters, hex(&cfg.salt), cfg.proute.name(), got.alg, got.flags, got.opt_out, got.iters, hex(&got.salt)),
                            replay.clone(),
                        );
                    }
                }
                let cfg_ok = lib.assume_dnskeys_will_be_added == cfg.dnskey && lib.opt_out_exclude_owner_names_of_unsigned_delegations == cfg.exclude && lib_v.assume_dnskeys_will_be_added == cfg.dnskey && lib_v.opt_out_exclude_owner_names_of_unsigned_delegations == cfg.exclude;
                if !cfg_ok {
                    ctx.violation(&format!("C13|nsec3|config-object|{}|public-field-differs-from-request", cfg.proute.name()), &format!("GenerateNsec3Config built for {:?}: assume_dnskeys_will_be_added / opt_out_exclude_owner_names_of_unsigned_delegations differ from the request", cfg), replay.clone());
                }
                N3Run { lib, lib_v, pidx: u.pidx(&cfg.salt, cfg.iters), cfg }
            }
            other => {
                let why = match other {
                    Err(p) => format!("panicked: {p}"),
                    Ok((a, b)) => a.err().or(b.err()).unwrap_or_default(),
                };
                ctx.violation(&format!("C13|nsec3|params-route|{}|construction-failed", cfg.proute.name()), &format!("building the NSEC3 parameters (flags {} iterations {} salt {}) through {} failed: {why}", cfg.want_flags(), cfg.iters, hex(&cfg.salt), cfg.proute.name()), replay);
                N3Run::new(u, N3Cfg { proute: PRoute::Setter, ..cfg })
            }
        }
    }
}

/// What the getters of a parameters object say.
struct ParamsFacts {
    alg: u8,
    flags: u8,
    opt_out: bool,
    iters: u16,
    salt: Vec<u8>,
    wire: Option<Vec<u8>>,
}

fn params_facts<O: AsRef<[u8]>>(p: &Nsec3param<O>) -> ParamsFacts {
    let mut w = Vec::new();
    let wire = match guard(|| p.compose_rdata(&mut w)) {
        Ok(Ok(())) => Some(w),
        _ => None,
    };
    ParamsFacts { alg: p.hash_algorithm().to_int(), flags: p.flags(), opt_out: p.opt_out_flag(), iters: p.iterations(), salt: p.salt().as_slice().to_vec(), wire }
}

/// Getters / RDATA against the values that were put in.
fn params_facts_diff(got: &ParamsFacts, alg: u8, flags: u8, iters: u16, salt: &[u8]) -> Vec<&'static str> {
    let mut bad = Vec::new();
    if got.alg != alg {
        bad.push("hash_algorithm()-differs-from-input");
    }
    if got.flags & 1 != flags & 1 {
        bad.push(if flags & 1 == 1 { "flags()-lost-the-opt-out-bit" } else { "flags()-gained-the-opt-out-bit" });
    }
    if got.flags & 0xFE != flags & 0xFE {
        bad.push("flags()-reserved-bits-differ-from-input");
    }
    if got.opt_out != (flags & 1 == 1) {
        bad.push(if flags & 1 == 1 { "opt_out_flag()-false-though-requested" } else { "opt_out_flag()-true-though-not-requested" });
    }
    if got.iters != iters {
        bad.push("iterations()-differs-from-input");
    }
    if got.salt != salt {
        bad.push("salt()-differs-from-input");
    }
    if got.wire.as_deref() != Some(param_wire(alg, flags, iters, salt).as_slice()) {
        bad.push("compose_rdata-differs-from-rfc5155-wire-format-of-input");
    }
    bad
}

// ------------------------------------------------ routes and raw records

/// How the zone reaches the generator.
#[derive(Clone, Copy, PartialEq, Eq, Debug)]
enum Route {
    /// `SortedRecords<Name<Bytes>, ..>::owner_rrs()` (slice of owned records)
    Owned,
    /// `RecordsIter::new_from_refs` over a `Vec<&Record>` (the `Refs` arm of
    /// every iterator in records.rs)
    Refs,
    /// `RecordsIter::new(SliceRefsOrOwned::new_from_owned(&sorted[..]))`
    Wrapped,
    /// the same zone built with `Vec<u8>` octets (`Name<Vec<u8>>`,
    /// `ZoneRecordData<Vec<u8>, _>`, `GenerateNsec3Config<Vec<u8>, _>`)
    VecOcts,
}

impl Route {
    fn name(self) -> &'static str {
        match self {
            Route::Owned => "owned",
            Route::Refs => "refs",
            Route::Wrapped => "wrapped",
            Route::VecOcts => "vec-octets",
        }
    }
    fn parse(s: &str) -> Route {
        match s {
            "refs" => Route::Refs,
            "wrapped" => Route::Wrapped,
            "vec-octets" => Route::VecOcts,
            _ => Route::Owned,
        }
    }
}

/// The zone as the library holds it.
struct Src<'a> {
    sorted: &'a Sorted,
    sorted_v: Option<&'a SortedV>,
}

/// A generated NSEC record reduced to wire-level facts, plus the labels of
/// every library accessor that disagreed with OWN decoding of those facts.
struct RawNsec {
    owner: Vec<u8>,
    next: Vec<u8>,
    bitmap: Vec<u8>,
    class_in: bool,
    ttl: u32,
    api: Vec<&'static str>,
    text: String,
}

struct RawNsec3 {
    owner: Vec<u8>,
    next: Vec<u8>,
    bitmap: Vec<u8>,
    alg: u8,
    flags: u8,
    iters: u16,
    salt: Vec<u8>,
    class_in: bool,
    ttl: u32,
    api: Vec<&'static str>,
    text: String,
}

struct RawParam {
    owner: Vec<u8>,
    alg: u8,
    flags: u8,
    iters: u16,
    salt: Vec<u8>,
    class_in: bool,
    ttl: u32,
    text: String,
}

/// Consumers read the generated bitmap through `RtypeBitmap::iter` /
/// `contains`: both must agree with OWN decoding of the octets.
fn bitmap_api<O: AsRef<[u8]>>(b: &RtypeBitmap<O>, deep: bool, api: &mut Vec<&'static str>) {
    let raw = b.as_slice().to_vec();
    let Some(own) = bitmap_decode(&raw) else { return };
    match guard(|| b.iter().map(|t| t.to_int()).collect::<Vec<u16>>()) {
        Ok(v) if v == own => {}
        _ => api.push("RtypeBitmap::iter"),
    }
    match guard(|| (&*b).into_iter().count()) {
        Ok(n) if n == own.len() => {}
        _ => api.push("RtypeBitmap::into_iter"),
    }
    let mut qs: Vec<u16> = PROBE_TYPES.to_vec();
    for t in &own {
        qs.extend([*t, t.wrapping_sub(1), t.wrapping_add(1), t ^ 0x0100, t ^ 0x8000]);
    }
    match guard(|| qs.iter().all(|t| b.contains(Rtype::from_int(*t)) == own.contains(t))) {
        Ok(true) => {}
        _ => api.push("RtypeBitmap::contains"),
    }
    if guard(|| b.is_empty()).ok() != Some(own.is_empty()) {
        api.push("RtypeBitmap::is_empty");
    }
    if deep {
        match guard(|| RtypeBitmap::from_octets(raw.clone())) {
            Ok(Ok(x)) if x == *b && x.canonical_cmp_eq(b) => {}
            _ => api.push("RtypeBitmap::from_octets"),
        }
        let mut out = Vec::new();
        if guard(|| b.compose(&mut out)).is_err() || out != raw || guard(|| b.compose_len()).ok() != Some(raw.len() as u16) {
            api.push("RtypeBitmap::compose");
        }
    }
}

trait CanonEq<T> {
    fn canonical_cmp_eq(&self, other: &T) -> bool;
}
impl<A: AsRef<[u8]>, B: AsRef<[u8]>> CanonEq<RtypeBitmap<B>> for RtypeBitmap<A> {
    fn canonical_cmp_eq(&self, other: &RtypeBitmap<B>) -> bool {
        use domain::base::cmp::CanonicalOrd;
        self.canonical_cmp(other) == Ordering::Equal
    }
}

fn raw_nsec<O: AsRef<[u8]>>(r: &Record<Name<O>, Nsec<O, Name<O>>>, deep: bool, verbose: bool) -> RawNsec {
    let d = r.data();
    let mut api = Vec::new();
    let owner = r.owner().as_slice().to_vec();
    let next = d.next_name().as_slice().to_vec();
    let bitmap = d.types().as_slice().to_vec();
    bitmap_api(d.types(), deep, &mut api);
    if d.rtype().to_int() != T_NSEC {
        api.push("Nsec::rtype");
    }
    if deep {
        // wire form of the RDATA: next name uncompressed as stored + bitmap
        let mut want = next.clone();
        want.extend_from_slice(&bitmap);
        let mut out = Vec::new();
        if guard(|| d.compose_rdata(&mut out)).is_err() || out != want {
            api.push("Nsec::compose_rdata");
        } else {
            if d.rdlen(false) != Some(want.len() as u16) {
                api.push("Nsec::rdlen");
            }
            match guard(|| Nsec::<&[u8], ParsedName<&[u8]>>::parse(&mut Parser::from_ref(out.as_slice()))) {
                Ok(Ok(back)) if back == *d => {}
                _ => api.push("Nsec::parse"),
            }
        }
    }
    let text = if verbose { guard(|| format!("{} NSEC {} [{}]", r.owner(), d.next_name(), d.types())).unwrap_or_else(|p| format!("<Display panicked: {p}>")) } else { String::new() };
    RawNsec { owner, next, bitmap, class_in: r.class() == Class::IN, ttl: r.ttl().as_secs(), api, text }
}

fn raw_nsec3<O: AsRef<[u8]>>(r: &Record<Name<O>, Nsec3<O>>, deep: bool, verbose: bool) -> RawNsec3 {
    let d = r.data();
    let mut api = Vec::new();
    let owner = r.owner().as_slice().to_vec();
    let next = d.next_owner().as_slice().to_vec();
    let bitmap = d.types().as_slice().to_vec();
    let salt = d.salt().as_slice().to_vec();
    bitmap_api(d.types(), deep, &mut api);
    if d.rtype().to_int() != 50 {
        api.push("Nsec3::rtype");
    }
    if d.opt_out() != (d.flags() & 1 == 1) {
        api.push("Nsec3::opt_out");
    }
    if deep {
        // RFC 5155 §3.2 wire format
        let mut want = vec![d.hash_algorithm().to_int(), d.flags()];
        want.extend_from_slice(&d.iterations().to_be_bytes());
        want.push(salt.len() as u8);
        want.extend_from_slice(&salt);
        want.push(next.len() as u8);
        want.extend_from_slice(&next);
        want.extend_from_slice(&bitmap);
        let mut out = Vec::new();
        if guard(|| d.compose_rdata(&mut out)).is_err() || out != want {
            api.push("Nsec3::compose_rdata");
        } else {
            if d.rdlen(false) != Some(want.len() as u16) {
                api.push("Nsec3::rdlen");
            }
            match guard(|| Nsec3::<&[u8]>::parse(&mut Parser::from_ref(out.as_slice()))) {
                Ok(Ok(back)) if back == *d => {}
                _ => api.push("Nsec3::parse"),
            }
        }
        // presentation form of the next hashed owner: base32hex without padding
        let own = b32hex_encode(&next);
        match guard(|| format!("{}", d.next_owner())) {
            Ok(s) if s.eq_ignore_ascii_case(&own) => match guard(|| s.parse::<OwnerHash<Vec<u8>>>()) {
                Ok(Ok(h)) if h.as_slice() == next.as_slice() => {}
                _ => api.push("OwnerHash::from_str"),
            },
            _ => api.push("OwnerHash::display"),
        }
    }
    let text = if verbose { guard(|| format!("{} NSEC3 {}", r.owner(), d)).unwrap_or_else(|p| format!("<Display panicked: {p}>")) } else { String::new() };
    RawNsec3 { owner, next, bitmap, alg: d.hash_algorithm().to_int(), flags: d.flags(), iters: d.iterations(), salt, class_in: r.class() == Class::IN, ttl: r.ttl().as_secs(), api, text }
}

fn raw_param<O: AsRef<[u8]>>(r: &Record<Name<O>, Nsec3param<O>>, verbose: bool) -> RawParam {
    let d = r.data();
    let text = if verbose { guard(|| format!("{} {} NSEC3PARAM {}", r.owner(), r.ttl().as_secs(), d)).unwrap_or_default() } else { String::new() };
    RawParam {
        owner: r.owner().as_slice().to_vec(),
        alg: d.hash_algorithm().to_int(),
        flags: d.flags(),
        iters: d.iterations(),
        salt: d.salt().as_slice().to_vec(),
        class_in: r.class() == Class::IN,
        ttl: r.ttl().as_secs(),
        text,
    }
}

fn show_wire(w: &[u8]) -> String {
    unwire(w).map(|l| show_name(&l)).unwrap_or_else(|| format!("<bad name {}>", hex(w)))
}

// --------------------------------------------------------- NSEC check

struct GotNsec {
    owner: usize,
    next: usize,
    types: Vec<u16>,
}

fn check_nsec(run: &Run, z: &Zone, src: &Src, route: Route, dnskey: bool, deep: bool, loc: &mut Local) {
    let (ctx, u) = (run.ctx, run.u);
    let replay = || json!({"mode": "nsec", "route": route.name(), "dnskey": dnskey, "records": z.recs_json()});
    // both spellings of the configuration
    let cfg = if dnskey { GenerateNsecConfig::default() } else { GenerateNsecConfig::new().without_assuming_dnskeys_will_be_added() };
    loc.evals += 1;
    let verbose = run.verbose;
    let res: Result<Result<Vec<RawNsec>, SigningError>, String> = guard(|| match route {
        Route::Owned => generate_nsecs(&run.apex, src.sorted.owner_rrs(), &cfg).map(|v| v.iter().map(|r| raw_nsec(r, deep, verbose)).collect()),
        Route::Refs => {
            let refs: Vec<&LRec> = src.sorted.iter().collect();
            generate_nsecs(&run.apex, RecordsIter::new_from_refs(&refs), &cfg).map(|v| v.iter().map(|r| raw_nsec(r, deep, verbose)).collect())
        }
        Route::Wrapped => generate_nsecs(&run.apex, RecordsIter::new(SliceRefsOrOwned::new_from_owned(&src.sorted[..])), &cfg).map(|v| v.iter().map(|r| raw_nsec(r, deep, verbose)).collect()),
        Route::VecOcts => {
            let apex: VName = gname(&u.apex_labels);
            generate_nsecs(&apex, src.sorted_v.expect("vec zone").owner_rrs(), &cfg).map(|v| v.iter().map(|r| raw_nsec(r, deep, verbose)).collect())
        }
    });
    let recs = match res {
        Err(p) => {
            loc.inc("nsec_panic");
            ctx.violation(&format!("C13|nsec|panic|{}", panic_class(&p)), &format!("generate_nsecs panicked: {p}; route {}; zone: {}", route.name(), z.text()), replay());
            return;
        }
        Ok(Err(e)) => {
            loc.inc("nsec_err");
            ctx.violation(&format!("C13|nsec|error|{e:?}"), &format!("generate_nsecs returned {e:?} for a complete sorted zone (route {}): {}", route.name(), z.text()), replay());
            return;
        }
        Ok(Ok(r)) => r,
    };
    loc.inc("nsec_ok");

    // ---- expected chain (independent)
    let exp: Vec<usize> = (0..u.names.len()).filter(|&id| matches!(z.cls[id], Cls::Cut | Cls::Owner)).collect();
    loc.nsec_len[exp.len().min(31)] += 1;
    if dnskey {
        let mut key = Vec::new();
        for &id in &exp {
            key.extend_from_slice(&(id as u32).to_le_bytes());
            for t in z.nsec_types(u, id, dnskey) {
                key.extend_from_slice(&t.to_le_bytes());
            }
            key.push(0xff);
        }
        loc.shapes.push(fnv(&key));
    }

    // ---- parse what the library returned
    let mut got: Vec<GotNsec> = Vec::new();
    let mut parse_ok = true;
    let want_ttl = z.soa.0.min(z.soa.1);
    for r in &recs {
        let o = u.id_of_wire(&r.owner);
        let n = u.id_of_wire(&r.next);
        let raw = &r.bitmap;
        let types = bitmap_decode(raw);
        match (o, n, types) {
            (Some(owner), Some(next), Some(types)) => {
                if &bitmap_encode(&types) != raw {
                    ctx.violation("C13|nsec|bitmap|encoding-not-canonical", &format!("NSEC bitmap octets {} are not the RFC 4034 §4.1.2 encoding of their own type set", hex(raw)), replay());
                    parse_ok = false;
                }
                got.push(GotNsec { owner, next, types });
            }
            (o, n, t) => {
                parse_ok = false;
                let which = if o.is_none() {
                    "owner-outside-closure"
                } else if n.is_none() {
                    "next-outside-closure"
                } else {
                    let _ = t;
                    "bitmap-malformed"
                };
                ctx.violation(&format!("C13|nsec|record|{which}"), &format!("NSEC record {} -> {} bitmap {}: {which}; zone: {}", show_wire(&r.owner), show_wire(&r.next), hex(raw), z.text()), replay());
            }
        }
        if !r.class_in {
            ctx.violation("C13|nsec|record|class", "NSEC record class is not the zone class", replay());
        }
        if r.ttl != want_ttl {
            ctx.violation("C13|nsec|record|ttl-not-min(soa-ttl,soa-minimum)", &format!("NSEC TTL {} but SOA TTL {} MINIMUM {} (RFC 9077 §3.1, documented on generate_nsecs); zone: {}", r.ttl, z.soa.0, z.soa.1, z.text()), replay());
        }
        for a in &r.api {
            ctx.violation(&format!("C13|nsec|api|{a}"), &format!("{a} disagrees with the octets of the generated NSEC record {} -> {} bitmap {}", show_wire(&r.owner), show_wire(&r.next), hex(raw)), replay());
        }
    }
    if run.verbose {
        println!("zone: {}", z.text());
        println!("route: {}", route.name());
        println!("library NSEC chain ({} records):", recs.len());
        for r in &recs {
            println!("  {} (ttl {})", r.text, r.ttl);
        }
        println!("expected NSEC chain (ttl {want_ttl}):");
        for (i, &id) in exp.iter().enumerate() {
            let nx = if i + 1 < exp.len() { exp[i + 1] } else { u.apex };
            println!("  {} NSEC {} [{}]", u.show(id), u.show(nx), tnames(&z.nsec_types(u, id, dnskey)));
        }
    }
    if !parse_ok {
        return;
    }

    // ---- exact equality: owner set, order, next, bitmap
    let got_ids: Vec<usize> = got.iter().map(|g| g.owner).collect();
    let got_set: BTreeSet<usize> = got_ids.iter().copied().collect();
    let exp_set: BTreeSet<usize> = exp.iter().copied().collect();
    let mut set_ok = true;
    if got_set.len() != got_ids.len() {
        set_ok = false;
        ctx.violation("C13|nsec|owner-set|duplicate-owner", &format!("two NSEC records for one owner; zone: {}", z.text()), replay());
    }
    for &id in got_set.difference(&exp_set) {
        set_ok = false;
        let k = match z.cls[id] {
            Cls::BelowCut => z.below_cut_kind(u, id),
            Cls::Ent => "extra-empty-non-terminal",
            _ => "extra-nonexistent-name",
        };
        ctx.violation(&format!("C13|nsec|owner-set|{k}"), &format!("NSEC generated for {} which is {:?}; zone: {}", u.show(id), z.cls[id], z.text()), replay());
    }
    for &id in exp_set.difference(&got_set) {
        set_ok = false;
        let k = if id == u.apex {
            "missing-apex"
        } else if z.cls[id] == Cls::Cut {
            "missing-delegation-point"
        } else {
            "missing-authoritative-owner"
        };
        ctx.violation(&format!("C13|nsec|owner-set|{k}"), &format!("no NSEC for {} ({:?}); zone: {}", u.show(id), z.cls[id], z.text()), replay());
    }
    if set_ok {
        if got_ids != exp {
            ctx.violation("C13|nsec|order|not-canonical", &format!("NSEC records not in RFC 4034 §6.1 order: {:?}; zone: {}", got_ids.iter().map(|i| u.show(*i)).collect::<Vec<_>>(), z.text()), replay());
        } else {
            for (i, g) in got.iter().enumerate() {
                let last = i + 1 == exp.len();
                let want = if last { u.apex } else { exp[i + 1] };
                if g.next != want {
                    let k = if last { "last-not-apex" } else { "not-successor" };
                    ctx.violation(&format!("C13|nsec|next|{k}"), &format!("NSEC at {} points to {} instead of {}; zone: {}", u.show(g.owner), u.show(g.next), u.show(want), z.text()), replay());
                }
            }
        }
        for g in &got {
            let want = z.nsec_types(u, g.owner, dnskey);
            let mand = z.nsec_mandated(u, g.owner, dnskey);
            for t in &want {
                if unconstrained(*t, false) && !mand.contains(t) {
                    loc.inc(if g.types.contains(t) { "observed_meta_or_signer_type_in_input_listed" } else { "observed_meta_or_signer_type_in_input_not_listed" });
                }
            }
            if let Some((missing, extra)) = bitmap_diff(&g.types, &want, &mand, false) {
                let wh = if g.owner == u.apex {
                    "apex"
                } else if z.cls[g.owner] == Cls::Cut {
                    "delegation"
                } else {
                    "owner"
                };
                ctx.violation(
                    &format!("C13|nsec|bitmap|{wh}|missing:{}|extra:{}", tnames(&missing), tnames(&extra)),
                    &format!("NSEC bitmap at {} is [{}], expected [{}]; zone: {}", u.show(g.owner), tnames(&g.types), tnames(&want), z.text()),
                    replay(),
                );
            }
        }
    }

    // ---- denial probes on the library's records
    let mut by_id: Vec<Option<usize>> = vec![None; u.names.len()];
    for (i, g) in got.iter().enumerate() {
        by_id[g.owner].get_or_insert(i);
    }
    let matching = |q: usize| by_id[q].map(|i| &got[i]);
    let covers = |q: usize| -> Option<(usize, bool)> {
        for (i, g) in got.iter().enumerate() {
            if g.owner < g.next {
                if g.owner < q && q < g.next {
                    return Some((i, false));
                }
            } else if q > g.owner || q < g.next {
                // last record of the chain (next wraps to the apex)
                return Some((i, true));
            }
        }
        None
    };
    let present = |id: usize, t: u16| z.has(id, t) || (id == u.apex && dnskey && t == T_DNSKEY);
    for q in 0..u.names.len() {
        match z.cls[q] {
            Cls::BelowCut => {
                // A name below a delegation is answered by a referral: what
                // the chain must offer is the NSEC of the TOP-MOST cut (NS
                // set, SOA clear, DS exactly as present), the name itself
                // owns no record, and the only interval containing the name
                // is the one that starts at that cut (RFC 4035 §3.1.4).
                loc.probes += 1;
                loc.inc("probe_nsec_referral_below_cut");
                let t = z.top_cut(u, q).expect("a name below a cut has a top-most cut");
                let deleg_ok = matching(t).map(|g| g.types.contains(&T_NS) && !g.types.contains(&T_SOA) && g.types.contains(&T_DS) == z.has(t, T_DS)).unwrap_or(false);
                if !deleg_ok {
                    ctx.violation("C13|nsec|denial|below-cut|no-delegation-NSEC-at-the-top-most-cut", &format!("referral for {} needs an NSEC at {} with NS, without SOA, DS as present; zone: {}", u.show(q), u.show(t), z.text()), replay());
                }
                if matching(q).is_some() {
                    ctx.violation("C13|nsec|denial|below-cut|non-authoritative-name-owns-an-NSEC", &format!("{} lies below the delegation {} but owns an NSEC; zone: {}", u.show(q), u.show(t), z.text()), replay());
                } else if covers(q).map(|(i, _)| got[i].owner) != Some(t) {
                    ctx.violation("C13|nsec|denial|below-cut|interval-containing-the-name-does-not-start-at-the-top-most-cut", &format!("{} lies below the delegation {} but is covered by {:?}; zone: {}", u.show(q), u.show(t), covers(q).map(|(i, _)| u.show(got[i].owner)), z.text()), replay());
                }
            }
            Cls::Cut => {
                if !z.has(q, T_DS) {
                    loc.probes += 1;
                    loc.inc("probe_nsec_deleg_no_ds");
                    if !matching(q).map(|g| !g.types.contains(&T_DS)).unwrap_or(false) {
                        ctx.violation("C13|nsec|denial|delegation-DS|no-matching-record-without-bit", &format!("absence of DS at {} not provable; zone: {}", u.show(q), z.text()), replay());
                    }
                }
            }
            Cls::Owner => {
                if z.has(q, T_CNAME) {
                    loc.inc("probe_skip_cname_owner");
                    continue;
                }
                for t in PROBE_TYPES {
                    if present(q, t) {
                        continue;
                    }
                    loc.probes += 1;
                    loc.inc("probe_nsec_nodata");
                    if !matching(q).map(|g| !g.types.contains(&t)).unwrap_or(false) {
                        ctx.violation("C13|nsec|denial|nodata|no-matching-record-without-bit", &format!("absence of {} at {} not provable; zone: {}", tname(t), u.show(q), z.text()), replay());
                    }
                }
            }
            Cls::Ent => {
                loc.probes += 1;
                loc.inc("probe_nsec_ent");
                if covers(q).is_none() {
                    ctx.violation("C13|nsec|denial|empty-non-terminal|not-covered", &format!("no NSEC covers the empty non-terminal {}; zone: {}", u.show(q), z.text()), replay());
                }
            }
            Cls::Nx => {
                // closest encloser: nearest existing ancestor
                let mut ce = u.parent[q].expect("apex exists");
                while !matches!(z.cls[ce], Cls::Owner | Cls::Ent) {
                    ce = u.parent[ce].expect("apex is an owner");
                }
                let Some(w) = u.wild_child[ce] else {
                    loc.inc("probe_skip_wildcard_outside_closure");
                    continue;
                };
                match covers(q) {
                    None => {
                        ctx.violation("C13|nsec|denial|nxdomain|qname-not-covered", &format!("no NSEC covers the non-existent name {}; zone: {}", u.show(q), z.text()), replay());
                    }
                    Some((_, wrap)) => {
                        if wrap {
                            loc.inc("probe_nsec_cover_by_wraparound");
                        } else {
                            loc.inc("probe_nsec_cover_inner");
                        }
                    }
                }
                match z.cls[w] {
                    Cls::Owner => {
                        // a wildcard exists at the closest encloser
                        if z.has(w, T_CNAME) {
                            loc.inc("probe_skip_wildcard_cname");
                            continue;
                        }
                        for t in PROBE_TYPES {
                            if z.has(w, t) {
                                continue;
                            }
                            loc.probes += 1;
                            loc.inc("probe_nsec_wildcard_nodata");
                            if !matching(w).map(|g| !g.types.contains(&t)).unwrap_or(false) {
                                ctx.violation("C13|nsec|denial|wildcard-nodata|no-matching-record-without-bit", &format!("absence of {} at wildcard {} (for {}) not provable; zone: {}", tname(t), u.show(w), u.show(q), z.text()), replay());
                            }
                        }
                    }
                    Cls::Nx => {
                        loc.probes += PROBE_TYPES.len() as u64;
                        loc.inc("probe_nsec_nxdomain");
                        if covers(w).is_none() {
                            ctx.violation("C13|nsec|denial|nxdomain|wildcard-not-covered", &format!("no NSEC covers the wildcard {} (for {}); zone: {}", u.show(w), u.show(q), z.text()), replay());
                        }
                    }
                    _ => loc.inc("probe_skip_wildcard_other"),
                }
            }
        }
    }
}

// -------------------------------------------------------- NSEC3 check

struct GotNsec3 {
    hash: [u8; 20],
    next: [u8; 20],
    id: usize,
    types: Vec<u16>,
    flags: u8,
}

fn check_nsec3(run: &Run, z: &Zone, src: &Src, route: Route, n3: &N3Run, deep: bool, loc: &mut Local) {
    let (ctx, u) = (run.ctx, run.u);
    let cfg = &n3.cfg;
    let replay = || json!({"mode": "nsec3", "route": route.name(), "cfg": cfg.json(), "records": z.recs_json()});
    let pidx = n3.pidx;
    let hashes = &u.hashes[pidx];
    loc.evals += 1;
    let verbose = run.verbose;
    type Out = (Vec<RawNsec3>, RawParam);
    let res: Result<Result<Out, SigningError>, String> = guard(|| match route {
        Route::Owned => {
            // the documented default configuration is reached through
            // `GenerateNsec3Config::default()` rather than through setters
            if cfg.is_default() {
                let d = GenerateNsec3Config::<Bytes, DefaultSorter>::default();
                generate_nsec3s(&run.apex, src.sorted.owner_rrs(), &d).map(|o| (o.nsec3s.iter().map(|r| raw_nsec3(r, deep, verbose)).collect(), raw_param(&o.nsec3param, verbose)))
            } else {
                generate_nsec3s(&run.apex, src.sorted.owner_rrs(), &n3.lib).map(|o| (o.nsec3s.iter().map(|r| raw_nsec3(r, deep, verbose)).collect(), raw_param(&o.nsec3param, verbose)))
            }
        }
        Route::Refs => {
            let refs: Vec<&LRec> = src.sorted.iter().collect();
            generate_nsec3s(&run.apex, RecordsIter::new_from_refs(&refs), &n3.lib).map(|o| (o.nsec3s.iter().map(|r| raw_nsec3(r, deep, verbose)).collect(), raw_param(&o.nsec3param, verbose)))
        }
        Route::Wrapped => generate_nsec3s(&run.apex, RecordsIter::new(SliceRefsOrOwned::new_from_owned(&src.sorted[..])), &n3.lib)
            .map(|o| (o.nsec3s.iter().map(|r| raw_nsec3(r, deep, verbose)).collect(), raw_param(&o.nsec3param, verbose))),
        Route::VecOcts => {
            let apex: VName = gname(&u.apex_labels);
            generate_nsec3s(&apex, src.sorted_v.expect("vec zone").owner_rrs(), &n3.lib_v).map(|o| (o.nsec3s.iter().map(|r| raw_nsec3(r, deep, verbose)).collect(), raw_param(&o.nsec3param, verbose)))
        }
    });
    let (out, param) = match res {
        Err(p) => {
            loc.inc("nsec3_panic");
            ctx.violation(&format!("C13|nsec3|panic|{}", panic_class(&p)), &format!("generate_nsec3s panicked: {p}; route {}; cfg {:?}; zone: {}", route.name(), cfg, z.text()), replay());
            return;
        }
        Ok(Err(_)) if cfg.xflags & 0xFE != 0 => {
            // RFC 5155 §3.1.2: "All undefined flags must be zero": refusing
            // a request for reserved bits is acceptable
            loc.inc("observed_reserved_flag_bits_refused");
            return;
        }
        Ok(Err(e)) => {
            loc.inc("nsec3_err");
            ctx.violation(&format!("C13|nsec3|error|{e:?}"), &format!("generate_nsec3s returned {e:?} for a complete sorted zone; route {}; cfg {:?}; zone: {}", route.name(), cfg, z.text()), replay());
            return;
        }
        Ok(Ok(r)) => r,
    };
    loc.inc("nsec3_ok");
    if param.flags != 0 {
        // observation only (RFC 5155 §4.1.2: zero); the library copies the
        // requested flags, the property text does not mention the field
        loc.inc("observed_nsec3param_flags_nonzero");
    }
    if cfg.xflags & 0xFE != 0 {
        loc.inc(if out.iter().any(|r| r.flags & 0xFE != 0) { "observed_reserved_flag_bits_copied_into_nsec3" } else { "observed_reserved_flag_bits_cleared_in_nsec3" });
    }
    // RFC 5155 §7.1 step 8: "add an NSEC3PARAM RR with the same Hash
    // Algorithm, Iterations, and Salt fields to the zone apex"
    {
        let bad = |which: &str| {
            ctx.violation(&format!("C13|nsec3|nsec3param|{which}"), &format!("NSEC3PARAM {} alg {} flags {} iterations {} salt {} ttl {}: {which}; cfg {:?}; zone: {}", show_wire(&param.owner), param.alg, param.flags, param.iters, hex(&param.salt), param.ttl, cfg, z.text()), replay());
        };
        if !param.owner.eq_ignore_ascii_case(&wire(&u.apex_labels)) {
            bad("owner-not-apex");
        }
        if param.alg != 1 {
            bad("hash-algorithm");
        }
        // zero (RFC 5155 §4.1.2) or what was requested, never anything else
        if param.flags & !cfg.want_flags() != 0 {
            bad("flags-bit-not-requested");
        }
        if param.iters != cfg.iters {
            bad("iterations");
        }
        if param.salt != cfg.salt {
            bad("salt");
        }
        if !param.class_in {
            bad("class");
        }
        // documented on Nsec3ParamTtlMode
        let want = match cfg.ttl_mode {
            0 => z.soa.0,
            1 => 7,
            _ => z.soa.1,
        };
        if param.ttl != want {
            bad(match cfg.ttl_mode {
                0 => "ttl-mode-soa",
                1 => "ttl-mode-fixed",
                _ => "ttl-mode-soa-minimum",
            });
        }
    }

    // ---- expected sets (independent): RFC 5155 §7.1
    let excluding = cfg.opt_out && cfg.exclude;
    let n = u.names.len();
    let mut included = vec![false; n];
    let mut excluded = vec![false; n];
    for id in 0..n {
        match z.cls[id] {
            Cls::Owner => included[id] = true,
            Cls::Cut => {
                if excluding && !z.has(id, T_DS) {
                    excluded[id] = true;
                } else {
                    included[id] = true;
                }
            }
            _ => {}
        }
    }
    // ENT is mandatory when an included name lies below it; an ENT that is
    // only derived from opted-out insecure delegations MAY be left out
    // (RFC 5155 §7.1 second bullet list: "unless the empty non-terminal is
    // only derived from an insecure delegation covered by an Opt-Out NSEC3").
    let mut ent_mand = vec![false; n];
    for id in 0..n {
        if included[id] {
            let mut p = u.parent[id];
            while let Some(q) = p {
                if z.cls[q] == Cls::Ent {
                    ent_mand[q] = true;
                }
                p = u.parent[q];
            }
        }
    }
    let mand: BTreeSet<usize> = (0..n).filter(|&id| included[id] || ent_mand[id]).collect();
    let optional: BTreeSet<usize> = (0..n).filter(|&id| z.cls[id] == Cls::Ent && !ent_mand[id]).collect();
    if !optional.is_empty() {
        loc.inc("nsec3_cases_with_optional_ent");
    }
    if excluded.iter().any(|x| *x) {
        loc.inc("nsec3_cases_with_opted_out_delegation");
    }
    loc.nsec3_len[mand.len().min(31)] += 1;
    if pidx == 0 && cfg.dnskey && cfg.ttl_mode == 0 {
        let mut key = vec![cfg.opt_out as u8, cfg.exclude as u8];
        for &id in &mand {
            key.extend_from_slice(&(id as u32).to_le_bytes());
            for t in z.nsec3_types(u, id, true) {
                key.extend_from_slice(&t.to_le_bytes());
            }
            key.push(0xff);
        }
        loc.shapes.push(fnv(&key) ^ 0x5555);
    }

    // ---- parse what the library returned
    let mut got: Vec<GotNsec3> = Vec::new();
    let mut parse_ok = true;
    let apex_wire = wire(&u.apex_labels);
    let want_ttl = z.soa.0.min(z.soa.1);
    for r in &out {
        let raw = &r.bitmap;
        let bad = |which: &str| {
            ctx.violation(&format!("C13|nsec3|record|{which}"), &format!("NSEC3 record {} next {} bitmap {}: {which}; cfg {:?}; zone: {}", show_wire(&r.owner), b32hex_encode(&r.next), hex(raw), cfg, z.text()), replay());
        };
        let labels = match unwire(&r.owner) {
            Some(l) if !l.is_empty() => l,
            _ => {
                bad("owner-unparseable");
                parse_ok = false;
                continue;
            }
        };
        if !wire(&labels[1..].to_vec()).eq_ignore_ascii_case(&apex_wire) {
            bad("owner-not-hash-label-plus-apex");
            parse_ok = false;
            continue;
        }
        let hash = match b32hex_decode(&labels[0]) {
            Some(h) if h.len() == 20 && labels[0].len() == 32 => {
                let mut a = [0u8; 20];
                a.copy_from_slice(&h);
                a
            }
            _ => {
                bad("owner-label-not-base32hex-of-20-octets");
                parse_ok = false;
                continue;
            }
        };
        if !b32hex_encode(&hash).as_bytes().eq_ignore_ascii_case(&labels[0]) {
            bad("owner-label-base32hex-roundtrip");
            parse_ok = false;
            continue;
        }
        if r.next.len() != 20 {
            bad("next-hash-length");
            parse_ok = false;
            continue;
        }
        let mut next = [0u8; 20];
        next.copy_from_slice(&r.next);
        let Some(types) = bitmap_decode(raw) else {
            bad("bitmap-malformed");
            parse_ok = false;
            continue;
        };
        if &bitmap_encode(&types) != raw {
            bad("bitmap-encoding-not-canonical");
            parse_ok = false;
        }
        if r.alg != 1 {
            bad("field-hash-algorithm");
        }
        if r.iters != cfg.iters {
            bad("field-iterations");
        }
        if r.salt != cfg.salt {
            bad("field-salt");
        }
        // Opt-Out bit iff REQUESTED (RFC 5155 §3.1.2.1); a reserved bit only
        // if the caller asked for it (the library may copy or clear those)
        if r.flags & 1 != cfg.opt_out as u8 {
            bad(if cfg.opt_out { "field-flags-optout-bit-clear" } else { "field-flags-optout-bit-set" });
        }
        if r.flags & 0xFE & !cfg.xflags != 0 {
            bad("field-flags-reserved-bit-not-requested");
        }
        if !r.class_in {
            bad("class");
        }
        if r.ttl != want_ttl {
            bad("ttl-not-min(soa-ttl,soa-minimum)");
        }
        for a in &r.api {
            ctx.violation(&format!("C13|nsec3|api|{a}"), &format!("{a} disagrees with the octets of the generated NSEC3 record {} next {} bitmap {}", show_wire(&r.owner), b32hex_encode(&r.next), hex(raw)), replay());
        }
        // identify the original owner name by OWN hash
        let Some(&id) = u.by_hash[pidx].get(&hash) else {
            ctx.violation(
                "C13|nsec3|hash|owner-hash-is-not-rfc5155-hash-of-any-zone-name",
                &format!("NSEC3 owner {} is not IH(salt={}, name, {}) of any name of the closure; zone: {}", show_wire(&r.owner), hex(&cfg.salt), cfg.iters, z.text()),
                replay(),
            );
            parse_ok = false;
            continue;
        };
        got.push(GotNsec3 { hash, next, id, types, flags: r.flags });
    }
    if run.verbose {
        println!("zone: {}", z.text());
        println!("route: {}; cfg: {:?}", route.name(), cfg);
        println!("library NSEC3 chain ({} records), {}:", out.len(), param.text);
        for r in &out {
            let who = unwire(&r.owner).and_then(|l| b32hex_decode(&l[0])).and_then(|h| {
                let mut a = [0u8; 20];
                if h.len() == 20 {
                    a.copy_from_slice(&h);
                    u.by_hash[pidx].get(&a).map(|i| u.show(*i))
                } else {
                    None
                }
            });
            println!("  {} (ttl {}) ; original owner {:?}", r.text, r.ttl, who);
        }
        println!("expected (mandatory) original owners, in hash order (ttl {want_ttl}):");
        let mut m: Vec<usize> = mand.iter().copied().collect();
        m.sort_by_key(|i| hashes[*i]);
        for id in m {
            println!("  {} = {} [{}] ({:?})", b32hex_encode(&hashes[id]), u.show(id), tnames(&z.nsec3_types(u, id, cfg.dnskey)), z.cls[id]);
        }
        for id in &optional {
            println!("  optional ENT {} = {}", b32hex_encode(&hashes[*id]), u.show(*id));
        }
    }
    if !parse_ok {
        return;
    }

    // ---- equality: owner set (with the RFC's optional ENTs), hash order,
    //      next pointers, bitmaps
    let got_ids: Vec<usize> = got.iter().map(|g| g.id).collect();
    let got_set: BTreeSet<usize> = got_ids.iter().copied().collect();
    let mut set_ok = true;
    if got_set.len() != got_ids.len() {
        set_ok = false;
        ctx.violation("C13|nsec3|owner-set|duplicate-owner", &format!("two NSEC3 records for one hashed owner; cfg {:?}; zone: {}", cfg, z.text()), replay());
    }
    for &id in &got_set {
        if mand.contains(&id) || optional.contains(&id) {
            if optional.contains(&id) {
                loc.inc("nsec3_optional_ent_emitted");
            }
            continue;
        }
        set_ok = false;
        let k = if excluded[id] {
            "extra-insecure-delegation-despite-optout-exclusion"
        } else {
            match z.cls[id] {
                Cls::BelowCut => z.below_cut_kind(u, id),
                _ => "extra-nonexistent-name",
            }
        };
        ctx.violation(&format!("C13|nsec3|owner-set|{k}"), &format!("NSEC3 generated for {} ({:?}); cfg {:?}; zone: {}", u.show(id), z.cls[id], cfg, z.text()), replay());
    }
    for &id in mand.difference(&got_set) {
        set_ok = false;
        let k = if id == u.apex {
            "missing-apex"
        } else {
            match z.cls[id] {
                Cls::Ent => "missing-empty-non-terminal",
                Cls::Cut => {
                    if z.has(id, T_DS) {
                        "missing-secure-delegation"
                    } else {
                        "missing-insecure-delegation-without-optout-exclusion"
                    }
                }
                _ => "missing-authoritative-owner",
            }
        };
        ctx.violation(&format!("C13|nsec3|owner-set|{k}"), &format!("no NSEC3 for {} ({:?}); cfg {:?}; zone: {}", u.show(id), z.cls[id], cfg, z.text()), replay());
    }
    for id in optional.difference(&got_set) {
        let _ = id;
        loc.inc("nsec3_optional_ent_omitted");
    }
    if set_ok {
        let sorted_ok = got.windows(2).all(|w| w[0].hash < w[1].hash);
        if !sorted_ok {
            ctx.violation("C13|nsec3|order|not-hash-order", &format!("NSEC3 records not in hash order; cfg {:?}; zone: {}", cfg, z.text()), replay());
        } else {
            for (i, g) in got.iter().enumerate() {
                let last = i + 1 == got.len();
                let want = if last { got[0].hash } else { got[i + 1].hash };
                if g.next != want {
                    let k = if last { "last-not-first" } else { "not-successor" };
                    ctx.violation(&format!("C13|nsec3|next|{k}"), &format!("NSEC3 for {} has next {} instead of {}; cfg {:?}; zone: {}", u.show(g.id), b32hex_encode(&g.next), b32hex_encode(&want), cfg, z.text()), replay());
                }
            }
        }
        for g in &got {
            let want = z.nsec3_types(u, g.id, cfg.dnskey);
            let mand = z.nsec3_mandated(u, g.id, cfg.dnskey);
            for t in &want {
                if unconstrained(*t, true) && !mand.contains(t) {
                    loc.inc(if g.types.contains(t) { "observed_meta_or_signer_type_in_input_listed" } else { "observed_meta_or_signer_type_in_input_not_listed" });
                }
            }
            if let Some((missing, extra)) = bitmap_diff(&g.types, &want, &mand, true) {
                let wh = if g.id == u.apex {
                    "apex"
                } else {
                    match z.cls[g.id] {
                        Cls::Cut => {
                            if z.has(g.id, T_DS) {
                                "secure-delegation"
                            } else {
                                "insecure-delegation"
                            }
                        }
                        Cls::Ent => "empty-non-terminal",
                        _ => "owner",
                    }
                };
                ctx.violation(
                    &format!("C13|nsec3|bitmap|{wh}|missing:{}|extra:{}", tnames(&missing), tnames(&extra)),
                    &format!("NSEC3 bitmap for {} is [{}], expected [{}]; cfg {:?}; zone: {}", u.show(g.id), tnames(&g.types), tnames(&want), cfg, z.text()),
                    replay(),
                );
            }
        }
    }

    // ---- denial probes (RFC 5155 §7.2 / §8.4-8.7 shapes) on the library's records
    // a record matches q iff its owner hash equals OWN hash of q; got[i].id
    // was derived from exactly that equality
    let mut by_id: Vec<Option<usize>> = vec![None; n];
    for (i, g) in got.iter().enumerate() {
        by_id[g.id].get_or_insert(i);
    }
    let matching = |q: usize| by_id[q].map(|i| &got[i]);
    let covers = |q: usize| -> Option<(&GotNsec3, bool)> {
        let h = hashes[q];
        for g in got.iter() {
            if g.hash < g.next {
                if g.hash < h && h < g.next {
                    return Some((g, false));
                }
            } else if h > g.hash || h < g.next {
                return Some((g, true));
            }
        }
        None
    };
    let present = |id: usize, t: u16| z.has(id, t) || (id == u.apex && (t == T_NSEC3PARAM || (cfg.dnskey && t == T_DNSKEY)));
    // closest provable encloser (nearest ancestor with a matching NSEC3) and next closer name
    let cpe_of = |q: usize| -> Option<(usize, usize)> {
        let mut nc = q;
        let mut p = u.parent[q];
        while let Some(a) = p {
            if matching(a).is_some() {
                return Some((a, nc));
            }
            nc = a;
            p = u.parent[a];
        }
        None
    };
    // proof for a name that has no NSEC3 of its own; `exists` = the next
    // closer name exists in the zone (opted-out delegation / optional ENT) so
    // the covering record must carry the Opt-Out flag
    let unhashed_proof = |q: usize, kind: &'static str, loc: &mut Local| -> Option<usize> {
        let Some((cpe, nc)) = cpe_of(q) else {
            ctx.violation(&format!("C13|nsec3|denial|{kind}|no-closest-provable-encloser"), &format!("no ancestor of {} (not even the apex) has a matching NSEC3; cfg {:?}; zone: {}", u.show(q), cfg, z.text()), replay());
            return None;
        };
        match covers(nc) {
            None => {
                ctx.violation(&format!("C13|nsec3|denial|{kind}|next-closer-not-covered"), &format!("no NSEC3 covers next closer name {} of {}; cfg {:?}; zone: {}", u.show(nc), u.show(q), cfg, z.text()), replay());
            }
            Some((g, wrap)) => {
                if wrap {
                    loc.inc("probe_nsec3_cover_by_wraparound");
                } else {
                    loc.inc("probe_nsec3_cover_inner");
                }
                let nc_exists = !matches!(z.cls[nc], Cls::Nx);
                if nc_exists && g.flags & 1 == 0 {
                    ctx.violation(&format!("C13|nsec3|denial|{kind}|covering-record-lacks-optout-flag"), &format!("existing name {} has no NSEC3 and the covering NSEC3 has Opt-Out clear; cfg {:?}; zone: {}", u.show(nc), cfg, z.text()), replay());
                }
            }
        }
        Some(cpe)
    };
    for q in 0..n {
        match z.cls[q] {
            Cls::BelowCut => {
                // referral: the NSEC3 matching the TOP-MOST cut (NS set, SOA
                // clear, DS exactly as present) or, when that delegation is
                // opted out, the closest-provable-encloser proof checked in
                // the Cut arm; the name itself (existing or not) has no
                // matching NSEC3 (RFC 5155 §7.1: only authoritative names and
                // their empty non-terminals are hashed)
                loc.probes += 1;
                loc.inc("probe_nsec3_referral_below_cut");
                let t = z.top_cut(u, q).expect("a name below a cut has a top-most cut");
                match matching(t) {
                    Some(g) => {
                        if !(g.types.contains(&T_NS) && !g.types.contains(&T_SOA) && g.types.contains(&T_DS) == z.has(t, T_DS)) {
                            ctx.violation("C13|nsec3|denial|below-cut|NSEC3-of-the-top-most-cut-is-not-a-delegation-proof", &format!("referral for {} needs the NSEC3 of {} to list NS, not SOA, DS as present; it lists [{}]; cfg {:?}; zone: {}", u.show(q), u.show(t), tnames(&g.types), cfg, z.text()), replay());
                        }
                    }
                    None => {
                        if !excluded[t] {
                            ctx.violation("C13|nsec3|denial|below-cut|no-NSEC3-for-the-top-most-cut", &format!("referral for {}: the delegation {} has no NSEC3 and is not opted out; cfg {:?}; zone: {}", u.show(q), u.show(t), cfg, z.text()), replay());
                        }
                    }
                }
                if matching(q).is_some() {
                    ctx.violation("C13|nsec3|denial|below-cut|non-authoritative-name-has-a-matching-NSEC3", &format!("{} lies below the delegation {} but has a matching NSEC3; cfg {:?}; zone: {}", u.show(q), u.show(t), cfg, z.text()), replay());
                }
            }
            Cls::Cut => {
                if z.has(q, T_DS) {
                    continue;
                }
                loc.probes += 1;
                if let Some(g) = matching(q) {
                    loc.inc("probe_nsec3_deleg_no_ds_matched");
                    if g.types.contains(&T_DS) {
                        ctx.violation("C13|nsec3|denial|delegation-DS|matching-record-has-bit", &format!("absence of DS at {} not provable; cfg {:?}; zone: {}", u.show(q), cfg, z.text()), replay());
                    }
                } else {
                    loc.inc("probe_nsec3_deleg_no_ds_optout");
                    unhashed_proof(q, "optout-delegation-DS", loc);
                }
            }
            Cls::Owner => {
                if z.has(q, T_CNAME) {
                    loc.inc("probe_skip_cname_owner");
                    continue;
                }
                for t in PROBE_TYPES {
                    if present(q, t) {
                        continue;
                    }
                    loc.probes += 1;
                    loc.inc("probe_nsec3_nodata");
                    if !matching(q).map(|g| !g.types.contains(&t)).unwrap_or(false) {
                        ctx.violation("C13|nsec3|denial|nodata|no-matching-record-without-bit", &format!("absence of {} at {} not provable; cfg {:?}; zone: {}", tname(t), u.show(q), cfg, z.text()), replay());
                    }
                }
            }
            Cls::Ent => {
                if let Some(g) = matching(q) {
                    loc.probes += PROBE_TYPES.len() as u64;
                    loc.inc("probe_nsec3_ent_matched");
                    if !g.types.is_empty() {
                        ctx.violation("C13|nsec3|denial|empty-non-terminal|bitmap-not-empty", &format!("NSEC3 of empty non-terminal {} lists types [{}]; cfg {:?}; zone: {}", u.show(q), tnames(&g.types), cfg, z.text()), replay());
                    }
                } else {
                    loc.probes += 1;
                    loc.inc("probe_nsec3_ent_unhashed");
                    unhashed_proof(q, "empty-non-terminal", loc);
                }
            }
            Cls::Nx => {
                let Some(cpe) = unhashed_proof(q, "nxdomain", loc) else { continue };
                let Some(w) = u.wild_child[cpe] else {
                    loc.inc("probe_skip_wildcard_outside_closure");
                    continue;
                };
                match z.cls[w] {
                    Cls::Owner => {
                        if z.has(w, T_CNAME) {
                            loc.inc("probe_skip_wildcard_cname");
                            continue;
                        }
                        for t in PROBE_TYPES {
                            if z.has(w, t) {
                                continue;
                            }
                            loc.probes += 1;
                            loc.inc("probe_nsec3_wildcard_nodata");
                            if !matching(w).map(|g| !g.types.contains(&t)).unwrap_or(false) {
                                ctx.violation("C13|nsec3|denial|wildcard-nodata|no-matching-record-without-bit", &format!("absence of {} at wildcard {} (for {}) not provable; cfg {:?}; zone: {}", tname(t), u.show(w), u.show(q), cfg, z.text()), replay());
                            }
                        }
                    }
                    Cls::Nx => {
                        loc.probes += PROBE_TYPES.len() as u64;
                        loc.inc("probe_nsec3_nxdomain");
                        if matching(w).is_some() || covers(w).is_none() {
                            ctx.violation("C13|nsec3|denial|nxdomain|wildcard-not-covered", &format!("no NSEC3 covers the wildcard {} (for {}); cfg {:?}; zone: {}", u.show(w), u.show(q), cfg, z.text()), replay());
                        }
                    }
                    _ => loc.inc("probe_skip_wildcard_other"),
                }
            }
        }
    }
}

// -------------------------------------------------------- enumeration

struct Slot {
    name: &'static str,
    /// rdata variant (the case twin uses a different one so that its
    /// records are not duplicates of the lower-case name's)
    variant: u8,
    kinds: Vec<Vec<u16>>,
}

const APEX: &str = "z.";

fn slots(quick: bool) -> Vec<Slot> {
    let s = |name: &'static str, variant: u8, kinds: &[&[u16]]| Slot { name, variant, kinds: kinds.iter().map(|k| k.to_vec()).collect() };
    let full: &[&[u16]] = &[&[], &[T_A], &[T_A, T_TXT], &[T_CNAME]];
    if quick {
        vec![
            s("a.z.", 1, &[&[], &[T_A], &[T_CNAME]]),
            s("A.z.", 2, &[&[], &[T_A], &[T_TXT]]),
            s("b.a.z.", 1, &[&[], &[T_TXT, T_CAA, T_PRIV], &[T_A, T_PRIV, T_PRIV2]]),
            // y.a.z. never owns data: an ENT whose nearest non-empty
            // ancestor is a.z. (not the apex) whenever a.z./A.z. has data
            s("x.y.a.z.", 1, &[&[], &[T_A]]),
            s("*.a.z.", 1, &[&[], &[T_A]]),
            // delegation owners with glue-at-the-cut: two A records sort
            // before the NS RRset; A + NS + AAAA surrounds it
            s("c.z.", 1, &[&[], &[T_NS], &[T_NS, T_A, T_A], &[T_NS, T_A, T_AAAA]]),
            s("g.c.z.", 1, &[&[], &[T_A]]),
            s("o.c.z.", 1, &[&[], &[T_TXT]]),
            s("d.z.", 1, &[&[], &[T_NS, T_DS]]),
            s("e.f.z.", 1, &[&[], &[T_A]]),
            s("h.f.z.", 1, &[&[], &[T_A], &[T_NS]]),
            s("k.e.f.z.", 1, &[&[], &[T_A]]),
        ]
    } else {
        vec![
            s("a.z.", 1, full),
            s("A.z.", 2, &[&[], &[T_A], &[T_A, T_TXT]]),
            s("b.a.z.", 1, &[&[], &[T_A], &[T_CNAME], &[T_TXT, T_CAA, T_PRIV], &[T_A, T_PRIV, T_PRIV2]]),
            s("x.y.a.z.", 1, &[&[], &[T_A]]),
            s("*.a.z.", 1, &[&[], &[T_A], &[T_CNAME]]),
            s("c.z.", 1, &[&[], &[T_NS], &[T_NS, T_A], &[T_NS, T_A, T_A], &[T_NS, T_A, T_AAAA]]),
            s("g.c.z.", 1, &[&[], &[T_A]]),
            s("o.c.z.", 1, &[&[], &[T_TXT], &[T_NS]]),
            s("d.z.", 1, &[&[], &[T_NS, T_DS], &[T_NS, T_DS, T_TXT, T_A, T_A]]),
            s("e.f.z.", 1, &[&[], &[T_A]]),
            s("h.f.z.", 1, &[&[], &[T_A], &[T_NS]]),
            s("k.e.f.z.", 1, &[&[], &[T_A]]),
        ]
    }
}

/// Names that are probed in addition to the universe names, their ancestors
/// and their wildcard children.
const EXTRA_PROBES: [&str; 20] = [
    "w.z.",
    "_.z.",
    "0.z.", "b.z.", "zzz.z.", "a.a.z.", "x.b.a.z.", "x.y.a.z.", "x.c.z.", "x.g.c.z.", "x.d.z.", "j.f.z.", "x.e.f.z.", "x.k.e.f.z.", "x.h.f.z.", "x.y.f.z.",
    "x.y.z.", "e.z.", "cc.z.", "x.o.c.z.",
];

// ---- the "what sits below a zone cut" dimension (second enumeration)

const T_DNAME: u16 = 39;

/// Universe of the below-the-cut sweep, in canonical order:
///   z.  a.z.  c.z.  a.c.z.  x.a.c.z.  g.c.z.  z.c.z.  d.z.  g.d.z.
/// `c.z.` is the delegation point (NS / NS+DS / NS + glue A at the cut owner
/// / nothing, which moves the top-most cut one level down); below it three
/// sibling names (canonically first, middle, last below the cut) and one
/// deeper name under the first, each independently carrying one of the
/// "below" kinds; after the whole subtree `d.z.` (nothing / plain owner /
/// second delegation) with `g.d.z.` below it, so that the subtree is
/// followed by nothing, by an authoritative name, by a new cut, or by an ENT.
/// Below-kinds, simplest first: nothing, A (glue / occluded data), NS
/// (occluded nested delegation), NS+DS, NS+A; thorough adds DS alone,
/// TYPE39 (DNAME) and SOA (a child apex copied into the parent).
fn bc_slots(quick: bool) -> Vec<Slot> {
    let s = |name: &'static str, kinds: &[&[u16]]| Slot { name, variant: 1, kinds: kinds.iter().map(|k| k.to_vec()).collect() };
    let q: &[&[u16]] = &[&[], &[T_A], &[T_NS], &[T_NS, T_DS], &[T_NS, T_A]];
    let t: &[&[u16]] = &[&[], &[T_A], &[T_NS], &[T_NS, T_DS], &[T_NS, T_A], &[T_DS], &[T_DNAME], &[T_SOA]];
    let below = if quick { q } else { t };
    vec![
        s("a.z.", &[&[], &[T_A]]),
        s("c.z.", &[&[], &[T_NS], &[T_NS, T_DS], &[T_NS, T_A]]),
        s("a.c.z.", below),
        s("x.a.c.z.", below),
        s("g.c.z.", below),
        s("z.c.z.", below),
        s("d.z.", &[&[], &[T_A], &[T_NS]]),
        s("g.d.z.", &[&[], &[T_A]]),
    ]
}

/// Probe names of the sweep in addition to the slot names, their ancestors
/// and wildcard children: beside the cut (before it, between its subtree and
/// the next name, after everything) and below it (before / between / after /
/// under the names that exist there).
const BC_PROBES: [&str; 14] = ["0.z.", "b.z.", "cc.z.", "e.z.", "0.c.z.", "b.c.z.", "y.a.c.z.", "x.x.a.c.z.", "x.g.c.z.", "x.z.c.z.", "zz.c.z.", "x.d.z.", "x.g.d.z.", "x.a.z."];

fn bc_seeds() -> Vec<Labels> {
    let mut seeds: Vec<Labels> = bc_slots(false).iter().map(|s| parse_name(s.name)).collect();
    seeds.extend(BC_PROBES.iter().map(|s| parse_name(s)));
    seeds
}

fn build_universe_bc() -> Universe {
    Universe::build(&parse_name(APEX), &bc_seeds(), param_menu())
}

/// NSEC3 configurations of the below-the-cut sweep.  Quick: the RFC 9276
/// parameters without opt-out, with opt-out + exclusion, with opt-out
/// without exclusion, and (AB, 5) without opt-out (another hash order); the
/// refs / Vec<u8> routes add (AB, 1) opt-out + exclusion.  Thorough: every
/// (salt, iterations) of the menu x the three opt-out modes.
fn bc_nsec3_configs(quick: bool) -> Vec<N3Cfg> {
    let mut v = Vec::new();
    for (salt, it) in param_menu() {
        for (opt_out, exclude) in [(false, true), (true, true), (true, false)] {
            let keep = !quick || (salt.is_empty() && it == 0) || (salt.len() == 1 && it == 5 && !opt_out);
            if keep {
                v.push(N3Cfg { salt: salt.clone(), iters: it, opt_out, exclude, dnskey: true, ttl_mode: 0, proute: PRoute::Setter, xflags: 0 });
            }
        }
    }
    v
}

fn build_universe(extra: &[Labels]) -> Universe {
    let mut seeds: Vec<Labels> = slots(false).iter().map(|s| parse_name(s.name)).collect();
    seeds.extend(EXTRA_PROBES.iter().map(|s| parse_name(s)));
    seeds.extend(extra.iter().cloned());
    Universe::build(&parse_name(APEX), &seeds, param_menu())
}

/// `soa_variant` 1: SOA TTL 3600 > MINIMUM 1800; 2: SOA TTL 300 < MINIMUM.
fn apex_recs(soa_variant: u8) -> Vec<(Labels, u16, u8)> {
    vec![(parse_name(APEX), T_SOA, soa_variant), (parse_name(APEX), T_NS, 1)]
}

/// The "extras" switch.  Records outside the zone, one sorting before the
/// apex and two after the whole zone (the generators' doc: records before the
/// apex are skipped, processing stops at the first record outside the zone);
/// plus the in-zone name `_.z.`: 0x5F lies between 'A' and 'a', so it sorts
/// between the two spellings of a.z. unless names are compared
/// case-insensitively as RFC 4034 §6.1 demands.  With extras the apex SOA
/// also has its TTL below its MINIMUM (without: above).
fn ooz_recs() -> Vec<(Labels, u16, u8)> {
    vec![(parse_name("m."), T_A, 1), (parse_name("zz."), T_A, 1), (parse_name("a.zz."), T_TXT, 1), (parse_name("_.z."), T_A, 1)]
}

fn zone_of_index(sl: &[Slot], mut idx: u64) -> (Vec<(Labels, u16, u8)>, Vec<usize>) {
    let mut recs = Vec::new();
    let mut kinds = Vec::new();
    for s in sl {
        let k = (idx % s.kinds.len() as u64) as usize;
        idx /= s.kinds.len() as u64;
        kinds.push(k);
        for (i, t) in s.kinds[k].iter().enumerate() {
            // a type listed twice = two records of one RRset (different RDATA)
            let occ = s.kinds[k][..i].iter().filter(|x| *x == t).count() as u8;
            recs.push((parse_name(s.name), *t, s.variant + 10 * occ));
        }
    }
    let ooz = idx % 2 == 1;
    recs.extend(apex_recs(if ooz { 2 } else { 1 }));
    if ooz {
        recs.extend(ooz_recs());
    }
    kinds.push(ooz as usize);
    (recs, kinds)
}

fn sorted_of(recs: &[(Labels, u16, u8)]) -> Sorted {
    // handed over UNSORTED: SortedRecords establishes the order the
    // generators document as their precondition.
    Sorted::from_iter(recs.iter().map(|(o, t, v)| mk_rec(o, *t, *v)))
}

/// The generators' precondition is established by the library's own
/// `SortedRecords` (src/dnssec/sign/records.rs, an anchor of the property):
/// check with OWN predicates that it is in RFC 4034 §6.1 owner order with
/// ascending types per owner, and that it still holds every distinct record
/// it was given.  Returns the (owner, type) pairs it actually holds - that is
/// the zone the generators see.
fn check_sorted(run: &Run, recs: &[(Labels, u16, u8)], sorted: &Sorted, loc: &mut Local) -> Vec<(Labels, u16)> {
    let ctx = run.ctx;
    let replay = || json!({"mode": "sorted", "records": recs.iter().map(|(o, t, v)| json!([show_name(o), t, v])).collect::<Vec<_>>()});
    let text = || recs.iter().map(|(o, t, _)| format!("{} {}", show_name(o), tname(*t))).collect::<Vec<_>>().join("; ");
    let held: Vec<(Labels, u16)> = sorted.iter().map(|r| (unwire(r.owner().as_slice()).expect("uncompressed owner"), r.rtype().to_int())).collect();
    if run.verbose {
        println!("SortedRecords holds {} of {} records:", held.len(), recs.len());
        for r in sorted.iter() {
            println!("  {} {} {}", r.owner(), r.rtype(), r.data());
        }
    }
    for w in held.windows(2) {
        let o = canon_cmp(&w[0].0, &w[1].0).then(w[0].1.cmp(&w[1].1));
        if o == Ordering::Greater {
            ctx.violation("C13|sorted-records|order|not-canonical", &format!("{} {} sorted before {} {}; input: {}", show_name(&w[0].0), tname(w[0].1), show_name(&w[1].0), tname(w[1].1), text()), replay());
        }
    }
    // every input record is distinct by construction (owner case twin uses
    // different RDATA; one record per (spelling, type))
    let mut want: BTreeMap<(Vec<u8>, u16), i64> = BTreeMap::new();
    for (o, t, _) in recs {
        *want.entry((wire_lc(o), *t)).or_insert(0) += 1;
    }
    let mut have: BTreeMap<(Vec<u8>, u16), i64> = BTreeMap::new();
    for (o, t) in &held {
        *have.entry((wire_lc(o), *t)).or_insert(0) += 1;
    }
    for (k, n) in &want {
        let h = have.get(k).copied().unwrap_or(0);
        if h < *n {
            loc.inc("sorted_records_lost_a_record");
            // cause predicate: another record at the same owner with an
            // unknown-to-the-library type and byte-identical RDATA
            let unknown_twin = matches!(k.1, T_PRIV | T_PRIV2) && recs.iter().any(|(o, t, _)| wire_lc(o) == k.0 && *t != k.1 && matches!(*t, T_PRIV | T_PRIV2));
            let sig = if unknown_twin {
                "C13|sorted-records|dedup|drops-record-of-other-unknown-rtype-with-equal-rdata"
            } else {
                "C13|sorted-records|dedup|drops-distinct-record"
            };
            ctx.violation(
                sig,
                &format!(
                    "SortedRecords holds {h} of {n} distinct {} record(s) at {} (so the RRset is missing from the zone and from the NSEC/NSEC3 type bitmap); input: {}",
                    tname(k.1),
                    show_name(&unwire(&k.0).unwrap()),
                    text()
                ),
                replay(),
            );
        }
    }
    for (k, h) in &have {
        if *h > want.get(k).copied().unwrap_or(0) {
            ctx.violation("C13|sorted-records|extra-record", &format!("SortedRecords holds a {} record at {} it was not given; input: {}", tname(k.1), show_name(&unwire(&k.0).unwrap()), text()), replay());
        }
    }
    held
}

// ------------------------------------------------------ type-axis sweep

/// Boundary menu of RR type numbers for the bitmap TYPE axis.
fn type_menu() -> Vec<u16> {
    let mut m: Vec<u16> = (1..=64).collect();
    m.extend([99, 127, 128, 129]);
    m.extend(249..=258); // TKEY TSIG IXFR AXFR MAILB MAILA ANY URI CAA AVC
    m.extend([0x7FFF, 0x8000, 0x8001, 32770]);
    m.extend([65279, 65280, 65281, 65534, 65535]);
    // first / last type of several windows
    for k in [1u16, 2, 127, 128, 254, 255] {
        m.push(k * 256);
        m.push(k * 256 + 255);
    }
    m.sort();
    m.dedup();
    m
}

/// Zones `z. SOA NS; a.z. A; w.z. A; c.z. NS; g.c.z. A` plus one RRset (or
/// two RRsets) of menu types at ONE of: the plain owner w.z., the delegation
/// owner c.z., the apex.  Records of types the harness has no typed builder
/// for are stored as `ZoneRecordData::Unknown`.
fn sweep_zones() -> Vec<Vec<(Labels, u16, u8)>> {
    let menu = type_menu();
    let mut sets: Vec<Vec<u16>> = menu.iter().map(|t| vec![*t]).collect();
    for (i, a) in menu.iter().enumerate() {
        for b in &menu[i + 1..] {
            sets.push(vec![*a, *b]);
        }
    }
    let places = ["w.z.", "c.z.", "z."];
    let mut out = Vec::new();
    for place in places {
        for set in &sets {
            // a second SOA at the apex is not a zone (documented error)
            if place == "z." && set.contains(&T_SOA) {
                continue;
            }
            let mut recs = apex_recs(1);
            recs.push((parse_name("a.z."), T_A, 1));
            recs.push((parse_name("c.z."), T_NS, 1));
            recs.push((parse_name("g.c.z."), T_A, 1));
            if place != "w.z." {
                recs.push((parse_name("w.z."), T_A, 1));
            }
            for t in set {
                // variant 21: distinct RDATA from the base records (second NS
                // at the apex / at c.z. joins the existing NS RRset)
                recs.push((parse_name(place), *t, 21));
            }
            out.push(recs);
        }
    }
    out
}

fn zone_is_nontrivial(z: &Zone) -> bool {
    // at least one of: delegation, glue/occluded name, ENT, wildcard owner,
    // case twin present -- and at least two authoritative owners
    let auth = z.cls.iter().filter(|c| matches!(c, Cls::Owner | Cls::Cut)).count();
    let special = z.cls.iter().any(|c| matches!(c, Cls::Cut | Cls::BelowCut | Cls::Ent))
        || z.recs.iter().any(|(o, _, _)| o[0] == b"*" || o[0] == b"A");
    auth >= 2 && special
}

// ------------------------------------- other routes into SortedRecords

fn sorted_v_of(recs: &[(Labels, u16, u8)]) -> SortedV {
    SortedV::from_iter(recs.iter().map(|(o, t, v)| mk_rec_g::<Vec<u8>>(o, *t, *v)))
}

/// (owner octets as stored, type, TTL, RDATA wire) of every record, in order.
fn content<O: AsRef<[u8]>>(recs: &[Record<Name<O>, ZoneRecordData<O, Name<O>>>]) -> Vec<(Vec<u8>, u16, u32, Vec<u8>)> {
    recs.iter()
        .map(|r| {
            let mut rd = Vec::new();
            let _ = r.data().compose_rdata(&mut rd);
            (r.owner().as_slice().to_vec(), r.rtype().to_int(), r.ttl().as_secs(), rd)
        })
        .collect()
}

/// The other ways of arriving at a `SortedRecords` must hold exactly what
/// `from_iter` holds (which check_sorted compares with OWN expectation):
/// `From<Vec<_>>`, `new()` + `insert()` record by record (here in reverse
/// order), a superset shrunk by `remove_all_by_name_class_rtype` /
/// `remove_first_by_name_class_rtype`, `update_data`, `into_inner`, and the
/// `Vec<u8>`-octets instantiation.
fn check_routes(run: &Run, recs: &[(Labels, u16, u8)], sorted: &Sorted, sorted_v: &SortedV, loc: &mut Local) {
    let ctx = run.ctx;
    let replay = |route: &str| json!({"mode": "sorted", "route": route, "records": recs.iter().map(|(o, t, v)| json!([show_name(o), t, v])).collect::<Vec<_>>()});
    let base = content(&sorted[..]);
    let bad = |route: &'static str, what: String| {
        ctx.violation(&format!("C13|sorted-records|route|{route}"), &format!("{what}; input: {}", recs.iter().map(|(o, t, _)| format!("{} {}", show_name(o), tname(*t))).collect::<Vec<_>>().join("; ")), replay(route));
    };
    loc.inc("route_checks");
    if sorted.len() != base.len() || sorted.is_empty() != base.is_empty() || sorted.iter().count() != base.len() {
        bad("len", format!("len() {} / iter().count() {} / deref len {}", sorted.len(), sorted.iter().count(), base.len()));
    }
    // From<Vec<_>>
    match guard(|| Sorted::from(recs.iter().map(|(o, t, v)| mk_rec(o, *t, *v)).collect::<Vec<_>>())) {
        Ok(s) if content(&s[..]) == base => {}
        Ok(_) => bad("from-vec", "SortedRecords::from(Vec) holds different records than from_iter".into()),
        Err(p) => bad("from-vec", format!("panicked: {p}")),
    }
    // new() + insert(), reverse input order; inserting a record twice must be refused
    match guard(|| {
        let mut s = Sorted::default();
        let mut refused_dup = true;
        for (o, t, v) in recs.iter().rev() {
            if s.insert(mk_rec(o, *t, *v)).is_err() {
                return (s, false, true);
            }
        }
        if let Some((o, t, v)) = recs.first() {
            refused_dup = s.insert(mk_rec(o, *t, *v)).is_err();
        }
        (s, refused_dup, false)
    }) {
        Ok((s, refused_dup, refused_new)) => {
            if refused_new {
                bad("insert", "insert() refused a record that was not present".into());
            } else if !refused_dup {
                bad("insert", "insert() accepted a record that was already present".into());
            } else if content(&s.into_inner()) != base {
                bad("insert", "new()+insert() holds different records / order than from_iter".into());
            }
        }
        Err(p) => bad("insert", format!("panicked: {p}")),
    }
    // superset, then removals
    match guard(|| {
        let q = parse_name("q.z.");
        let apex = parse_name(APEX);
        let mut all: Vec<LRec> = recs.iter().map(|(o, t, v)| mk_rec(o, *t, *v)).collect();
        all.push(mk_rec(&q, T_A, 31));
        all.push(mk_rec(&q, T_A, 32));
        all.push(mk_rec(&q, T_TXT, 31));
        all.push(mk_rec(&apex, 100, 31)); // TYPE100 is not in any menu
        let mut s = Sorted::from_iter(all);
        let r1 = s.remove_first_by_name_class_rtype(&lname(&apex), Some(Class::IN), Some(Rtype::from_int(100)));
        let r2 = s.remove_first_by_name_class_rtype(&lname(&apex), Some(Class::IN), Some(Rtype::from_int(100)));
        let r3 = s.remove_all_by_name_class_rtype(&lname(&q), Some(Class::IN), Some(Rtype::A));
        let r4 = s.remove_all_by_name_class_rtype(&lname(&q), None, None);
        let r5 = s.remove_all_by_name_class_rtype(&lname(&q), None, None);
        (s, [r1, r2, r3, r4, r5])
    }) {
        Ok((s, flags)) => {
            if flags != [true, false, true, true, false] {
                bad("remove", format!("remove_* returned {flags:?}, expected [true, false, true, true, false]"));
            } else if content(&s[..]) != base {
                bad("remove", "after removing the added records the collection differs from from_iter of the zone".into());
            }
        }
        Err(p) => bad("remove", format!("panicked: {p}")),
    }
    // update_data on the apex SOA (what a signer does to bump the serial)
    match guard(|| {
        let mut s = sorted_of(recs);
        let apex = lname(&parse_name(APEX));
        let new = mk_rec(&parse_name(APEX), T_SOA, 3);
        let newdata = new.data().clone();
        s.update_data(|rr| rr.rtype() == Rtype::SOA && rr.owner() == &apex, newdata);
        s
    }) {
        Ok(s) => {
            let got = content(&s[..]);
            let mut want = base.clone();
            let apexw = wire(&parse_name(APEX));
            let mut rd = Vec::new();
            let _ = mk_rec(&parse_name(APEX), T_SOA, 3).data().compose_rdata(&mut rd);
            for e in want.iter_mut() {
                if e.1 == T_SOA && e.0.eq_ignore_ascii_case(&apexw) {
                    e.3 = rd.clone();
                }
            }
            if got != want {
                bad("update-data", "update_data changed something other than the RDATA of the matched record".into());
            }
        }
        Err(p) => bad("update-data", format!("panicked: {p}")),
    }
    // Vec<u8> octets
    if content(&sorted_v[..]) != base {
        bad("vec-octets", "SortedRecords over Vec<u8> octets holds different records / order than over Bytes".into());
    }
}

/// `owner_rrs()` (RecordsIter / OwnerRrs / OwnerRrsIter), `rrsets()`
/// (RrsetIter), `find_soa`, `find_apex_rtype`, `is_zone_cut`, `is_in_zone`
/// against OWN grouping of the held records.
fn check_iters(run: &Run, recs: &[(Labels, u16, u8)], sorted: &Sorted, held: &[(Labels, u16)], loc: &mut Local) {
    let (ctx, u) = (run.ctx, run.u);
    let replay = || json!({"mode": "sorted", "route": "iterators", "records": recs.iter().map(|(o, t, v)| json!([show_name(o), t, v])).collect::<Vec<_>>()});
    let text = || recs.iter().map(|(o, t, _)| format!("{} {}", show_name(o), tname(*t))).collect::<Vec<_>>().join("; ");
    loc.inc("iterator_checks");
    // own grouping
    let mut rrsets: Vec<(Vec<u8>, u16, usize)> = Vec::new();
    for (o, t) in held {
        let w = wire_lc(o);
        match rrsets.last_mut() {
            Some(l) if l.0 == w && l.1 == *t => l.2 += 1,
            _ => rrsets.push((w, *t, 1)),
        }
    }
    let mut owners: Vec<(Vec<u8>, usize, usize, bool)> = Vec::new(); // name, records, rrsets, has NS
    for (w, t, n) in &rrsets {
        match owners.last_mut() {
            Some(l) if l.0 == *w => {
                l.1 += n;
                l.2 += 1;
                l.3 |= *t == T_NS;
            }
            _ => owners.push((w.clone(), *n, 1, *t == T_NS)),
        }
    }
    let apexw = wire(&u.apex_labels);
    let apex = &run.apex;
    let r = guard(|| {
        let mut bad: Vec<String> = Vec::new();
        let got: Vec<_> = sorted.owner_rrs().collect();
        if got.len() != owners.len() {
            bad.push(format!("owner-groups|{} groups, expected {}", got.len(), owners.len()));
        } else {
            for (g, w) in got.iter().zip(&owners) {
                let name = g.owner().as_slice().to_ascii_lowercase();
                if name != w.0 || g.records().count() != w.1 || g.rrsets().count() != w.2 || g.class() != Class::IN {
                    bad.push(format!("owner-groups|group {} has {} records in {} rrsets, expected {} {} {}", show_wire(&name), g.records().count(), g.rrsets().count(), show_wire(&w.0), w.1, w.2));
                }
                let labels = unwire(&w.0).unwrap_or_default();
                if g.is_in_zone(apex) != at_or_below(&labels, &u.apex_labels) {
                    bad.push(format!("is_in_zone|{} -> {}", show_wire(&w.0), g.is_in_zone(apex)));
                }
                // documented meaning: owns NS and is not the apex
                if g.is_zone_cut(apex) != (w.3 && w.0 != apexw) {
                    bad.push(format!("is_zone_cut|{} -> {}", show_wire(&w.0), g.is_zone_cut(apex)));
                }
                // the RRsets of the group, in type order
                let mine: Vec<(u16, usize)> = rrsets.iter().filter(|x| x.0 == w.0).map(|x| (x.1, x.2)).collect();
                let theirs: Vec<(u16, usize)> = g.rrsets().map(|s| (s.rtype().to_int(), s.len())).collect();
                if mine != theirs {
                    bad.push(format!("owner-rrsets|{}: {:?}, expected {:?}", show_wire(&w.0), theirs, mine));
                }
            }
        }
        let theirs: Vec<(Vec<u8>, u16, usize)> = sorted
            .rrsets()
            .map(|s| {
                let ok = s.iter().count() == s.len() && s.first().rtype() == s.rtype() && s.class() == Class::IN && s.iter().all(|r| r.ttl() == s.ttl());
                (s.owner().as_slice().to_ascii_lowercase(), s.rtype().to_int(), if ok { s.len() } else { usize::MAX })
            })
            .collect();
        if theirs != rrsets {
            bad.push("rrsets|SortedRecords::rrsets() does not yield the (owner, type) groups in order".into());
        }
        let soa = sorted.find_soa().map(|s| s.owner().as_slice().to_ascii_lowercase());
        let want = rrsets.iter().find(|x| x.1 == T_SOA).map(|x| x.0.clone());
        if soa != want {
            bad.push(format!("find_soa|{:?}", soa.as_deref().map(show_wire)));
        }
        for t in [T_NS, T_SOA, T_TXT, 256, T_DNSKEY] {
            let got = sorted.find_apex_rtype(apex, Rtype::from_int(t)).map(|s| s.len());
            let want = rrsets.iter().find(|x| x.0 == apexw && x.1 == t).map(|x| x.2);
            if got != want {
                bad.push(format!("find_apex_rtype|{} -> {:?}, expected {:?}", tname(t), got, want));
            }
        }
        bad
    });
    match r {
        Ok(bad) => {
            for b in bad {
                let (k, what) = b.split_once('|').unwrap_or(("?", &b));
                ctx.violation(&format!("C13|records-iter|{k}"), &format!("{what}; input: {}", text()), replay());
            }
        }
        Err(p) => {
            ctx.violation(&format!("C13|records-iter|panic|{}", panic_class(&p)), &format!("iterating SortedRecords panicked: {p}; input: {}", text()), replay());
        }
    }
}

// ---------------------------------------------- zone-independent checks

/// NSEC3 hash entry points and salt / owner-hash constructors (every closure
/// name in lower and upper case x the parameter menu), the unsupported
/// algorithm error path, and `RtypeBitmapBuilder` fed in every order.
fn static_checks(ctx: &Ctx, u: &Universe, loc: &mut Local) {
    // ---- hashing
    for (pi, (salt, it)) in u.params.iter().enumerate() {
        let s_bytes = Nsec3Salt::<Bytes>::from_octets(Bytes::from(salt.clone())).expect("salt");
        let s_vec = Nsec3Salt::<Vec<u8>>::from_octets(salt.clone()).expect("salt");
        let s_ref = Nsec3Salt::<&[u8]>::from_octets(salt.as_slice()).expect("salt");
        // other constructors of the same salt
        let text = if salt.is_empty() { "-".to_string() } else { hex(salt) };
        let ctor_ok = guard(|| {
            let a = text.parse::<Nsec3Salt<Vec<u8>>>().map(|x| x.as_slice() == salt.as_slice()).unwrap_or(false);
            let b = text.to_uppercase().parse::<Nsec3Salt<Bytes>>().map(|x| x.as_slice() == salt.as_slice()).unwrap_or(false);
            let c = Nsec3Salt::from_bytes(Bytes::from(salt.clone())).map(|x| x.as_slice() == salt.as_slice()).unwrap_or(false);
            let d = Nsec3Salt::from_slice(salt).map(|x| x.as_slice() == salt.as_slice()).unwrap_or(false);
            let e = !salt.is_empty() || Nsec3Salt::<Vec<u8>>::empty().as_slice().is_empty();
            let f = format!("{s_vec}").eq_ignore_ascii_case(&text);
            a && b && c && d && e && f
        });
        loc.evals += 1;
        if ctor_ok != Ok(true) {
            ctx.violation("C13|nsec3|salt|constructors-disagree", &format!("Nsec3Salt from_str / from_bytes / from_slice / empty / Display of salt {} disagree: {ctor_ok:?}", hex(salt)), json!({"mode": "static", "salt": hex(salt)}));
        }
        for (id, n) in u.names.iter().enumerate() {
            let want = u.hashes[pi][id];
            let upper: Labels = n.iter().map(|l| l.to_ascii_uppercase()).collect();
            for labels in [n.clone(), upper] {
                loc.evals += 1;
                loc.inc("static_hash_cases");
                let nb: LName = gname(&labels);
                let nv: VName = gname(&labels);
                let r = guard(|| {
                    let mut bad = Vec::new();
                    match nsec3_hash::<_, _, Vec<u8>>(&nb, Nsec3HashAlgorithm::SHA1, *it, &s_bytes) {
                        Ok(h) if h.as_slice() == want => {}
                        _ => bad.push("nsec3_hash<&Name<Bytes>,Bytes,Vec<u8>>"),
                    }
                    match nsec3_hash::<_, _, bytes::BytesMut>(nv.clone(), Nsec3HashAlgorithm::SHA1, *it, &s_vec) {
                        Ok(h) if h.as_slice() == want => {}
                        _ => bad.push("nsec3_hash<Name<Vec<u8>>,Vec<u8>,BytesMut>"),
                    }
                    match nsec3_hash::<_, _, Vec<u8>>(&nv, Nsec3HashAlgorithm::SHA1, *it, &s_ref) {
                        Ok(h) if h.as_slice() == want => {}
                        _ => bad.push("nsec3_hash<&Name<Vec<u8>>,&[u8],Vec<u8>>"),
                    }
                    if salt.is_empty() && *it == 0 {
                        match nsec3_default_hash::<_, Vec<u8>>(&nb) {
                            Ok(h) if h.as_slice() == want => {}
                            _ => bad.push("nsec3_default_hash"),
                        }
                    }
                    // documented error path: only SHA-1 is supported
                    for alg in [0u8, 2, 255] {
                        match nsec3_hash::<_, _, Vec<u8>>(&nb, Nsec3HashAlgorithm::from_int(alg), *it, &s_bytes) {
                            Err(Nsec3HashError::UnsupportedAlgorithm) => {}
                            _ => bad.push("nsec3_hash-accepts-unsupported-algorithm"),
                        }
                    }
                    // owner hash value <-> presentation form
                    let own = b32hex_encode(&want);
                    match OwnerHash::<Vec<u8>>::from_octets(want.to_vec()) {
                        Ok(h) if format!("{h}").eq_ignore_ascii_case(&own) && own.parse::<OwnerHash<Bytes>>().map(|x| x.as_slice() == want).unwrap_or(false) && OwnerHash::from_bytes(Bytes::from(want.to_vec())).is_ok() && OwnerHash::from_slice(&want).is_ok() => {}
                        _ => bad.push("OwnerHash-presentation"),
                    }
                    bad
                });
                let replay = json!({"mode": "static", "name": show_name(&labels), "salt": hex(salt), "iterations": it});
                match r {
                    Ok(bad) => {
                        for b in bad {
                            ctx.violation(&format!("C13|nsec3|hash-api|{b}"), &format!("{b}: result for {} salt {} iterations {} differs from own RFC 5155 §5 hash {}", show_name(&labels), hex(salt), it, b32hex_encode(&want)), replay.clone());
                        }
                    }
                    Err(p) => {
                        ctx.violation(&format!("C13|nsec3|hash-api|panic|{}", panic_class(&p)), &format!("hashing {} panicked: {p}", show_name(&labels)), replay);
                    }
                }
            }
        }
    }
    // ---- generate_nsec3s with a hash algorithm other than SHA-1 must refuse
    {
        let recs = apex_recs(1);
        let sorted = sorted_of(&recs);
        let apex = lname(&parse_name(APEX));
        for alg in [0u8, 2, 255] {
            loc.evals += 1;
            let params = Nsec3param::new(Nsec3HashAlgorithm::from_int(alg), 0, 0, Nsec3Salt::<Bytes>::from_octets(Bytes::new()).expect("salt"));
            let cfg = GenerateNsec3Config::<Bytes, DefaultSorter>::new(params);
            let r = guard(|| generate_nsec3s(&apex, sorted.owner_rrs(), &cfg).map(|o| o.nsec3s.len()));
            let ok = matches!(r, Ok(Err(SigningError::Nsec3HashingError(Nsec3HashError::UnsupportedAlgorithm))));
            loc.inc(if ok { "static_unsupported_algorithm_refused" } else { "static_unsupported_algorithm_not_refused" });
            if !ok {
                ctx.violation("C13|nsec3|config|unsupported-hash-algorithm-not-refused", &format!("generate_nsec3s with hash algorithm {alg} returned {:?} instead of Nsec3HashingError(UnsupportedAlgorithm)", r.map(|x| x.map_err(|e| format!("{e:?}")))), json!({"mode": "static", "algorithm": alg}));
            }
        }
    }
    // ---- RtypeBitmapBuilder: every ordered pair (incl. a type twice) of the
    //      menu, every ordered triple of the window-boundary sub-menu, through
    //      each constructor
    let menu = type_menu();
    let sub: Vec<u16> = menu.iter().copied().filter(|t| matches!(t & 0xff, 0 | 1 | 0xfe | 0xff) || matches!(*t, 46 | 47 | 51 | 127 | 128)).collect();
    let mut seqs: Vec<Vec<u16>> = Vec::new();
    for a in &menu {
        for b in &menu {
            seqs.push(vec![*a, *b]);
        }
    }
    for a in &sub {
        for b in &sub {
            for c in &sub {
                if a != b && b != c && a != c {
                    seqs.push(vec![*a, *b, *c]);
                }
            }
        }
    }
    let bad: Vec<(Vec<u16>, &'static str)> = seqs
        .par_iter()
        .filter_map(|seq| {
            let want = bitmap_encode(seq);
            let r = guard(|| {
                let mut b1 = RtypeBitmapBuilder::new_vec();
                let mut b2 = RtypeBitmap::<Bytes>::builder();
                let mut b3: RtypeBitmapBuilder<Vec<u8>> = Default::default();
                let mut b4 = RtypeBitmapBuilder::with_builder(Vec::<u8>::new());
                for t in seq {
                    let t = Rtype::from_int(*t);
                    if b1.add(t).is_err() || b2.add(t).is_err() || b3.add(t).is_err() || b4.add(t).is_err() {
                        return Some("add-failed");
                    }
                }
                let (m1, m2, m3, m4) = (b1.finalize(), b2.finalize(), b3.finalize(), b4.finalize());
                if m1.as_slice() != want || m2.as_slice() != want || m3.as_slice() != want || m4.as_slice() != want {
                    return Some("finalize-octets-differ-from-rfc4034-encoding");
                }
                let mut api = Vec::new();
                bitmap_api(&m2, true, &mut api);
                api.first().copied()
            });
            match r {
                Ok(None) => None,
                Ok(Some(k)) => Some((seq.clone(), k)),
                Err(_) => Some((seq.clone(), "panic")),
            }
        })
        .collect();
    loc.evals += seqs.len() as u64;
    loc.add("static_bitmap_builder_sequences", seqs.len() as u64);
    for (seq, k) in bad {
        ctx.violation(&format!("C13|bitmap-builder|{k}"), &format!("RtypeBitmapBuilder fed {} in this order: {k}", tnames(&seq)), json!({"mode": "static", "types": seq}));
    }
    static_param_checks(ctx, loc);
}

/// NSEC3PARAM / NSEC3 record data as VALUE CARRIERS: whatever route the four
/// parameter fields take into the object (constructor, wire parser, zonefile
/// scanner, octets conversion, clone, Display -> scanner), the getters and
/// the composed RDATA give back exactly what was put in; `set_opt_out_flag`
/// sets bit 0 and nothing else; `Default` is (SHA-1, 0, 0, empty).
fn static_param_checks(ctx: &Ctx, loc: &mut Local) {
    let quick = ctx.quick();
    let algs: &[u8] = if quick { &[1, 2] } else { &[0, 1, 2, 255] };
    let flag_menu: &[u8] = if quick { &[0, 1, 2, 0x80, 0x81, 0xFF] } else { &[0, 1, 2, 3, 0x40, 0x80, 0x81, 0xFE, 0xFF] };
    let iter_menu: &[u16] = if quick { &[0, 1, 5, 0x0100, 65535] } else { &[0, 1, 5, 150, 255, 0x0100, 0x0101, 32768, 65535] };
    let salts: Vec<Vec<u8>> = vec![vec![], vec![0xAB], vec![0x00], (1..=8).collect(), (0..255).map(|i| (i as u8).wrapping_mul(7)).collect()];
    for &alg in algs {
        for &flags in flag_menu {
            for &iters in iter_menu {
                for salt in &salts {
                    loc.evals += 1;
                    loc.inc("static_param_value_cases");
                    let replay = json!({"mode": "static", "nsec3param": {"alg": alg, "flags": flags, "iterations": iters, "salt": hex(salt)}});
                    let r = guard(|| {
                        let mut bad: Vec<(&'static str, &'static str)> = Vec::new();
                        let mut chk = |route: &'static str, p: Result<Nsec3param<Vec<u8>>, String>| match p {
                            Ok(p) => {
                                for w in params_facts_diff(&params_facts(&p), alg, flags, iters, salt) {
                                    bad.push((route, w));
                                }
                                Some(p)
                            }
                            Err(_) => {
                                bad.push((route, "refused"));
                                None
                            }
                        };
                        let h = Nsec3HashAlgorithm::from_int(alg);
                        let sv = || Nsec3Salt::<Vec<u8>>::from_octets(salt.clone()).expect("salt");
                        let base = chk("new", Ok(Nsec3param::new(h, flags, iters, sv())));
                        chk("new<Bytes>+octets-conversion", Nsec3param::new(h, flags, iters, Nsec3Salt::<Bytes>::from_octets(Bytes::from(salt.clone())).expect("salt")).try_octets_into().map_err(|_| String::new()));
                        chk("new<&[u8]>+octets-conversion", Nsec3param::new(h, flags, iters, Nsec3Salt::<&[u8]>::from_octets(salt.as_slice()).expect("salt")).try_octets_into().map_err(|_| String::new()));
                        let parsed = chk("parse(wire)", param_from_wire(&param_wire(alg, flags, iters, salt)));
                        let scanned = chk("zonefile-scan(text)", param_from_text(&param_text(alg, flags, iters, salt)));
                        if let Some(b) = &base {
                            chk("clone", Ok(b.clone()));
                            // what the library prints must scan back to the same values
                            chk("zonefile-scan(Display)", param_from_text(&format!("{b}")));
                            // the setter: bit 0 set, nothing else touched
                            let mut m = b.clone();
                            m.set_opt_out_flag();
                            for w in params_facts_diff(&params_facts(&m), alg, flags | 1, iters, salt) {
                                bad.push(("new+set_opt_out_flag", w));
                            }
                            // equality is equality of the four fields
                            for (route, o) in [("parse(wire)", &parsed), ("zonefile-scan(text)", &scanned)] {
                                if let Some(o) = o {
                                    if o != b {
                                        bad.push((route, "not-equal-to-new()-of-the-same-values"));
                                    }
                                }
                            }
                            let other = Nsec3param::new(h, flags ^ 1, iters, sv());
                            if other == *b {
                                bad.push(("new", "objects-differing-in-the-opt-out-bit-compare-equal"));
                            }
                        }
                        // the same four fields at the head of NSEC3 record data
                        let next = OwnerHash::<Vec<u8>>::from_octets(vec![0x11; 20]).expect("hash");
                        let types = RtypeBitmap::<Vec<u8>>::from_octets(bitmap_encode(&[T_A, T_RRSIG])).expect("bitmap");
                        let n3 = Nsec3::new(h, flags, iters, sv(), next, types);
                        let mut want = param_wire(alg, flags, iters, salt);
                        want.push(20);
                        want.extend_from_slice(&[0x11; 20]);
                        want.extend_from_slice(&bitmap_encode(&[T_A, T_RRSIG]));
                        let mut out = Vec::new();
                        let composed = n3.compose_rdata(&mut out).is_ok() && out == want;
                        if n3.hash_algorithm().to_int() != alg || n3.flags() != flags || n3.opt_out() != (flags & 1 == 1) || n3.iterations() != iters || n3.salt().as_slice() != salt.as_slice() {
                            bad.push(("Nsec3::new", "getter-differs-from-input"));
                        }
                        if !composed {
                            bad.push(("Nsec3::new", "compose_rdata-differs-from-rfc5155-wire-format-of-input"));
                        }
                        match Nsec3::<&[u8]>::parse(&mut Parser::from_ref(want.as_slice())) {
                            Ok(back) if back.flags() == flags && back.opt_out() == (flags & 1 == 1) && back.iterations() == iters && back.hash_algorithm().to_int() == alg && back.salt().as_slice() == salt.as_slice() && back == n3 => {}
                            _ => bad.push(("Nsec3::parse(wire)", "getter-differs-from-input")),
                        }
                        bad
                    });
                    match r {
                        Ok(bad) => {
                            for (route, w) in bad {
                                ctx.violation(&format!("C13|nsec3|params-object|{route}|{w}"), &format!("NSEC3 parameters alg {alg} flags {flags} iterations {iters} salt {} through {route}: {w}", hex(salt)), replay.clone());
                            }
                        }
                        Err(p) => {
                            ctx.violation(&format!("C13|nsec3|params-object|panic|{}", panic_class(&p)), &format!("NSEC3 parameters alg {alg} flags {flags} iterations {iters} salt {}: panicked: {p}", hex(salt)), replay);
                        }
                    }
                }
            }
        }
    }
    // Default: RFC 9276 §3.1 parameters, flags zero
    loc.evals += 1;
    let d = guard(|| (params_facts(&Nsec3param::<Vec<u8>>::default()), params_facts(&Nsec3param::<Bytes>::default()), params_facts(&GenerateNsec3Config::<Bytes, DefaultSorter>::default().params)));
    match d {
        Ok((a, b, c)) => {
            for (route, f) in [("Nsec3param::<Vec<u8>>::default", a), ("Nsec3param::<Bytes>::default", b), ("GenerateNsec3Config::default().params", c)] {
                for w in params_facts_diff(&f, 1, 0, 0, &[]) {
                    ctx.violation(&format!("C13|nsec3|params-object|{route}|{w}"), &format!("{route} is not (SHA-1, flags 0, 0 iterations, empty salt): {w}"), json!({"mode": "static", "nsec3param": "default"}));
                }
            }
        }
        Err(p) => {
            ctx.violation(&format!("C13|nsec3|params-object|panic|{}", panic_class(&p)), &format!("Nsec3param::default panicked: {p}"), json!({"mode": "static", "nsec3param": "default"}));
        }
    }
}

/// The zones of the PARAMETER-ROUTE dimension: full product of what Opt-Out
/// can act on (insecure delegation with / without glue at and below the cut,
/// secure delegation, an empty non-terminal derived only from an insecure
/// delegation or also from an authoritative name) x the extras switch.
fn pr_slots() -> Vec<Slot> {
    let s = |name: &'static str, kinds: &[&[u16]]| Slot { name, variant: 1, kinds: kinds.iter().map(|k| k.to_vec()).collect() };
    vec![
        s("a.z.", &[&[], &[T_A]]),
        s("c.z.", &[&[], &[T_NS], &[T_NS, T_A, T_A]]),
        s("g.c.z.", &[&[], &[T_A]]),
        s("d.z.", &[&[], &[T_NS, T_DS]]),
        s("e.f.z.", &[&[], &[T_A]]),
        s("h.f.z.", &[&[], &[T_A], &[T_NS]]),
    ]
}

/// Every route by which the parameters reach the generator x the three
/// Opt-Out modes x reserved flag bits x two (salt, iterations).
fn pr_configs(quick: bool) -> Vec<N3Cfg> {
    let mut v = Vec::new();
    let xmenu: &[u8] = if quick { &[0, 0x80] } else { &[0, 0x02, 0x80, 0xFE] };
    for (salt, iters) in [(vec![], 0u16), (vec![0xAB], 5)] {
        for proute in PROUTES {
            for &xflags in xmenu {
                if proute == PRoute::DefaultObj && !(salt.is_empty() && xflags == 0) {
                    continue;
                }
                for (opt_out, exclude) in [(false, true), (true, true), (true, false)] {
                    for dnskey in [true, false] {
                        for ttl_mode in [0u8, 2] {
                            // DNSKEY-off / another TTL mode: only where the
                            // route sets them differently (public fields,
                            // default object); thorough: everywhere
                            let plain = dnskey && ttl_mode == 0;
                            if !plain && quick && !(matches!(proute, PRoute::Field | PRoute::DefaultObj) && xflags == 0 && !dnskey && ttl_mode == 2) {
                                continue;
                            }
                            v.push(N3Cfg { salt: salt.clone(), iters, opt_out, exclude, dnskey, ttl_mode, proute, xflags });
                        }
                    }
                }
            }
        }
    }
    v
}

fn run_replay(ctx: &Ctx, path: &str) -> ! {
    let text = std::fs::read_to_string(path).expect("replay file");
    let v: Value = serde_json::from_str(&text).expect("replay json");
    let case = &v["case"];
    let recs: Vec<(Labels, u16, u8)> = case["records"]
        .as_array()
        .expect("records")
        .iter()
        .map(|r| (parse_name(r[0].as_str().unwrap()), r[1].as_u64().unwrap() as u16, r[2].as_u64().unwrap() as u8))
        .collect();
    // superset of both enumeration universes (more probe names never hide a
    // recorded violation)
    let mut extra: Vec<Labels> = recs.iter().map(|r| r.0.clone()).collect();
    extra.extend(bc_seeds());
    let mut u = build_universe(&extra);
    let mut loc = Local::default();
    let n3 = if case["mode"] == "nsec3" {
        let c = &case["cfg"];
        let cfg = N3Cfg {
            salt: unhex(c["salt"].as_str().unwrap()),
            iters: c["iterations"].as_u64().unwrap() as u16,
            opt_out: c["opt_out"].as_bool().unwrap(),
            exclude: c["exclude"].as_bool().unwrap(),
            dnskey: c["dnskey"].as_bool().unwrap(),
            ttl_mode: c["ttl_mode"].as_u64().unwrap() as u8,
            proute: PRoute::parse(c["params_route"].as_str().unwrap_or("")),
            xflags: c["reserved_flags"].as_u64().unwrap_or(0) as u8,
        };
        if !u.params.iter().any(|(s, i)| *s == cfg.salt && *i == cfg.iters) {
            let mut p = param_menu();
            p.push((cfg.salt.clone(), cfg.iters));
            let names = u.names.clone();
            u = Universe::build(&parse_name(APEX), &names, p);
        }
        Some(cfg)
    } else {
        None
    };
    let run = Run { ctx, u: &u, apex: lname(&u.apex_labels), verbose: true };
    if case["mode"] == "static" {
        static_checks(ctx, &u, &mut loc);
        println!("replay: {} violation class(es) in the zone-independent checks", ctx.violation_count());
        ctx.finish(json!({"evaluations": loc.evals.max(1), "distinct_nontrivial": 0, "rule": "replay of the zone-independent checks", "samples": [case.clone()], "exhaustive": false, "counters": loc.map()}), &["replay"]);
    }
    let route = Route::parse(case["route"].as_str().unwrap_or("owned"));
    let built = guard(|| (sorted_of(&recs), sorted_v_of(&recs)));
    let (sorted, sorted_v) = match built {
        Ok(s) => s,
        Err(p) => {
            println!("SortedRecords::from_iter panicked: {p}");
            ctx.violation(&format!("C13|sorted-records|panic|{}", panic_class(&p)), &format!("SortedRecords::from_iter panicked: {p}"), case.clone());
            ctx.finish(json!({"evaluations": 1, "distinct_nontrivial": 0, "rule": "replay of one case", "samples": [case.clone()], "exhaustive": false}), &["replay of a single recorded case"]);
        }
    };
    let eff = check_sorted(&run, &recs, &sorted, &mut loc);
    check_routes(&run, &recs, &sorted, &sorted_v, &mut loc);
    check_iters(&run, &recs, &sorted, &eff, &mut loc);
    let z = Zone::build_eff(&u, recs, &eff);
    let src = Src { sorted: &sorted, sorted_v: Some(&sorted_v) };
    if let Some(cfg) = n3 {
        check_nsec3(&run, &z, &src, route, &N3Run::new(&u, cfg), true, &mut loc);
    } else if case["mode"] == "nsec" {
        check_nsec(&run, &z, &src, route, case["dnskey"].as_bool().unwrap_or(true), true, &mut loc);
    }
    println!("replay: {} violation class(es) on this case", ctx.violation_count());
    ctx.finish(
        json!({"evaluations": loc.evals.max(1), "distinct_nontrivial": 0, "rule": "replay of one case", "samples": [case.clone()], "exhaustive": false, "counters": loc.map()}),
        &["replay of a single recorded case"],
    );
}

/// Everything that is done for one zone: build it through the library,
/// check the container and its iterators, then every generator run.
/// `deep_all`: wire round-trip / presentation checks on every run (else only
/// on the first NSEC and the first NSEC3 configuration).
fn run_zone(run: &Run, recs: Vec<(Labels, u16, u8)>, n3runs: &[N3Run], route_cfg: &N3Run, extra_routes: &[Route], deep_all: bool, loc: &mut Local) -> Option<Zone> {
    run_zone_opt(run, recs, n3runs, route_cfg, extra_routes, deep_all, true, loc)
}

/// `container`: also run the SortedRecords construction-route checks.
#[allow(clippy::too_many_arguments)]
fn run_zone_opt(run: &Run, recs: Vec<(Labels, u16, u8)>, n3runs: &[N3Run], route_cfg: &N3Run, extra_routes: &[Route], deep_all: bool, container: bool, loc: &mut Local) -> Option<Zone> {
    let (ctx, u) = (run.ctx, run.u);
    let (sorted, sorted_v) = match guard(|| (sorted_of(&recs), sorted_v_of(&recs))) {
        Ok(s) => s,
        Err(p) => {
            ctx.violation(&format!("C13|sorted-records|panic|{}", panic_class(&p)), &format!("SortedRecords::from_iter panicked: {p}"), json!({"mode": "sorted", "records": recs.iter().map(|(o, t, v)| json!([show_name(o), t, v])).collect::<Vec<_>>()}));
            return None;
        }
    };
    let eff = check_sorted(run, &recs, &sorted, loc);
    if container {
        check_routes(run, &recs, &sorted, &sorted_v, loc);
    }
    check_iters(run, &recs, &sorted, &eff, loc);
    let z = Zone::build_eff(u, recs, &eff);
    let src = Src { sorted: &sorted, sorted_v: Some(&sorted_v) };
    for dnskey in [true, false] {
        check_nsec(run, &z, &src, Route::Owned, dnskey, deep_all || dnskey, loc);
    }
    for (i, n3) in n3runs.iter().enumerate() {
        check_nsec3(run, &z, &src, Route::Owned, n3, deep_all || i == 0, loc);
    }
    for r in extra_routes {
        loc.inc("route_generator_runs");
        check_nsec(run, &z, &src, *r, true, deep_all, loc);
        check_nsec3(run, &z, &src, *r, route_cfg, deep_all, loc);
    }
    Some(z)
}

fn main() {
    let ctx = Ctx::new("C13", "exploration");
    if let Some(p) = ctx.replay.clone() {
        run_replay(&ctx, &p);
    }
    let quick = ctx.quick();
    let u = build_universe(&[]);
    let sl = slots(quick);
    let n3runs: Vec<N3Run> = nsec3_configs(quick).into_iter().map(|c| N3Run::new(&u, c)).collect();
    let nzones: u64 = sl.iter().map(|s| s.kinds.len() as u64).product::<u64>() * 2;
    let stats = Stats::new();
    let total = Mutex::new(Local::default());
    let shapes: Mutex<BTreeSet<u64>> = Mutex::new(BTreeSet::new());
    let wd = Watchdog::start(ctx.clone(), Duration::from_secs(60), |_d| "C13|hang|generator-did-not-terminate".to_string());
    let f_id = u.id_of(&parse_name("f.z.")).unwrap();
    // configuration used for the extra routes (refs / Vec<u8> octets)
    // (its parameters come from Nsec3param::new with the Opt-Out bit in the
    // flags argument, not from with_opt_out())
    let mut pr_loc = Local::default();
    let route_cfg = N3Run::checked(&ctx, &u, N3Cfg { salt: vec![0xAB], iters: 1, opt_out: true, exclude: true, dnskey: true, ttl_mode: 2, proute: PRoute::NewFlags, xflags: 0 }, &mut pr_loc);
    {
        let mut loc = Local::default();
        static_checks(&ctx, &u, &mut loc);
        let mut t = total.lock().unwrap();
        t.evals += loc.evals;
        for (k, v) in &loc.c {
            t.add(k, *v);
        }
    }

    const CHUNK: u64 = 128;
    let nchunks = nzones.div_ceil(CHUNK);
    (0..nchunks).into_par_iter().for_each(|ch| {
        let mut loc = Local::default();
        let run = Run { ctx: &ctx, u: &u, apex: lname(&u.apex_labels), verbose: false };
        for zi in ch * CHUNK..((ch + 1) * CHUNK).min(nzones) {
            let (recs, _kinds) = zone_of_index(&sl, zi);
            wd.enter(|| json!({"zone_index": zi, "records": recs.iter().map(|(o, t, v)| json!([show_name(o), t, v])).collect::<Vec<_>>()}));
            let Some(z) = run_zone(&run, recs, &n3runs, &route_cfg, &[Route::Refs, Route::VecOcts], false, &mut loc) else {
                wd.leave();
                continue;
            };
            loc.inc("zones");
            // shape histogram of the enumerated zones (vacuity exposure)
            let ents = z.cls.iter().filter(|c| **c == Cls::Ent).count();
            let cuts = z.cls.iter().filter(|c| **c == Cls::Cut).count();
            let below = (0..u.names.len()).filter(|&i| z.cls[i] == Cls::BelowCut && !z.types[i].is_empty()).count();
            if ents > 0 {
                loc.inc("zones_with_ent");
            }
            if ents > 1 {
                loc.inc("zones_with_two_level_ent");
            }
            if cuts > 0 {
                loc.inc("zones_with_delegation");
            }
            if below > 0 {
                loc.inc("zones_with_glue_or_occluded");
            }
            // glue / occluded data as the canonically last in-zone name
            if let Some(last) = (0..u.names.len()).rev().find(|&i| !z.types[i].is_empty()) {
                if z.cls[last] == Cls::BelowCut {
                    loc.inc("zones_ending_in_glue_or_occluded");
                }
                if last == u.apex {
                    loc.inc("zones_apex_only");
                }
            }
            if z.cls[f_id] == Cls::Ent && (0..u.names.len()).filter(|&i| u.parent[i] == Some(f_id) && matches!(z.cls[i], Cls::Owner | Cls::Cut | Cls::Ent)).count() >= 2 {
                loc.inc("zones_with_ent_shared_by_two_branches");
            }
            let ent_below_owner = (0..u.names.len()).any(|i| {
                if z.cls[i] != Cls::Ent {
                    return false;
                }
                let mut p = u.parent[i];
                while let Some(q) = p {
                    if z.cls[q] != Cls::Ent {
                        return q != u.apex;
                    }
                    p = u.parent[q];
                }
                false
            });
            if ent_below_owner {
                loc.inc("zones_with_ent_whose_nearest_nonempty_ancestor_is_not_the_apex");
            }
            if (0..u.names.len()).any(|i| z.cls[i] == Cls::Cut && z.recs.iter().filter(|(o, t, _)| *t == T_A && u.id_of(o) == Some(i)).count() >= 2) {
                loc.inc("zones_with_delegation_owning_two_A_records_before_NS");
            }
            if z.types.iter().any(|t| t.iter().any(|x| *x >= 256)) {
                loc.inc("zones_with_multi_window_bitmap");
            }
            let nontrivial = zone_is_nontrivial(&z);
            let zkey = {
                let mut k = Vec::new();
                for (o, t, v) in &z.recs {
                    k.extend_from_slice(&wire(o));
                    k.extend_from_slice(&t.to_le_bytes());
                    k.push(*v);
                }
                k
            };
            if nontrivial {
                for mode in [0u8, 3] {
                    let mut k = zkey.clone();
                    k.push(mode);
                    loc.distinct.push(fnv(&k));
                }
            }
            wd.leave();
        }
        stats.distinct_many(loc.distinct.drain(..));
        shapes.lock().unwrap().extend(loc.shapes.drain(..));
        let mut t = total.lock().unwrap();
        t.evals += loc.evals;
        t.probes += loc.probes;
        for (k, v) in &loc.c {
            t.add(k, *v);
        }
        for i in 0..32 {
            t.nsec_len[i] += loc.nsec_len[i];
            t.nsec3_len[i] += loc.nsec3_len[i];
        }
    });

    // ---- TYPE axis of the bitmaps: every menu type, singly and in pairs,
    //      at a plain owner, at a delegation owner and at the apex
    let sweep = sweep_zones();
    let sweep_cfgs: Vec<N3Run> = [
        N3Cfg { salt: vec![], iters: 0, opt_out: false, exclude: true, dnskey: true, ttl_mode: 0, proute: PRoute::Setter, xflags: 0 },
        N3Cfg { salt: vec![], iters: 0, opt_out: true, exclude: true, dnskey: false, ttl_mode: 0, proute: PRoute::Text, xflags: 0 },
        N3Cfg { salt: vec![0xAB], iters: 5, opt_out: true, exclude: false, dnskey: true, ttl_mode: 0, proute: PRoute::SetFlag, xflags: 0 },
    ]
    .into_iter()
    .map(|c| N3Run::checked(&ctx, &u, c, &mut pr_loc))
    .collect();
    sweep.par_chunks(64).for_each(|chunk| {
        let mut loc = Local::default();
        let run = Run { ctx: &ctx, u: &u, apex: lname(&u.apex_labels), verbose: false };
        for recs in chunk {
            let recs = recs.clone();
            wd.enter(|| json!({"type_sweep": true, "records": recs.iter().map(|(o, t, v)| json!([show_name(o), t, v])).collect::<Vec<_>>()}));
            let Some(z) = run_zone(&run, recs, &sweep_cfgs, &sweep_cfgs[2], &[Route::Refs, Route::Wrapped, Route::VecOcts], true, &mut loc) else {
                wd.leave();
                continue;
            };
            loc.inc("type_sweep_zones");
            let mut k = Vec::new();
            for (o, t, v) in &z.recs {
                k.extend_from_slice(&wire(o));
                k.extend_from_slice(&t.to_le_bytes());
                k.push(*v);
            }
            for mode in [0u8, 3] {
                let mut kk = k.clone();
                kk.push(mode);
                loc.distinct.push(fnv(&kk));
            }
            wd.leave();
        }
        stats.distinct_many(loc.distinct.drain(..));
        shapes.lock().unwrap().extend(loc.shapes.drain(..));
        let mut t = total.lock().unwrap();
        t.evals += loc.evals;
        t.probes += loc.probes;
        for (k, v) in &loc.c {
            t.add(k, *v);
        }
        for i in 0..32 {
            t.nsec_len[i] += loc.nsec_len[i];
            t.nsec3_len[i] += loc.nsec3_len[i];
        }
    });

    // ---- what sits BELOW a zone cut: every assignment of below-kinds to
    //      three sibling names and one deeper name under a delegation point
    //      of every cut kind, x what precedes / follows the subtree
    let u_bc = build_universe_bc();
    let bsl = bc_slots(quick);
    let bc_runs: Vec<N3Run> = bc_nsec3_configs(quick).into_iter().map(|c| N3Run::new(&u_bc, c)).collect();
    let bc_route_cfg = N3Run::checked(&ctx, &u_bc, N3Cfg { salt: vec![0xAB], iters: 1, opt_out: true, exclude: true, dnskey: true, ttl_mode: 2, proute: PRoute::Wire, xflags: 0 }, &mut pr_loc);
    let bc_zones: u64 = bsl.iter().map(|s| s.kinds.len() as u64).product();
    let c_id = u_bc.id_of(&parse_name("c.z.")).unwrap();
    (0..bc_zones.div_ceil(CHUNK)).into_par_iter().for_each(|ch| {
        let mut loc = Local::default();
        let u = &u_bc;
        let run = Run { ctx: &ctx, u, apex: lname(&u.apex_labels), verbose: false };
        for zi in ch * CHUNK..((ch + 1) * CHUNK).min(bc_zones) {
            let (recs, _kinds) = zone_of_index(&bsl, zi);
            wd.enter(|| json!({"below_cut_zone_index": zi, "records": recs.iter().map(|(o, t, v)| json!([show_name(o), t, v])).collect::<Vec<_>>()}));
            let Some(z) = run_zone_opt(&run, recs, &bc_runs, &bc_route_cfg, &[Route::Refs, Route::VecOcts], false, false, &mut loc) else {
                wd.leave();
                continue;
            };
            loc.inc("below_cut_zones");
            // shape histogram (vacuity exposure)
            let n = u.names.len();
            match z.cls[c_id] {
                Cls::Cut => loc.inc(if z.has(c_id, T_DS) {
                    "below_cut_zones_top_cut_c_secure(NS+DS)"
                } else if z.has(c_id, T_A) {
                    "below_cut_zones_top_cut_c_with_glue_at_the_cut_owner(NS+A)"
                } else {
                    "below_cut_zones_top_cut_c_insecure(NS)"
                }),
                _ => loc.inc("below_cut_zones_c_without_NS(top-most_cut_one_level_down_or_none)"),
            }
            let cuts: Vec<usize> = (0..n).filter(|&i| z.cls[i] == Cls::Cut).collect();
            let (mut nested, mut followed, mut deep2, mut nested_below_nested) = (false, false, false, false);
            for &t in &cuts {
                let l = z.data_below(u, t);
                for (k, &i) in l.iter().enumerate() {
                    if u.names[i].len() >= u.names[t].len() + 2 {
                        deep2 = true;
                    }
                    if !z.has(i, T_NS) {
                        continue;
                    }
                    nested = true;
                    loc.inc(if l.len() == 1 {
                        "below_cut_occluded_NS_owner_is_the_only_name_below_the_cut"
                    } else if k == 0 {
                        "below_cut_occluded_NS_owner_canonically_first_below_the_cut"
                    } else if k + 1 == l.len() {
                        "below_cut_occluded_NS_owner_canonically_last_below_the_cut"
                    } else {
                        "below_cut_occluded_NS_owner_in_the_middle_below_the_cut"
                    });
                    if l[k + 1..].iter().any(|&m| !at_or_below(&u.names[m], &u.names[i])) {
                        followed = true;
                    }
                    if l[k + 1..].iter().any(|&m| at_or_below(&u.names[m], &u.names[i]) && z.has(m, T_NS)) {
                        nested_below_nested = true;
                    }
                }
            }
            if nested {
                loc.inc("below_cut_zones_with_occluded_NS_owner_below_a_cut");
            }
            if followed {
                loc.inc("below_cut_zones_with_occluded_NS_owner_followed_by_a_name_below_the_same_cut_but_not_below_it");
            }
            if nested_below_nested {
                loc.inc("below_cut_zones_with_three_NS_levels");
            }
            if deep2 {
                loc.inc("below_cut_zones_with_name_two_labels_below_the_cut");
            }
            if (0..n).any(|i| z.cls[i] == Cls::BelowCut && z.has(i, T_DS)) {
                loc.inc("below_cut_zones_with_DS_below_a_cut");
            }
            if (0..n).any(|i| z.cls[i] == Cls::BelowCut && (z.has(i, T_SOA) || z.has(i, T_DNAME))) {
                loc.inc("below_cut_zones_with_SOA_or_DNAME_below_a_cut");
            }
            if cuts.len() >= 2 {
                loc.inc("below_cut_zones_with_two_or_more_top_most_cuts");
            }
            if let Some(last) = (0..n).rev().find(|&i| !z.types[i].is_empty()) {
                if z.cls[last] == Cls::BelowCut {
                    loc.inc("below_cut_zones_ending_in_a_name_below_a_cut");
                }
            }
            if zone_is_nontrivial(&z) {
                let mut k = vec![0xbc];
                for (o, t, v) in &z.recs {
                    k.extend_from_slice(&wire(o));
                    k.extend_from_slice(&t.to_le_bytes());
                    k.push(*v);
                }
                for mode in [0u8, 3] {
                    let mut kk = k.clone();
                    kk.push(mode);
                    loc.distinct.push(fnv(&kk));
                }
            }
            wd.leave();
        }
        stats.distinct_many(loc.distinct.drain(..));
        shapes.lock().unwrap().extend(loc.shapes.drain(..));
        let mut t = total.lock().unwrap();
        t.evals += loc.evals;
        t.probes += loc.probes;
        for (k, v) in &loc.c {
            t.add(k, *v);
        }
        for i in 0..32 {
            t.nsec_len[i] += loc.nsec_len[i];
            t.nsec3_len[i] += loc.nsec3_len[i];
        }
    });

    // ---- PARAMETER ROUTES: every way the Nsec3param inside the generator
    //      configuration can come into being x Opt-Out modes x reserved
    //      flag bits, on the full product of what Opt-Out acts on; the
    //      oracle works from the REQUESTED values only
    let psl = pr_slots();
    let pr_runs: Vec<N3Run> = pr_configs(quick).into_iter().map(|c| N3Run::checked(&ctx, &u, c, &mut pr_loc)).collect();
    let pr_zones: u64 = psl.iter().map(|s| s.kinds.len() as u64).product::<u64>() * 2;
    (0..pr_zones).into_par_iter().for_each(|zi| {
        let mut loc = Local::default();
        let run = Run { ctx: &ctx, u: &u, apex: lname(&u.apex_labels), verbose: false };
        let (recs, _kinds) = zone_of_index(&psl, zi);
        wd.enter(|| json!({"params_route_zone_index": zi, "records": recs.iter().map(|(o, t, v)| json!([show_name(o), t, v])).collect::<Vec<_>>()}));
        if let Some(z) = run_zone_opt(&run, recs, &pr_runs, &pr_runs[0], &[], true, false, &mut loc) {
            loc.inc("params_route_zones");
            loc.add("params_route_generator_runs", pr_runs.len() as u64);
            if (0..u.names.len()).any(|i| z.cls[i] == Cls::Cut && !z.has(i, T_DS)) {
                loc.inc("params_route_zones_with_insecure_delegation");
            }
            let mut k = vec![0x9a];
            for (o, t, v) in &z.recs {
                k.extend_from_slice(&wire(o));
                k.extend_from_slice(&t.to_le_bytes());
                k.push(*v);
            }
            for c in &pr_runs {
                let mut kk = k.clone();
                kk.extend_from_slice(c.cfg.json().to_string().as_bytes());
                loc.distinct.push(fnv(&kk));
            }
        }
        wd.leave();
        stats.distinct_many(loc.distinct.drain(..));
        shapes.lock().unwrap().extend(loc.shapes.drain(..));
        let mut t = total.lock().unwrap();
        t.evals += loc.evals;
        t.probes += loc.probes;
        for (k, v) in &loc.c {
            t.add(k, *v);
        }
        for i in 0..32 {
            t.nsec_len[i] += loc.nsec_len[i];
            t.nsec3_len[i] += loc.nsec3_len[i];
        }
    });
    {
        let mut t = total.lock().unwrap();
        t.evals += pr_loc.evals;
        for (k, v) in &pr_loc.c {
            t.add(k, *v);
        }
    }

    // deterministic samples: fixed zone indices, rendered serially
    let mut samples = Vec::new();
    {
        // index of the zone in which every slot takes its kind 1 (everything present)
        let mut all1 = 0u64;
        let mut mul = 1u64;
        for s in &sl {
            all1 += mul;
            mul *= s.kinds.len() as u64;
        }
        for zi in [all1, nzones / 3, nzones - 1] {
          let _ = guard(|| {
            let (recs, _) = zone_of_index(&sl, zi);
            let z = Zone::build(&u, recs);
            let Ok(sorted) = guard(|| sorted_of(&z.recs)) else { return };
            let apex = lname(&u.apex_labels);
            let nsec = guard(|| generate_nsecs(&apex, sorted.owner_rrs(), &GenerateNsecConfig::new()))
                .map_err(|_| ())
                .and_then(|r| r.map_err(|_| ()))
                .map(|v| v.iter().map(|r| format!("{} NSEC {} [{}]", r.owner(), r.data().next_name(), r.data().types())).collect::<Vec<_>>())
                .unwrap_or_default();
            let c = &n3runs[n3runs.len() / 2];
            let nsec3 = guard(|| generate_nsec3s(&apex, sorted.owner_rrs(), &c.lib))
                .map_err(|_| ())
                .and_then(|r| r.map_err(|_| ()))
                .map(|v| v.nsec3s.iter().map(|r| format!("{} NSEC3 {}", r.owner(), r.data())).collect::<Vec<_>>())
                .unwrap_or_default();
            samples.push(json!({"zone_index": zi, "zone": z.text(), "nsec_chain": nsec, "nsec3_cfg": c.cfg.json(), "nsec3_chain": nsec3}));
          });
        }
        if samples.is_empty() {
            samples.push(json!({"zone_index": all1, "note": "rendering the sample chains panicked inside the library"}));
        }
    }

    let t = total.lock().unwrap();
    let slots_json: Vec<Value> = sl.iter().map(|s| json!({"name": s.name, "kinds": s.kinds.iter().map(|k| tnames(k)).collect::<Vec<_>>()})).collect();
    ctx.finish(
        json!({
            "evaluations": t.evals,
            "probes_checked": t.probes,
            "distinct_nontrivial": stats.distinct_count(),
            "rule": "case = (zone, mode in {NSEC, NSEC3}); counted when the zone has >= 2 authoritative owners and at least one of: delegation, glue/occluded name, empty non-terminal, wildcard owner, upper-case twin; key = FNV of the zone's record list + mode (every such zone runs under every config of the mode; evaluations counts generator runs); plus one case per (zone, configuration) of the parameter-route dimension",
            "exhaustive": true,
            "bound": {
                "apex": APEX,
                "zones": nzones,
                "slots": slots_json,
                "apex_records": "SOA + NS (always)",
                "extras": "absent / present: out-of-zone records m. (before the apex), zz. and a.zz. (after the zone), and the in-zone name _.z. A",
                "nsec_configs": ["assume_dnskeys_will_be_added = true", "false"],
                "nsec3_configs": n3runs.iter().map(|c| c.cfg.json()).collect::<Vec<_>>(),
                "type_axis_sweep": {
                    "types": type_menu(),
                    "sets": "every menu type singly and every unordered pair",
                    "placements": ["plain owner w.z.", "delegation owner c.z. (next to its NS)", "apex z. (next to SOA+NS; sets containing SOA skipped)"],
                    "base_zone": "z. SOA NS; a.z. A; w.z. A; c.z. NS; g.c.z. A",
                    "zones": sweep.len(),
                    "nsec3_configs": sweep_cfgs.iter().map(|c| c.cfg.json()).collect::<Vec<_>>(),
                    "storage": "typed record data for A NS CNAME SOA TXT AAAA DS, ZoneRecordData::Unknown for every other number",
                    "policy": "types 41, 128..=255, 50 (and 47 under NSEC3) cannot be zone data / are signer output: when such a record is in the input its bit may be set or clear (observed_* counters record what the library does); every other type number must be listed exactly; SortedRecords refused none of the menu types unless the counter sorted_records_lost_a_record appears",
                },
                "routes_into_the_generators": {
                    "owned": "SortedRecords<Name<Bytes>,_>::from_iter(unsorted).owner_rrs(): every zone x every configuration",
                    "refs": "RecordsIter::new_from_refs over Vec<&Record>: every zone (product and type sweep) x NSEC(dnskey on) + NSEC3 (AB,1,opt-out+exclusion,ttl SoaMinimum)",
                    "vec-octets": "the zone, apex and GenerateNsec3Config built over Vec<u8> octets: same runs as refs",
                    "wrapped": "RecordsIter::new(SliceRefsOrOwned::new_from_owned(&sorted[..])): type-sweep zones",
                    "default-configs": "GenerateNsecConfig::default() and GenerateNsec3Config::default() are what is run for the configurations they document",
                },
                "container_checks_per_zone": "SortedRecords via From<Vec>, new()+insert() in reverse order (+ duplicate refused), superset shrunk by remove_first/remove_all_by_name_class_rtype (+ return values), update_data on the apex SOA, into_inner/len/is_empty/iter/deref, Vec<u8> octets: identical content; owner_rrs()/rrsets()/OwnerRrs::rrsets()/find_soa/find_apex_rtype/is_zone_cut/is_in_zone against own grouping of the held records",
                "record_api_checks": "every generated record: RtypeBitmap::iter/into_iter/contains/is_empty against own decoding; NSEC/NSEC3 TTL = min(SOA TTL, SOA MINIMUM) (SOA TTL above MINIMUM without extras, below with extras); NSEC3PARAM owner/algorithm/iterations/salt/class and TTL per Nsec3ParamTtlMode; 'deep' runs (first NSEC and first NSEC3 configuration of every product zone, every run of the type sweep) additionally: compose_rdata == own RFC 4034 §4.1 / RFC 5155 §3.2 wire form, rdlen, parse(compose) == record, RtypeBitmap::from_octets/compose/compose_len, OwnerHash Display/FromStr against own base32hex",
                "zone_independent_checks": "nsec3_hash in three octets instantiations + nsec3_default_hash for every closure name in lower and upper case x the (salt, iterations) menu against own hash; algorithms 0/2/255 refused (nsec3_hash and generate_nsec3s); Nsec3Salt and OwnerHash constructors/presentation; RtypeBitmapBuilder (new_vec, RtypeBitmap::builder, Default, with_builder) fed every ordered pair of the 93-type menu and every ordered triple of its window-boundary sub-menu against own encoder, then bitmap API checks",
                "below_cut_dimension": {
                    "zones": bc_zones,
                    "slots": bsl.iter().map(|s| json!({"name": s.name, "kinds": s.kinds.iter().map(|k| tnames(k)).collect::<Vec<_>>()})).collect::<Vec<_>>(),
                    "canonical_order": "z. a.z. c.z. a.c.z. x.a.c.z. g.c.z. z.c.z. d.z. g.d.z. (full product of the slots; apex SOA + NS always)",
                    "authoritative_rule": "RFC 4035 §2.3 / RFC 5155 §7.1: a non-apex NS owner that is not itself below another NS owner is the (top-most) cut; everything strictly below it is non-authoritative whatever it owns (NS, NS+DS, NS+A, DS, TYPE39=DNAME, SOA, A); with c.z. empty the names below it become authoritative owners / cuts themselves and c.z. an empty non-terminal",
                    "nsec_configs": ["assume_dnskeys_will_be_added = true", "false"],
                    "nsec3_configs": bc_runs.iter().map(|c| c.cfg.json()).collect::<Vec<_>>(),
                    "routes": "owned x every configuration; refs and vec-octets x NSEC + NSEC3 (AB,1,opt-out+exclusion)",
                    "probe_names": u_bc.names.len(),
                    "probes": "every closure name x 12 types as in the main product; for a name below a cut (existing or not): delegation record at the TOP-MOST cut (NS, no SOA, DS as present; or opt-out proof), no record owned by / matching the name, NSEC interval containing it starts at the top-most cut",
                },
                "parameter_route_dimension": {
                    "zones": pr_zones,
                    "slots": psl.iter().map(|s| json!({"name": s.name, "kinds": s.kinds.iter().map(|k| tnames(k)).collect::<Vec<_>>()})).collect::<Vec<_>>(),
                    "routes": PROUTES.iter().map(|r| r.name()).collect::<Vec<_>>(),
                    "configs": pr_runs.len(),
                    "menu": "route x (salt, iterations) in {(-,0), (AB,5)} x {no opt-out, opt-out + exclusion, opt-out without exclusion} x reserved flag bits (quick 0, 0x80; thorough 0, 0x02, 0x80, 0xFE); DNSKEY-off + TTL mode SoaMinimum for the public-field and default-object routes (thorough: for all); the default-object route only for (-,0) without reserved bits",
                    "oracle": "the same independent chain builder and probes as everywhere else, driven by the REQUESTED values (never by a getter of the library's parameters object): every NSEC3 carries the Opt-Out bit iff requested, insecure delegations are left out iff opt-out + exclusion were requested, a reserved bit appears only if requested (copied or cleared: observed), a refusal is accepted only for reserved bits; NSEC3PARAM: algorithm / iterations / salt as requested, no flag bit that was not requested (zero per RFC 5155 §4.1.2 or the copy the library makes: observed)",
                    "object_checks": "for every configuration built (Bytes and Vec<u8> octets): hash_algorithm()/flags()/opt_out_flag()/iterations()/salt()/compose_rdata of config.params and the two public switches against the requested values",
                    "value_carrier_checks": "Nsec3param over algorithm x flags octet x iterations x salt menus (quick 2x6x5x5) through new, new<Bytes>/new<&[u8]> + octets conversion, parse(wire), zonefile scanner on own RFC 5155 §4.3 text, clone, zonefile scanner on the library's Display: getters and composed RDATA equal the input, set_opt_out_flag sets bit 0 only, PartialEq distinguishes the Opt-Out bit; Nsec3::new/parse getters and RDATA over the same menu; Default = (SHA-1, 0, 0, empty)",
                    "elsewhere": "the refs / vec-octets runs of the main product take their parameters from Nsec3param::new(flags = 1), those of the below-the-cut sweep from parse(wire), two of the three type-sweep configurations from the zonefile scanner and from set_opt_out_flag",
                },
                "probe_names": u.names.len(),
                "probe_types": PROBE_TYPES.iter().map(|t| tname(*t)).collect::<Vec<_>>(),
            },
            "distinct_expected_chain_shapes": shapes.lock().unwrap().len(),
            "counters": t.map(),
            "histograms": {
                "nsec_chain_length": t.nsec_len.iter().enumerate().filter(|(_, c)| **c > 0).map(|(l, c)| (l.to_string(), json!(c))).collect::<serde_json::Map<String, Value>>(),
                "nsec3_mandatory_chain_length": t.nsec3_len.iter().enumerate().filter(|(_, c)| **c > 0).map(|(l, c)| (l.to_string(), json!(c))).collect::<serde_json::Map<String, Value>>(),
            },
            "samples": samples,
        }),
        &[
            "zones are handed to the generators through the library's own SortedRecords (the documented precondition: canonically sorted, apex SOA present, one TTL per RRset); the generators are judged against the records SortedRecords actually holds, and SortedRecords itself is checked for order and for not losing distinct records",
            "RFC 5155 §7.1 lets an empty non-terminal that is only derived from opted-out insecure delegations be left out: the oracle accepts it present or absent",
            "delegation bitmaps are checked against the property text (parent-side types NS/DS only, RRSIG in NSEC3 only with DS)",
            "TTLs are asserted as documented on the generators (RFC 9077 for NSEC/NSEC3, Nsec3ParamTtlMode for NSEC3PARAM); the NSEC3PARAM flags field is only observed (the library copies the requested flags octet into it where RFC 5155 §4.1.2 says zero; the property text does not mention the field) except that it may never carry a bit that was not requested; its other fields are asserted per RFC 5155 §7.1 step 8",
            "reserved bits (mask 0xFE) requested in the flags octet: the generator may copy them into the NSEC3 RRs, clear them, or refuse the request (RFC 5155 §3.1.2 'must be zero' binds the caller); it may not invent one, and the Opt-Out bit and the exclusion of insecure delegations follow bit 0 of the request alone",
            "a probe strictly below a delegation point is not a denial but a referral: checked is the delegation record at the top-most cut (NS, no SOA, DS as present) and that nothing below the cut owns or matches a record; type probes at the cut other than DS, and at names owning a CNAME, are skipped",
            "authoritative = not strictly below any non-apex NS owner (RFC 4035 §2.3); of several NS owners on one branch only the top-most is a delegation point of this zone, the others are occluded data",
        ],
    );
}
