//! C19 — the new-API codec (`domain::new::base`) and the established codec
//! (`domain::base`) agree on the wire format.
//!
//! Part 1 (gramx, differential parsing): every message derivable from the C01
//! token grammar (header variants x items from per-field menus x pointer
//! targets at every landmark, 1..3 items) plus every raw byte string over a
//! 9-symbol alphabet after the header is parsed by BOTH codecs, unit by unit:
//! name at an offset (compressed and flat), question, record (header + opaque
//! RDATA), character string, whole message structure (opaque and typed).
//! Oracle: both accept or both reject, equal content when both accept.
//! Documented intentional differences are whitelisted BY RULE (see
//! `whitelisted`), never by input.
//!
//! Part 2 (seqx, builders): every sequence of build operations to a depth is
//! executed on the old `MessageBuilder<TreeCompressor<Vec<u8>>>` and on the
//! new `build::MessageBuilder` + `NameCompressor`; each output is read by the
//! OTHER codec's parser and by the independent reader `mc::wire`, and must
//! give back exactly what was pushed.
use domain::base as ob;
use domain::base::message_builder::{AdditionalBuilder, AnswerBuilder, AuthorityBuilder, QuestionBuilder, TreeCompressor};
use domain::base::name::ParsedName;
use domain::base::rdata::{ComposeRecordData, UnknownRecordData as OldUnknown};
use domain::base::ParsedRecord;
use domain::new::base as nb;
use domain::new::base::build::{MessageBuildError, MessageBuilder as NewBuilder, NameCompressor};
use domain::new::base::name::{Name as NName, NameBuf, RevNameBuf, UnparsedName};
use domain::new::base::parse::{MessageParser, ParseMessageBytes, SplitMessageBytes};
use domain::new::base::wire::{BuildBytes, ParseBytes, ParseBytesZC, SplitBytes, U16};
use domain::new::base::{CharStr, HeaderFlags, MessageItem, UnparsedRecordData};
use domain::new::edns::EdnsRecord;
use domain::new::rdata::{Opt as NOpt, RecordData as NRecordData, UnknownRecordData as NewUnknown};
use domain::rdata::AllRecordData;
use mc::*;
use octseq::Parser;
use rayon::prelude::*;
use serde_json::{json, Value};
use std::sync::atomic::{AtomicU64, Ordering as AO};
use std::sync::Arc;
use std::time::Duration;

const LIMIT: usize = 70_000;

/// Record types that BOTH codecs parse into a typed representation.
const K_BOTH: &[u16] = &[1, 2, 5, 6, 12, 13, 15, 16, 17, 28, 33, 39, 41, 43, 46, 47, 48, 50, 51, 63];

// ------------------------------------------------------------------ counters

const UV: &[&str] = &[
    "name/NameBuf.split",
    "name/RevNameBuf.split",
    "name/NameBuf.parse",
    "name/RevNameBuf.parse",
    "name/UnparsedName",
    "flat/&Name",
    "flat/NameBuf",
    "flat/RevNameBuf",
    "question/RevNameBuf",
    "question/NameBuf",
    "record/RevNameBuf",
    "record/NameBuf",
    "charstr/&CharStr",
    "message/header",
    "message/opaque",
    "message/MessageParser",
    "typed-record",
];
const OUT: &[&str] = &["both-accept-equal", "both-reject", "whitelisted-documented-difference", "violation", "not-comparable"];
static COUNTS: [[AtomicU64; 5]; 17] = {
    #[allow(clippy::declare_interior_mutable_const)]
    const Z: AtomicU64 = AtomicU64::new(0);
    #[allow(clippy::declare_interior_mutable_const)]
    const R: [AtomicU64; 5] = [Z; 5];
    [R; 17]
};
fn uv(name: &str) -> usize {
    UV.iter().position(|x| *x == name).expect("unknown unit/view")
}
fn bump(uvi: usize, out: usize) {
    COUNTS[uvi][out].fetch_add(1, AO::Relaxed);
}
static WL_FORWARD: AtomicU64 = AtomicU64::new(0);
static WL_HEADER: AtomicU64 = AtomicU64::new(0);

// ---------------------------------------------------- reference name readers

/// The two documented pointer rules.
#[derive(Clone, Copy, PartialEq)]
enum Rule {
    /// RFC 1035 4.1.4 / established codec (src/base/name/parsed.rs:282-288):
    /// a pointer must point before its own position.
    Rfc,
    /// New codec as documented: "we simply disallow a name to point to data
    /// _after_ it" (src/new/base/name/absolute.rs:411-416 and
    /// src/new/base/name/reversed.rs:328-333): a pointer must point before
    /// the start of the name segment it terminates; and "The 12-byte message
    /// header is not included" in the bytes available "for resolving
    /// compressed domain names" (src/new/base/parse/mod.rs:240-243 and
    /// :329-332): a pointer cannot point into the header.
    Doc,
}

/// Independent decompressor. Returns (uncompressed wire form, end position of
/// the name in the stream, number of pointers followed).
fn ref_name(msg: &[u8], pos: usize, rule: Rule) -> Result<(Vec<u8>, usize, usize), &'static str> {
    let mut wire = Vec::new();
    let mut p = pos;
    let mut seg_start = pos;
    let mut end = None;
    let mut nptr = 0;
    loop {
        let l = *msg.get(p).ok_or("short")? as usize;
        if l == 0 {
            wire.push(0);
            return Ok((wire, end.unwrap_or(p + 1), nptr));
        } else if l < 64 {
            let lab = msg.get(p + 1..p + 1 + l).ok_or("short-label")?;
            if wire.len() + 1 + l > 254 {
                return Err("long");
            }
            wire.push(l as u8);
            wire.extend_from_slice(lab);
            p += 1 + l;
        } else if l >= 0xC0 {
            let lo = *msg.get(p + 1).ok_or("short-pointer")? as usize;
            let t = ((l & 0x3F) << 8) | lo;
            if end.is_none() {
                end = Some(p + 2);
            }
            nptr += 1;
            match rule {
                Rule::Rfc => {
                    if t >= p {
                        return Err("pointer-not-backwards");
                    }
                }
                Rule::Doc => {
                    if t < 12 {
                        return Err("pointer-into-header");
                    }
                    if t >= seg_start {
                        return Err("pointer-not-before-name-segment");
                    }
                }
            }
            p = t;
            seg_start = t;
        } else {
            return Err("label-type");
        }
    }
}

/// The whitelist RULE: the name starting at `pos` is accepted under the RFC
/// rule and rejected under the new codec's documented rule. Only the
/// direction old=accept / new=reject is excused by it.
fn whitelisted(msg: &[u8], pos: usize) -> bool {
    match (ref_name(msg, pos, Rule::Rfc), ref_name(msg, pos, Rule::Doc)) {
        (Ok(_), Err(why)) => {
            if why == "pointer-into-header" {
                WL_HEADER.fetch_add(1, AO::Relaxed);
            } else {
                WL_FORWARD.fetch_add(1, AO::Relaxed);
            }
            true
        }
        _ => false,
    }
}

// ------------------------------------------------------------- observations

type NameObs = Option<(Vec<u8>, usize)>; // (uncompressed wire, end position in message)
type QObs = Option<(Vec<u8>, u16, u16, usize)>;
type RObs = Option<(Vec<u8>, u16, u16, u32, Vec<u8>, usize)>;

#[derive(Clone, Debug, PartialEq)]
struct Item {
    sec: u8,
    pos: usize,
    name: Vec<u8>,
    t: u16,
    c: u16,
    ttl: u32,
    rdata: Vec<u8>,
}

/// Typed view of one record: Err = typed parse failed; Ok((is_unknown_variant, uncompressed rdata)).
type Typed = Result<(bool, Vec<u8>), ()>;

#[derive(Clone, Debug, Default)]
struct MsgObs {
    header: (u16, u16, [u16; 4]),
    items: Vec<Item>,
    /// position and section of the unit that failed, if any
    err_at: Option<(u8, usize)>,
    /// typed view per record item (same index as items; questions: None)
    typed: Vec<Option<Typed>>,
    /// new only: MessageParser sequence: Ok(item as normalised) / Err
    mp: Vec<Result<(Item, Vec<u8>), ()>>,
}

#[derive(Default)]
struct Obs {
    names: Vec<[NameObs; 4]>,
    skip: Vec<Option<usize>>,
    flat: Vec<[NameObs; 3]>,
    questions: Vec<[QObs; 2]>,
    records: Vec<[RObs; 2]>,
    charstr: Vec<NameObs>,
    msg: Option<MsgObs>,
    errs: Vec<String>,
}

fn old_labels_wire<O: AsRef<[u8]> + ?Sized>(n: &ParsedName<&O>) -> Vec<u8> {
    let mut wire = Vec::new();
    for l in n.iter().take(300) {
        wire.push(l.len() as u8);
        wire.extend_from_slice(l.as_slice());
    }
    wire
}

fn old_parser(msg: &[u8], pos: usize) -> Option<Parser<'_, [u8]>> {
    let mut p = Parser::from_ref(msg);
    p.advance(pos).ok()?;
    Some(p)
}

fn old_name(msg: &[u8], pos: usize) -> NameObs {
    let mut p = old_parser(msg, pos)?;
    let n = ParsedName::parse_ref(&mut p).ok()?;
    Some((old_labels_wire(&n), p.pos()))
}

fn old_record_at(msg: &[u8], pos: usize) -> RObs {
    let mut p = old_parser(msg, pos)?;
    let r = ParsedRecord::parse(&mut p).ok()?;
    let data = old_opaque(&r)?;
    Some((old_labels_wire(&r.owner()), r.rtype().to_int(), r.class().to_int(), r.ttl().as_secs(), data, p.pos()))
}

fn old_opaque(r: &ParsedRecord<'_, [u8]>) -> Option<Vec<u8>> {
    match r.to_record::<OldUnknown<&[u8]>>() {
        Ok(Some(x)) => Some(x.data().data().to_vec()),
        _ => None,
    }
}

fn old_typed(r: &ParsedRecord<'_, [u8]>) -> Typed {
    match r.to_any_record::<AllRecordData<&[u8], ParsedName<&[u8]>>>() {
        Ok(rec) => {
            let mut v = Vec::new();
            rec.data().compose_rdata(&mut v).map_err(|_| ())?;
            Ok((matches!(rec.data(), AllRecordData::Unknown(_)), v))
        }
        Err(_) => Err(()),
    }
}

fn observe_old(msg: &[u8], offsets: &[usize]) -> Obs {
    let mut o = Obs::default();
    for &pos in offsets {
        let n = old_name(msg, pos);
        o.names.push([n.clone(), n.clone(), n.clone(), n]);
        o.skip.push((|| {
            let mut p = old_parser(msg, pos)?;
            ParsedName::skip(&mut p).ok()?;
            Some(p.pos())
        })());
        let f: NameObs = (|| {
            let mut p = old_parser(msg, pos)?;
            let n = ob::Name::<&[u8]>::parse(&mut p).ok()?;
            Some((n.as_slice().to_vec(), p.pos()))
        })();
        o.flat.push([f.clone(), f.clone(), f]);
        let q: QObs = (|| {
            let mut p = old_parser(msg, pos)?;
            let q = ob::Question::<ParsedName<&[u8]>>::parse(&mut p).ok()?;
            Some((old_labels_wire(q.qname()), q.qtype().to_int(), q.qclass().to_int(), p.pos()))
        })();
        o.questions.push([q.clone(), q]);
        let r = old_record_at(msg, pos);
        o.records.push([r.clone(), r]);
        o.charstr.push((|| {
            let mut p = old_parser(msg, pos)?;
            let c = ob::charstr::CharStr::<&[u8]>::parse(&mut p).ok()?;
            Some((c.as_slice().to_vec(), p.pos()))
        })());
    }
    // whole message
    o.msg = (|| {
        let m = ob::Message::from_slice(msg).ok()?;
        let mut mo = MsgObs::default();
        let h = m.header();
        let c = m.header_counts();
        mo.header = (h.id(), u16::from_be_bytes([m.as_slice()[2], m.as_slice()[3]]), [c.qdcount(), c.ancount(), c.nscount(), c.arcount()]);
        let _ = h.flags();
        let mut q = m.question();
        for _ in 0..LIMIT {
            let pos = q.pos();
            match q.next() {
                Some(Ok(x)) => {
                    mo.items.push(Item { sec: 0, pos, name: old_labels_wire(x.qname()), t: x.qtype().to_int(), c: x.qclass().to_int(), ttl: 0, rdata: vec![] });
                    mo.typed.push(None);
                }
                Some(Err(_)) => {
                    mo.err_at = Some((0, pos));
                    return Some(mo);
                }
                None => break,
            }
        }
        let mut sec = match q.answer() {
            Ok(s) => s,
            Err(_) => {
                o.errs.push("old|question-section|answer()-fails-after-clean-iteration".into());
                return Some(mo);
            }
        };
        for s in 1..=3u8 {
            for _ in 0..LIMIT {
                let pos = sec.pos();
                match sec.next() {
                    Some(Ok(r)) => {
                        let data = match old_opaque(&r) {
                            Some(d) => d,
                            None => {
                                o.errs.push("old|record|opaque-view-fails-on-parsed-record".into());
                                vec![]
                            }
                        };
                        mo.items.push(Item { sec: s, pos, name: old_labels_wire(&r.owner()), t: r.rtype().to_int(), c: r.class().to_int(), ttl: r.ttl().as_secs(), rdata: data });
                        mo.typed.push(Some(old_typed(&r)));
                    }
                    Some(Err(_)) => {
                        mo.err_at = Some((s, pos));
                        return Some(mo);
                    }
                    None => break,
                }
            }
            if s < 3 {
                sec = match sec.next_section() {
                    Ok(Some(n)) => n,
                    _ => {
                        o.errs.push("old|record-section|next_section()-fails-after-clean-iteration".into());
                        return Some(mo);
                    }
                };
            }
        }
        Some(mo)
    })();
    o
}

// ---- new side

trait NewName: Sized + Clone {
    fn split(contents: &[u8], start: usize) -> Result<(Self, usize), ()>;
    fn parse(contents: &[u8], start: usize) -> Result<Self, ()>;
    fn wire(&self, errs: &mut Vec<String>) -> Vec<u8>;
}
impl NewName for NameBuf {
    fn split(contents: &[u8], start: usize) -> Result<(Self, usize), ()> {
        <NameBuf as SplitMessageBytes>::split_message_bytes(contents, start).map_err(|_| ())
    }
    fn parse(contents: &[u8], start: usize) -> Result<Self, ()> {
        <NameBuf as ParseMessageBytes>::parse_message_bytes(contents, start).map_err(|_| ())
    }
    fn wire(&self, errs: &mut Vec<String>) -> Vec<u8> {
        let w = self.as_bytes().to_vec();
        let mut l = Vec::new();
        for lab in self.labels().take(300) {
            l.extend_from_slice(lab.as_wire());
        }
        if l != w {
            errs.push("new|Name|labels()-differ-from-as_bytes()".into());
        }
        if self.len() != w.len() {
            errs.push("new|Name|len()-wrong".into());
        }
        w
    }
}
impl NewName for RevNameBuf {
    fn split(contents: &[u8], start: usize) -> Result<(Self, usize), ()> {
        <RevNameBuf as SplitMessageBytes>::split_message_bytes(contents, start).map_err(|_| ())
    }
    fn parse(contents: &[u8], start: usize) -> Result<Self, ()> {
        <RevNameBuf as ParseMessageBytes>::parse_message_bytes(contents, start).map_err(|_| ())
    }
    fn wire(&self, errs: &mut Vec<String>) -> Vec<u8> {
        let mut buf = [0u8; 255];
        let w = match self.build_bytes(&mut buf) {
            Ok(rest) => {
                let n = 255 - rest.len();
                buf[..n].to_vec()
            }
            Err(_) => {
                errs.push("new|RevName|build_bytes-fails-into-255-octets".into());
                return vec![0xFF];
            }
        };
        // labels() yields root first, then outermost..innermost
        let labs: Vec<Vec<u8>> = self.labels().take(300).map(|l| l.as_wire().to_vec()).collect();
        let mut l = Vec::new();
        for lab in labs.iter().rev() {
            l.extend_from_slice(lab);
        }
        if l != w {
            errs.push("new|RevName|labels()-differ-from-build_bytes()".into());
        }
        if self.len() != w.len() || self.built_bytes_size() != w.len() {
            errs.push("new|RevName|len()-wrong".into());
        }
        let conv: NameBuf = self.clone().into();
        if conv.as_bytes() != &w[..] {
            errs.push("new|RevNameBuf-into-NameBuf|content-differs".into());
        }
        w
    }
}

fn new_name_views<N: NewName>(contents: &[u8], start: usize, old_end: Option<usize>, errs: &mut Vec<String>) -> (NameObs, NameObs) {
    let split = match N::split(contents, start) {
        Ok((n, end)) => Some((n.wire(errs), end + 12)),
        Err(()) => None,
    };
    // parse_message_bytes must consume the given range exactly: give it the
    // range ending where the established codec says the name ends (or the
    // whole contents if the established codec rejects).
    let range_end = match old_end {
        Some(e) if e >= 12 && e - 12 <= contents.len() && e - 12 >= start => e - 12,
        _ => contents.len(),
    };
    let parse = match N::parse(&contents[..range_end], start) {
        Ok(n) => Some((n.wire(errs), range_end + 12)),
        Err(()) => None,
    };
    (split, parse)
}

fn new_question<N: NewName + for<'a> SplitMessageBytes<'a>>(contents: &[u8], start: usize, errs: &mut Vec<String>) -> QObs {
    match nb::Question::<N>::split_message_bytes(contents, start) {
        Ok((q, end)) => Some((q.qname.wire(errs), q.qtype.code.get(), q.qclass.code.get(), end + 12)),
        Err(_) => None,
    }
}

fn new_record<'a, N: NewName + SplitMessageBytes<'a>>(contents: &'a [u8], start: usize, errs: &mut Vec<String>) -> RObs {
    match nb::Record::<N, &'a UnparsedRecordData>::split_message_bytes(contents, start) {
        Ok((r, end)) => Some((r.rname.wire(errs), r.rtype.code.get(), r.rclass.code.get(), r.ttl.value.get(), r.rdata.to_vec(), end + 12)),
        Err(_) => None,
    }
}

fn build_vec<T: BuildBytes + ?Sized>(x: &T) -> Result<Vec<u8>, ()> {
    let n = x.built_bytes_size();
    let mut v = vec![0u8; n + 8];
    let rest = x.build_bytes(&mut v).map_err(|_| ())?.len();
    let used = n + 8 - rest;
    v.truncate(used);
    Ok(v)
}

fn new_typed_record(contents: &[u8], start: usize, sec: u8, errs: &mut Vec<String>) -> Typed {
    // MessageParser dispatches additional-section records that start with
    // "0 0 41" to EdnsRecord (src/new/base/parse/message.rs:123-127).
    if sec == 3 && contents[start..].starts_with(&[0, 0, 41]) {
        match EdnsRecord::<&NOpt>::split_message_bytes(contents, start) {
            Ok((e, _)) => {
                let rec: nb::Record<RevNameBuf, NRecordData<'_, NameBuf>> = e.into();
                match build_vec(&rec.rdata) {
                    Ok(v) => Ok((false, v)),
                    Err(()) => {
                        errs.push("new|typed|rdata-build_bytes-fails".into());
                        Err(())
                    }
                }
            }
            Err(_) => Err(()),
        }
    } else {
        match nb::Record::<RevNameBuf, NRecordData<'_, NameBuf>>::split_message_bytes(contents, start) {
            Ok((rec, _)) => match build_vec(&rec.rdata) {
                Ok(v) => Ok((matches!(rec.rdata, NRecordData::Unknown(..)), v)),
                Err(()) => {
                    errs.push("new|typed|rdata-build_bytes-fails".into());
                    Err(())
                }
            },
            Err(_) => Err(()),
        }
    }
}

fn observe_new(msg: &[u8], offsets: &[usize], old_ends: &[Option<usize>]) -> Obs {
    let mut o = Obs::default();
    let mut errs = Vec::new();
    if msg.len() >= 12 {
        let contents = &msg[12..];
        for (i, &pos) in offsets.iter().enumerate() {
            if pos < 12 || pos > msg.len() {
                o.names.push([None, None, None, None]);
                o.skip.push(None);
                o.flat.push([None, None, None]);
                o.questions.push([None, None]);
                o.records.push([None, None]);
                o.charstr.push(None);
                continue;
            }
            let start = pos - 12;
            let (a_s, a_p) = new_name_views::<NameBuf>(contents, start, old_ends[i], &mut errs);
            let (r_s, r_p) = new_name_views::<RevNameBuf>(contents, start, old_ends[i], &mut errs);
            o.names.push([a_s, r_s, a_p, r_p]);
            o.skip.push(match <&UnparsedName>::split_message_bytes(contents, start) {
                Ok((u, end)) => {
                    if u.as_bytes() != &contents[start..end] || u.len() != end - start {
                        errs.push("new|UnparsedName|bytes-differ-from-input-range".into());
                    }
                    Some(end + 12)
                }
                Err(_) => None,
            });
            let bytes = &contents[start..];
            let f0: NameObs = <&NName>::split_bytes(bytes).ok().map(|(n, rest)| (n.as_bytes().to_vec(), msg.len() - rest.len()));
            let f1: NameObs = NameBuf::split_bytes(bytes).ok().map(|(n, rest)| (n.wire(&mut errs), msg.len() - rest.len()));
            let f2: NameObs = RevNameBuf::split_bytes(bytes).ok().map(|(n, rest)| (n.wire(&mut errs), msg.len() - rest.len()));
            o.flat.push([f0, f1, f2]);
            o.questions.push([new_question::<RevNameBuf>(contents, start, &mut errs), new_question::<NameBuf>(contents, start, &mut errs)]);
            o.records.push([new_record::<RevNameBuf>(contents, start, &mut errs), new_record::<NameBuf>(contents, start, &mut errs)]);
            o.charstr.push(<&CharStr>::split_message_bytes(contents, start).ok().map(|(c, end)| (c.octets.to_vec(), end + 12)));
        }
    }
    // whole message, opaque view through the documented low-level API
    o.msg = (|| {
        let m = nb::Message::parse_bytes_by_ref(msg).ok()?;
        let mut mo = MsgObs::default();
        let counts = *m.header.counts.as_array();
        mo.header = (m.header.id.get(), m.header.flags.bits(), [counts[0].get(), counts[1].get(), counts[2].get(), counts[3].get()]);
        let contents = &m.contents;
        let mut off = 0usize;
        'outer: for sec in 0..4u8 {
            for _ in 0..counts[sec as usize].get() {
                if sec == 0 {
                    match nb::Question::<RevNameBuf>::split_message_bytes(contents, off) {
                        Ok((q, end)) => {
                            mo.items.push(Item { sec, pos: off + 12, name: q.qname.wire(&mut errs), t: q.qtype.code.get(), c: q.qclass.code.get(), ttl: 0, rdata: vec![] });
                            mo.typed.push(None);
                            off = end;
                        }
                        Err(_) => {
                            mo.err_at = Some((sec, off + 12));
                            break 'outer;
                        }
                    }
                } else {
                    match nb::Record::<RevNameBuf, &UnparsedRecordData>::split_message_bytes(contents, off) {
                        Ok((r, end)) => {
                            mo.items.push(Item { sec, pos: off + 12, name: r.rname.wire(&mut errs), t: r.rtype.code.get(), c: r.rclass.code.get(), ttl: r.ttl.value.get(), rdata: r.rdata.to_vec() });
                            mo.typed.push(Some(new_typed_record(contents, off, sec, &mut errs)));
                            off = end;
                        }
                        Err(_) => {
                            mo.err_at = Some((sec, off + 12));
                            break 'outer;
                        }
                    }
                }
            }
        }
        // mid-level API
        let mut mp = MessageParser::new(msg).ok()?;
        for _ in 0..LIMIT {
            let pos = mp.offset() + 12;
            match mp.next() {
                None => break,
                Some(Err(_)) => mo.mp.push(Err(())),
                Some(Ok(item)) => {
                    let (sec, rec): (u8, Option<nb::Record<RevNameBuf, NRecordData<'_, NameBuf>>>) = match item {
                        MessageItem::Question(q) => {
                            mo.mp.push(Ok((Item { sec: 0, pos, name: q.qname.wire(&mut errs), t: q.qtype.code.get(), c: q.qclass.code.get(), ttl: 0, rdata: vec![] }, vec![])));
                            continue;
                        }
                        MessageItem::Answer(r) => (1, Some(r)),
                        MessageItem::Authority(r) => (2, Some(r)),
                        MessageItem::Additional(r) => (3, Some(r)),
                        MessageItem::Edns(e) => (3, Some(e.into())),
                    };
                    let r = rec.unwrap();
                    let typed = build_vec(&r.rdata).unwrap_or_else(|_| vec![0xFF, 0xFF, 0xFF]);
                    mo.mp.push(Ok((Item { sec, pos, name: r.rname.wire(&mut errs), t: r.rtype.code.get(), c: r.rclass.code.get(), ttl: r.ttl.value.get(), rdata: vec![] }, typed)));
                }
            }
        }
        Some(mo)
    })();
    o.errs = errs;
    o
}
