//! C19 — the new-API codec (`domain::new::base`) and the established codec
//! (`domain::base`) agree on the wire format.
//!
//! Part 1 (gramx, differential parsing): every message derivable from the C01
//! token grammar (header variants x items from per-field menus x pointer
//! targets at every landmark, 1..3 items) plus every raw byte string over a
//! 9-symbol alphabet after the header is parsed by BOTH codecs, unit by unit:
//! name at an offset (compressed and flat), question, record (header + opaque
//! RDATA), character string, whole message structure (opaque and typed).
//! Oracle: both accept or both reject, equal content when both accept.
//! Documented intentional differences are whitelisted BY RULE (see
//! `whitelisted`), never by input.
//!
//! Part 2 (seqx, builders): every sequence of build operations to a depth is
//! executed on the old `MessageBuilder<TreeCompressor<Vec<u8>>>` and on the
//! new `build::MessageBuilder` + `NameCompressor`; each output is read by the
//! OTHER codec's parser and by the independent reader `mc::wire`, and must
//! give back exactly what was pushed.
//!
//! Part 2b (seqx, builders under faults): build scripts with refused pushes
//! (push limit, end of the buffer at chosen octets, a capacity fixed for the
//! whole script at every value), rewind(), sections left backwards and
//! truncate(), on the established builder over EVERY compressor (none,
//! Static, Tree, Hash) and on the new builder; the output is read by the
//! independent reader and by both codecs and must hold exactly the items
//! accepted and not rolled back.
//!
//! Part 2c (the offset axis): a compression pointer can only address offsets
//! below 0x4000. One padding record moves a name to EVERY offset of a window
//! around 0x4000 (wholly below, across it label by label, wholly above), as
//! an owner or inside RDATA, with none / a part / all of it known from a
//! question; then follow records whose owners / RDATA names share a suffix
//! with it at every label depth, in both letter cases. All four established
//! compressors x {Vec, StreamTarget} and the new builder; thorough: a second
//! window at the maximal message size of 65535 octets. Every output is read
//! by the independent reader and by BOTH codecs and must hold exactly the
//! names pushed.
use domain::base as ob;
use domain::base::message_builder::{AdditionalBuilder, AnswerBuilder, AuthorityBuilder, QuestionBuilder, TreeCompressor};
use domain::base::name::ParsedName;
use domain::base::rdata::{ComposeRecordData, UnknownRecordData as OldUnknown};
use domain::base::ParsedRecord;
use domain::new::base as nb;
use domain::new::base::build::{MessageBuildError, MessageBuilder as NewBuilder, NameCompressor};
use domain::new::base::name::{Name as NName, NameBuf, RevNameBuf, UnparsedName};
use domain::new::base::parse::{MessageParser, ParseMessageBytes, SplitMessageBytes};
use domain::new::base::wire::{BuildBytes, ParseBytes, ParseBytesZC, SplitBytes, U16};
use domain::new::base::{CharStr, HeaderFlags, MessageItem, UnparsedRecordData};
use domain::new::edns::EdnsRecord;
use domain::new::rdata::{Opt as NOpt, RecordData as NRecordData, UnknownRecordData as NewUnknown};
use domain::rdata::AllRecordData;
use mc::*;
use octseq::Parser;
use rayon::prelude::*;
use serde_json::{json, Value};
use std::sync::atomic::{AtomicU64, Ordering as AO};
use std::sync::Arc;
use std::time::Duration;

const LIMIT: usize = 70_000;

/// Record types that BOTH codecs parse into a typed representation.
const K_BOTH: &[u16] = &[1, 2, 5, 6, 12, 13, 15, 16, 17, 28, 33, 39, 41, 43, 46, 47, 48, 50, 51, 63];

// ------------------------------------------------------------------ counters

const UV: &[&str] = &[
    "name/NameBuf.split",
    "name/RevNameBuf.split",
    "name/NameBuf.parse",
    "name/RevNameBuf.parse",
    "name/UnparsedName",
    "flat/&Name",
    "flat/NameBuf",
    "flat/RevNameBuf",
    "question/RevNameBuf",
    "question/NameBuf",
    "record/RevNameBuf",
    "record/NameBuf",
    "charstr/&CharStr",
    "message/header",
    "message/opaque",
    "message/MessageParser",
    "typed-record",
    "flat-question/NameBuf",
    "flat-record/NameBuf",
    "name/UnparsedName.split_bytes",
    "label/&Label",
    "charstr/CharStrBuf",
    "message/header-flag-accessors",
    "edns-record",
];
const OUT: &[&str] = &["both-accept-equal", "both-reject", "whitelisted-documented-difference", "violation", "not-comparable"];
static COUNTS: [[AtomicU64; 5]; 24] = {
    #[allow(clippy::declare_interior_mutable_const)]
    const Z: AtomicU64 = AtomicU64::new(0);
    #[allow(clippy::declare_interior_mutable_const)]
    const R: [AtomicU64; 5] = [Z; 5];
    [R; 24]
};
fn uv(name: &str) -> usize {
    UV.iter().position(|x| *x == name).expect("unknown unit/view")
}
fn bump(uvi: usize, out: usize) {
    COUNTS[uvi][out].fetch_add(1, AO::Relaxed);
}
static WL_FORWARD: AtomicU64 = AtomicU64::new(0);
static WL_HEADER: AtomicU64 = AtomicU64::new(0);
static WL_RANGE: AtomicU64 = AtomicU64::new(0);

/// Second whitelist RULE, for parsers that are handed a bounded range
/// (`ParseMessageBytes::parse_message_bytes`, typed RDATA): "The contents of
/// the DNS message (up to and including the actual bytes to be parsed) is
/// provided as `contents`" (src/new/base/parse/mod.rs:240-243) -- a name whose
/// decompression needs octets at or after `limit` (the end of the range)
/// cannot be resolved by the new codec by construction of its API, while the
/// established codec always resolves against the whole message.
fn name_excused_in_range(msg: &[u8], pos: usize, limit: usize) -> bool {
    match (ref_name_ext(msg, pos, Rule::Rfc), ref_name_ext(msg, pos, Rule::Doc)) {
        (Ok(_), Err(why)) => {
            if why == "pointer-into-header" {
                WL_HEADER.fetch_add(1, AO::Relaxed);
            } else {
                WL_FORWARD.fetch_add(1, AO::Relaxed);
            }
            true
        }
        (Ok((_, _, _, max_read)), Ok(_)) => {
            if max_read > limit {
                WL_RANGE.fetch_add(1, AO::Relaxed);
                true
            } else {
                false
            }
        }
        _ => false,
    }
}

/// Record types for which typed accept/reject agreement is asserted (modulo
/// the whitelist rules): every type both codecs parse except ZONEMD (63),
/// where the established codec enforces the RFC 8976 minimum digest length
/// and the new one does not -- that difference is counted, not asserted.
const K_CORE: &[u16] = &[1, 2, 5, 6, 12, 13, 15, 16, 17, 28, 33, 39, 41, 43, 46, 47, 48, 50, 51];

static WL_NOCOMP: AtomicU64 = AtomicU64::new(0);
static WL_EMPTY_TXT: AtomicU64 = AtomicU64::new(0);

/// Third whitelist RULE (typed RDATA only, direction established=accept /
/// new=reject): the new codec follows the RFCs' "MUST NOT be compressed" for
/// the names in SRV (RFC 2782), DNAME (RFC 6672 2.1; "This domain name
/// *cannot* be compressed in DNS messages", src/new/rdata/dname.rs:36),
/// RRSIG signer and NSEC next name (RFC 4034 3.1.7, 4.1.1) by parsing them
/// with the compression-less parser (src/new/rdata/mod.rs parse_record_data),
/// while the established codec decompresses them as RFC 3597 4 suggests; and
/// it requires a TXT record to hold at least one character string
/// (src/new/rdata/basic/txt.rs:39 and :121). The rule is evaluated by the
/// harness on the octets: is the name at the type's name position written
/// with a pointer / is the TXT RDATA empty.
fn typed_reject_documented(msg: &[u8], it: &Item) -> bool {
    if it.t == 16 {
        if it.rdata.is_empty() {
            WL_EMPTY_TXT.fetch_add(1, AO::Relaxed);
            return true;
        }
        return false;
    }
    let off = match it.t {
        33 => 6,
        39 | 47 => 0,
        46 => 18,
        _ => return false,
    };
    let Ok((_, owner_end, _)) = ref_name(msg, it.pos, Rule::Rfc) else { return false };
    let rd = owner_end + 10;
    let rd_end = rd + it.rdata.len();
    let mut p = rd + off;
    while p < rd_end {
        let b = msg[p] as usize;
        if b == 0 {
            return false;
        } else if b < 64 {
            p += 1 + b;
        } else if b >= 0xC0 {
            WL_NOCOMP.fetch_add(1, AO::Relaxed);
            return true;
        } else {
            return false;
        }
    }
    false
}

static STRICTNESS: std::sync::Mutex<std::collections::BTreeMap<String, u64>> = std::sync::Mutex::new(std::collections::BTreeMap::new());

/// Is a typed old=accept/new=reject difference on this record excused by a
/// whitelist rule applied to a name inside its RDATA?
fn typed_excused(msg: &[u8], it: &Item) -> bool {
    let Ok((_, owner_end, _)) = ref_name(msg, it.pos, Rule::Rfc) else { return false };
    let rd = owner_end + 10;
    let rd_end = rd + it.rdata.len();
    let mut positions = Vec::new();
    match it.t {
        2 | 5 | 12 => positions.push(rd),
        15 => positions.push(rd + 2),
        6 | 17 => {
            positions.push(rd);
            if let Ok((_, e, _)) = ref_name(msg, rd, Rule::Rfc) {
                positions.push(e);
            }
        }
        _ => {}
    }
    positions.into_iter().any(|p| name_excused_in_range(msg, p, rd_end))
}

// ---------------------------------------------------- reference name readers

/// The two documented pointer rules.
#[derive(Clone, Copy, PartialEq)]
enum Rule {
    /// RFC 1035 4.1.4 / established codec (src/base/name/parsed.rs:282-288):
    /// a pointer must point before its own position.
    Rfc,
    /// New codec as documented: "we simply disallow a name to point to data
    /// _after_ it" (src/new/base/name/absolute.rs:411-416 and
    /// src/new/base/name/reversed.rs:328-333): a pointer must point before
    /// the start of the name segment it terminates; and "The 12-byte message
    /// header is not included" in the bytes available "for resolving
    /// compressed domain names" (src/new/base/parse/mod.rs:240-243 and
    /// :329-332): a pointer cannot point into the header.
    Doc,
}

/// Independent decompressor. Returns (uncompressed wire form, end position of
/// the name in the stream, number of pointers followed).
fn ref_name(msg: &[u8], pos: usize, rule: Rule) -> Result<(Vec<u8>, usize, usize), &'static str> {
    ref_name_ext(msg, pos, rule).map(|(w, e, n, _)| (w, e, n))
}

/// As `ref_name`, additionally returning one past the highest octet index read.
fn ref_name_ext(msg: &[u8], pos: usize, rule: Rule) -> Result<(Vec<u8>, usize, usize, usize), &'static str> {
    let mut max_read = 0usize;
    let mut wire = Vec::new();
    let mut p = pos;
    let mut seg_start = pos;
    let mut end = None;
    let mut nptr = 0;
    loop {
        let l = *msg.get(p).ok_or("short")? as usize;
        if l == 0 {
            wire.push(0);
            max_read = max_read.max(p + 1);
            return Ok((wire, end.unwrap_or(p + 1), nptr, max_read));
        } else if l < 64 {
            let lab = msg.get(p + 1..p + 1 + l).ok_or("short-label")?;
            if wire.len() + 1 + l > 254 {
                return Err("long");
            }
            wire.push(l as u8);
            wire.extend_from_slice(lab);
            p += 1 + l;
            max_read = max_read.max(p);
        } else if l >= 0xC0 {
            let lo = *msg.get(p + 1).ok_or("short-pointer")? as usize;
            let t = ((l & 0x3F) << 8) | lo;
            if end.is_none() {
                end = Some(p + 2);
            }
            max_read = max_read.max(p + 2);
            nptr += 1;
            match rule {
                Rule::Rfc => {
                    if t >= p {
                        return Err("pointer-not-backwards");
                    }
                }
                Rule::Doc => {
                    if t < 12 {
                        return Err("pointer-into-header");
                    }
                    if t >= seg_start {
                        return Err("pointer-not-before-name-segment");
                    }
                }
            }
            p = t;
            seg_start = t;
        } else {
            return Err("label-type");
        }
    }
}

/// The whitelist RULE: the name starting at `pos` is accepted under the RFC
/// rule and rejected under the new codec's documented rule. Only the
/// direction old=accept / new=reject is excused by it.
fn whitelisted(msg: &[u8], pos: usize) -> bool {
    match (ref_name(msg, pos, Rule::Rfc), ref_name(msg, pos, Rule::Doc)) {
        (Ok(_), Err(why)) => {
            if why == "pointer-into-header" {
                WL_HEADER.fetch_add(1, AO::Relaxed);
            } else {
                WL_FORWARD.fetch_add(1, AO::Relaxed);
            }
            true
        }
        _ => false,
    }
}

// ------------------------------------------------------------- observations

type NameObs = Option<(Vec<u8>, usize)>; // (uncompressed wire, end position in message)
type QObs = Option<(Vec<u8>, u16, u16, usize)>;
type RObs = Option<(Vec<u8>, u16, u16, u32, Vec<u8>, usize)>;

#[derive(Clone, Debug, PartialEq)]
struct Item {
    sec: u8,
    pos: usize,
    name: Vec<u8>,
    t: u16,
    c: u16,
    ttl: u32,
    rdata: Vec<u8>,
}

/// Typed view of one record: Err = typed parse failed; Ok((is_unknown_variant, uncompressed rdata)).
type Typed = Result<(bool, Vec<u8>), ()>;

/// EDNS view of an OPT record: payload size, extended rcode octet, version,
/// DO flag, options as (code, data, typed parse of a COOKIE / EDE option ok).
type EdnsObs = (u16, u8, u8, bool, Vec<(u16, Vec<u8>, bool)>);
type HFlags = (bool, u8, bool, bool, bool, bool, bool, bool, u8);

#[derive(Clone, Debug, Default)]
struct MsgObs {
    header: (u16, u16, [u16; 4]),
    items: Vec<Item>,
    /// position and section of the unit that failed, if any
    err_at: Option<(u8, usize)>,
    /// typed view per record item (same index as items; questions: None)
    typed: Vec<Option<Typed>>,
    /// new only: MessageParser sequence: Ok(item as normalised) / Err
    mp: Vec<Result<(Item, Vec<u8>), ()>>,
    /// header flags through the codec's accessors
    hflags: Option<HFlags>,
    /// EDNS view of additional-section OPT records with root owner (same index as items)
    edns: Vec<Option<EdnsObs>>,
}

#[derive(Default)]
struct Obs {
    names: Vec<[NameObs; 4]>,
    skip: Vec<Option<usize>>,
    flat: Vec<[NameObs; 3]>,
    questions: Vec<[QObs; 2]>,
    records: Vec<[RObs; 2]>,
    charstr: Vec<NameObs>,
    charstr_buf: Vec<NameObs>,
    flatq: Vec<QObs>,
    flatr: Vec<RObs>,
    unparsed_flat: Vec<Option<usize>>,
    label: Vec<NameObs>,
    msg: Option<MsgObs>,
    errs: Vec<String>,
}

fn old_labels_wire<O: AsRef<[u8]> + ?Sized>(n: &ParsedName<&O>) -> Vec<u8> {
    let mut wire = Vec::new();
    for l in n.iter().take(300) {
        wire.push(l.len() as u8);
        wire.extend_from_slice(l.as_slice());
    }
    wire
}

fn old_parser(msg: &[u8], pos: usize) -> Option<Parser<'_, [u8]>> {
    let mut p = Parser::from_ref(msg);
    p.advance(pos).ok()?;
    Some(p)
}

fn old_name(msg: &[u8], pos: usize) -> NameObs {
    let mut p = old_parser(msg, pos)?;
    let n = ParsedName::parse_ref(&mut p).ok()?;
    Some((old_labels_wire(&n), p.pos()))
}

fn old_record_at(msg: &[u8], pos: usize) -> RObs {
    let mut p = old_parser(msg, pos)?;
    let r = ParsedRecord::parse(&mut p).ok()?;
    let data = old_opaque(&r)?;
    Some((old_labels_wire(&r.owner()), r.rtype().to_int(), r.class().to_int(), r.ttl().as_secs(), data, p.pos()))
}

fn old_opaque(r: &ParsedRecord<'_, [u8]>) -> Option<Vec<u8>> {
    match r.to_record::<OldUnknown<&[u8]>>() {
        Ok(Some(x)) => Some(x.data().data().to_vec()),
        _ => None,
    }
}

fn old_typed(r: &ParsedRecord<'_, [u8]>) -> Typed {
    match r.to_any_record::<AllRecordData<&[u8], ParsedName<&[u8]>>>() {
        Ok(rec) => {
            let mut v = Vec::new();
            rec.data().compose_rdata(&mut v).map_err(|_| ())?;
            Ok((matches!(rec.data(), AllRecordData::Unknown(_)), v))
        }
        Err(_) => Err(()),
    }
}

fn old_edns(r: &ParsedRecord<'_, [u8]>, header: ob::Header) -> Option<EdnsObs> {
    use domain::base::opt::{AllOptData, Opt, OptRecord, UnknownOptData};
    let rec = r.to_record::<Opt<&[u8]>>().ok()??;
    let o = OptRecord::from_record(rec);
    let raw: Vec<Result<UnknownOptData<&[u8]>, _>> = o.opt().iter::<UnknownOptData<&[u8]>>().take(LIMIT).collect();
    let typed: Vec<bool> = o.opt().iter::<AllOptData<&[u8], ob::Name<&[u8]>>>().take(LIMIT).map(|x| x.is_ok()).collect();
    let mut opts = Vec::new();
    for (i, x) in raw.iter().enumerate() {
        let x = x.as_ref().ok()?;
        let code = x.code().to_int();
        let ok = if code == 10 || code == 15 { typed.get(i).copied().unwrap_or(false) } else { true };
        opts.push((code, x.data().to_vec(), ok));
    }
    Some((o.udp_payload_size(), (o.rcode(header).to_int() >> 4) as u8, o.version(), o.dnssec_ok(), opts))
}

fn observe_old(msg: &[u8], offsets: &[usize]) -> Obs {
    let mut o = Obs::default();
    for &pos in offsets {
        let n = old_name(msg, pos);
        o.names.push([n.clone(), n.clone(), n.clone(), n]);
        o.skip.push((|| {
            let mut p = old_parser(msg, pos)?;
            ParsedName::skip(&mut p).ok()?;
            Some(p.pos())
        })());
        let f: NameObs = (|| {
            let mut p = old_parser(msg, pos)?;
            let n = ob::Name::<&[u8]>::parse(&mut p).ok()?;
            Some((n.as_slice().to_vec(), p.pos()))
        })();
        o.flat.push([f.clone(), f.clone(), f]);
        let q: QObs = (|| {
            let mut p = old_parser(msg, pos)?;
            let q = ob::Question::<ParsedName<&[u8]>>::parse(&mut p).ok()?;
            Some((old_labels_wire(q.qname()), q.qtype().to_int(), q.qclass().to_int(), p.pos()))
        })();
        o.questions.push([q.clone(), q]);
        let r = old_record_at(msg, pos);
        o.records.push([r.clone(), r]);
        let cs: NameObs = (|| {
            let mut p = old_parser(msg, pos)?;
            let c = ob::charstr::CharStr::<&[u8]>::parse(&mut p).ok()?;
            Some((c.as_slice().to_vec(), p.pos()))
        })();
        o.charstr.push(cs.clone());
        o.charstr_buf.push(cs);
        // uncompressed question / record: the established codec's flat name
        // followed by the fixed fields read by the harness
        let f = &o.flat.last().unwrap()[0];
        o.flatq.push(f.as_ref().and_then(|(w, e)| {
            let b = msg.get(*e..*e + 4)?;
            Some((w.clone(), u16::from_be_bytes([b[0], b[1]]), u16::from_be_bytes([b[2], b[3]]), e + 4))
        }));
        o.flatr.push(f.as_ref().and_then(|(w, e)| {
            let b = msg.get(*e..*e + 10)?;
            let rdlen = u16::from_be_bytes([b[8], b[9]]) as usize;
            let rd = msg.get(e + 10..e + 10 + rdlen)?;
            Some((w.clone(), u16::from_be_bytes([b[0], b[1]]), u16::from_be_bytes([b[2], b[3]]), u32::from_be_bytes([b[4], b[5], b[6], b[7]]), rd.to_vec(), e + 10 + rdlen))
        }));
        o.unparsed_flat.push(*o.skip.last().unwrap());
        o.label.push(msg.get(pos..).and_then(|b| ob::name::Label::split_from(b).ok()).map(|(l, rest)| {
            let mut w = vec![l.len() as u8];
            w.extend_from_slice(l.as_slice());
            (w, msg.len() - rest.len())
        }));
    }
    // whole message
    o.msg = (|| {
        let m = ob::Message::from_slice(msg).ok()?;
        let mut mo = MsgObs::default();
        let h = m.header();
        let c = m.header_counts();
        mo.header = (h.id(), u16::from_be_bytes([m.as_slice()[2], m.as_slice()[3]]), [c.qdcount(), c.ancount(), c.nscount(), c.arcount()]);
        let _ = h.flags();
        mo.hflags = Some((h.qr(), h.opcode().to_int(), h.aa(), h.tc(), h.rd(), h.ra(), h.ad(), h.cd(), h.rcode().to_int()));
        let mut q = m.question();
        for _ in 0..LIMIT {
            let pos = q.pos();
            match q.next() {
                Some(Ok(x)) => {
                    mo.items.push(Item { sec: 0, pos, name: old_labels_wire(x.qname()), t: x.qtype().to_int(), c: x.qclass().to_int(), ttl: 0, rdata: vec![] });
                    mo.typed.push(None);
                    mo.edns.push(None);
                }
                Some(Err(_)) => {
                    mo.err_at = Some((0, pos));
                    return Some(mo);
                }
                None => break,
            }
        }
        let mut sec = match q.answer() {
            Ok(s) => s,
            Err(_) => {
                o.errs.push("old|question-section|answer()-fails-after-clean-iteration".into());
                return Some(mo);
            }
        };
        for s in 1..=3u8 {
            for _ in 0..LIMIT {
                let pos = sec.pos();
                match sec.next() {
                    Some(Ok(r)) => {
                        let data = match old_opaque(&r) {
                            Some(d) => d,
                            None => {
                                o.errs.push("old|record|opaque-view-fails-on-parsed-record".into());
                                vec![]
                            }
                        };
                        mo.items.push(Item { sec: s, pos, name: old_labels_wire(&r.owner()), t: r.rtype().to_int(), c: r.class().to_int(), ttl: r.ttl().as_secs(), rdata: data });
                        mo.typed.push(Some(old_typed(&r)));
                        mo.edns.push(if s == 3 && r.rtype().to_int() == 41 && r.owner().is_root() { old_edns(&r, h) } else { None });
                    }
                    Some(Err(_)) => {
                        mo.err_at = Some((s, pos));
                        return Some(mo);
                    }
                    None => break,
                }
            }
            if s < 3 {
                sec = match sec.next_section() {
                    Ok(Some(n)) => n,
                    _ => {
                        o.errs.push("old|record-section|next_section()-fails-after-clean-iteration".into());
                        return Some(mo);
                    }
                };
            }
        }
        Some(mo)
    })();
    o
}

// ---- new side

trait NewName: Sized + Clone {
    fn split(contents: &[u8], start: usize) -> Result<(Self, usize), ()>;
    fn parse(contents: &[u8], start: usize) -> Result<Self, ()>;
    fn wire(&self, errs: &mut Vec<String>) -> Vec<u8>;
}
impl NewName for NameBuf {
    fn split(contents: &[u8], start: usize) -> Result<(Self, usize), ()> {
        <NameBuf as SplitMessageBytes>::split_message_bytes(contents, start).map_err(|_| ())
    }
    fn parse(contents: &[u8], start: usize) -> Result<Self, ()> {
        <NameBuf as ParseMessageBytes>::parse_message_bytes(contents, start).map_err(|_| ())
    }
    fn wire(&self, errs: &mut Vec<String>) -> Vec<u8> {
        let w = self.as_bytes().to_vec();
        let mut l = Vec::new();
        for lab in self.labels().take(300) {
            l.extend_from_slice(lab.as_wire());
        }
        if l != w {
            errs.push("new|Name|labels()-differ-from-as_bytes()".into());
        }
        if self.len() != w.len() {
            errs.push("new|Name|len()-wrong".into());
        }
        w
    }
}
impl NewName for RevNameBuf {
    fn split(contents: &[u8], start: usize) -> Result<(Self, usize), ()> {
        <RevNameBuf as SplitMessageBytes>::split_message_bytes(contents, start).map_err(|_| ())
    }
    fn parse(contents: &[u8], start: usize) -> Result<Self, ()> {
        <RevNameBuf as ParseMessageBytes>::parse_message_bytes(contents, start).map_err(|_| ())
    }
    fn wire(&self, errs: &mut Vec<String>) -> Vec<u8> {
        let mut buf = [0u8; 255];
        let w = match self.build_bytes(&mut buf) {
            Ok(rest) => {
                let n = 255 - rest.len();
                buf[..n].to_vec()
            }
            Err(_) => {
                errs.push("new|RevName|build_bytes-fails-into-255-octets".into());
                return vec![0xFF];
            }
        };
        // labels() yields root first, then outermost..innermost
        let labs: Vec<Vec<u8>> = self.labels().take(300).map(|l| l.as_wire().to_vec()).collect();
        let mut l = Vec::new();
        for lab in labs.iter().rev() {
            l.extend_from_slice(lab);
        }
        if l != w {
            errs.push("new|RevName|labels()-differ-from-build_bytes()".into());
        }
        if self.len() != w.len() || self.built_bytes_size() != w.len() {
            errs.push("new|RevName|len()-wrong".into());
        }
        let conv: NameBuf = self.clone().into();
        if conv.as_bytes() != &w[..] {
            errs.push("new|RevNameBuf-into-NameBuf|content-differs".into());
        }
        w
    }
}

fn new_name_views<N: NewName>(contents: &[u8], start: usize, old_end: Option<usize>, errs: &mut Vec<String>) -> (NameObs, NameObs) {
    let split = match N::split(contents, start) {
        Ok((n, end)) => Some((n.wire(errs), end + 12)),
        Err(()) => None,
    };
    // parse_message_bytes must consume the given range exactly: give it the
    // range ending where the established codec says the name ends (or the
    // whole contents if the established codec rejects).
    let range_end = match old_end {
        Some(e) if e >= 12 && e - 12 <= contents.len() && e - 12 >= start => e - 12,
        _ => contents.len(),
    };
    let parse = match N::parse(&contents[..range_end], start) {
        Ok(n) => Some((n.wire(errs), range_end + 12)),
        Err(()) => None,
    };
    (split, parse)
}

fn new_question<N: NewName + for<'a> SplitMessageBytes<'a>>(contents: &[u8], start: usize, errs: &mut Vec<String>) -> QObs {
    match nb::Question::<N>::split_message_bytes(contents, start) {
        Ok((q, end)) => Some((q.qname.wire(errs), q.qtype.code.get(), q.qclass.code.get(), end + 12)),
        Err(_) => None,
    }
}

fn new_record<'a, N: NewName + SplitMessageBytes<'a>>(contents: &'a [u8], start: usize, errs: &mut Vec<String>) -> RObs {
    match nb::Record::<N, &'a UnparsedRecordData>::split_message_bytes(contents, start) {
        Ok((r, end)) => Some((r.rname.wire(errs), r.rtype.code.get(), r.rclass.code.get(), r.ttl.value.get(), r.rdata.to_vec(), end + 12)),
        Err(_) => None,
    }
}

fn build_vec<T: BuildBytes + ?Sized>(x: &T) -> Result<Vec<u8>, ()> {
    let n = x.built_bytes_size();
    let mut v = vec![0u8; n + 8];
    let rest = x.build_bytes(&mut v).map_err(|_| ())?.len();
    let used = n + 8 - rest;
    v.truncate(used);
    Ok(v)
}

fn new_typed_record(contents: &[u8], start: usize, sec: u8, errs: &mut Vec<String>) -> Typed {
    // MessageParser dispatches additional-section records that start with
    // "0 0 41" to EdnsRecord (src/new/base/parse/message.rs:123-127).
    if sec == 3 && contents[start..].starts_with(&[0, 0, 41]) {
        match EdnsRecord::<&NOpt>::split_message_bytes(contents, start) {
            Ok((e, _)) => {
                let rec: nb::Record<RevNameBuf, NRecordData<'_, NameBuf>> = e.into();
                match build_vec(&rec.rdata) {
                    Ok(v) => Ok((false, v)),
                    Err(()) => {
                        errs.push("new|typed|rdata-build_bytes-fails".into());
                        Err(())
                    }
                }
            }
            Err(_) => Err(()),
        }
    } else {
        let boxed = nb::Record::<RevNameBuf, domain::new::rdata::BoxedRecordData>::split_message_bytes(contents, start);
        match nb::Record::<RevNameBuf, NRecordData<'_, NameBuf>>::split_message_bytes(contents, start) {
            Ok((rec, _)) => match build_vec(&rec.rdata) {
                Ok(v) => {
                    // a second representation of the same content
                    match &boxed {
                        Ok((b, _)) => {
                            let c = b.rdata.clone();
                            if b.rdata.bytes() != &v[..] || b.rdata.rtype() != rec.rtype || rec.rdata.rtype() != rec.rtype || !(c == b.rdata) || build_vec(&b.rdata.get()).ok().as_deref() != Some(&v[..]) {
                                errs.push("new|BoxedRecordData|content-differs-from-RecordData".into());
                            }
                        }
                        Err(_) => errs.push("new|BoxedRecordData|rejects-what-RecordData-accepts".into()),
                    }
                    // the compression-less entry point, when nothing is compressed
                    if let Ok((fr, _)) = nb::Record::<NameBuf, &UnparsedRecordData>::split_bytes(&contents[start..]) {
                        let flat = nb::Record::<NameBuf, NRecordData<'_, NameBuf>>::split_bytes(&contents[start..]);
                        match flat {
                            Ok((f, _)) => {
                                if build_vec(&f.rdata).ok().as_deref() != Some(&v[..]) {
                                    errs.push("new|RecordData|parse_record_data_bytes-content-differs-from-parse_record_data".into());
                                }
                            }
                            Err(_) => {
                                if v[..] == fr.rdata[..] {
                                    errs.push("new|RecordData|parse_record_data_bytes-rejects-uncompressed-data-parse_record_data-accepts".into());
                                }
                            }
                        }
                    }
                    Ok((matches!(rec.rdata, NRecordData::Unknown(..)), v))
                }
                Err(()) => {
                    errs.push("new|typed|rdata-build_bytes-fails".into());
                    Err(())
                }
            },
            Err(_) => {
                if boxed.is_ok() {
                    errs.push("new|BoxedRecordData|accepts-what-RecordData-rejects".into());
                }
                Err(())
            }
        }
    }
}

fn new_edns(contents: &[u8], start: usize, errs: &mut Vec<String>) -> Option<EdnsObs> {
    use domain::new::edns::EdnsOption;
    let (e, end) = EdnsRecord::<&NOpt>::split_message_bytes(contents, start).ok()?;
    // the same record through the generic Record type and the conversions
    match nb::Record::<RevNameBuf, NRecordData<'_, NameBuf>>::split_message_bytes(contents, start) {
        Ok((rec, end2)) => match EdnsRecord::<&NOpt>::try_from(rec) {
            Ok(e2) => {
                if !(e2 == e) || end2 != end {
                    errs.push("new|EdnsRecord|try_from(Record)-differs-from-direct-parse".into());
                }
            }
            Err(_) => errs.push("new|EdnsRecord|try_from(Record)-fails-on-a-record-EdnsRecord-parses".into()),
        },
        Err(_) => errs.push("new|EdnsRecord|accepted-but-Record<RecordData>-rejects".into()),
    }
    match EdnsRecord::<&NOpt>::parse_message_bytes(&contents[..end], start) {
        Ok(e3) if e3 == e => {}
        _ => errs.push("new|EdnsRecord|parse_message_bytes-vs-split_message_bytes".into()),
    }
    let t = e.transform_ref(|o| *o);
    let t2 = e.clone().transform(|o| o);
    if !(t == e) || !(t2 == e) || (t.max_udp_payload, t.ext_rcode, t.version, t.flags.bits()) != (e.max_udp_payload, e.ext_rcode, e.version, e.flags.bits()) {
        errs.push("new|EdnsRecord|transform-changes-a-field".into());
    }
    if build_vec(&e).ok().as_deref() != Some(&contents[start..end]) {
        errs.push("new|EdnsRecord|build_bytes-does-not-reproduce-the-parsed-octets".into());
    }
    // flags word against the octets
    if e.flags.bits() != u16::from_be_bytes([contents[start + 7], contents[start + 8]]) || e.flags.is_dnssec_ok() != (contents[start + 7] & 0x80 != 0) {
        errs.push("new|EdnsFlags|bits/is_dnssec_ok-differ-from-the-octets".into());
    }
    let mut opts = Vec::new();
    for o in e.data.options().take(LIMIT) {
        match o {
            Ok(o) => {
                let b = build_vec(&o).ok()?;
                if b.len() < 4 || u16::from_be_bytes([b[0], b[1]]) != o.code().code.get() {
                    errs.push("new|EdnsOption|build_bytes-inconsistent-with-code()".into());
                }
                // typed parse of the single option agrees with the iterator
                if EdnsOption::parse_bytes(&b).ok().as_ref() != Some(&o) {
                    errs.push("new|EdnsOption|parse_bytes(build_bytes(option))-differs".into());
                }
                opts.push((o.code().code.get(), b[4.min(b.len())..].to_vec(), true));
            }
            Err(u) => opts.push((u.code.code.get(), u.data.to_vec(), false)),
        }
    }
    Some((e.max_udp_payload.get(), e.ext_rcode, e.version, e.flags.is_dnssec_ok(), opts))
}

fn observe_new(msg: &[u8], offsets: &[usize], old_ends: &[Option<usize>]) -> Obs {
    let mut o = Obs::default();
    let mut errs = Vec::new();
    if msg.len() >= 12 {
        let contents = &msg[12..];
        for (i, &pos) in offsets.iter().enumerate() {
            if pos < 12 || pos > msg.len() {
                o.names.push([None, None, None, None]);
                o.skip.push(None);
                o.flat.push([None, None, None]);
                o.questions.push([None, None]);
                o.records.push([None, None]);
                o.charstr.push(None);
                o.charstr_buf.push(None);
                o.flatq.push(None);
                o.flatr.push(None);
                o.unparsed_flat.push(None);
                o.label.push(None);
                continue;
            }
            let start = pos - 12;
            let (a_s, a_p) = new_name_views::<NameBuf>(contents, start, old_ends[i], &mut errs);
            let (r_s, r_p) = new_name_views::<RevNameBuf>(contents, start, old_ends[i], &mut errs);
            o.names.push([a_s, r_s, a_p, r_p]);
            o.skip.push(match <&UnparsedName>::split_message_bytes(contents, start) {
                Ok((u, end)) => {
                    if u.as_bytes() != &contents[start..end] || u.len() != end - start {
                        errs.push("new|UnparsedName|bytes-differ-from-input-range".into());
                    }
                    Some(end + 12)
                }
                Err(_) => None,
            });
            let bytes = &contents[start..];
            let f0: NameObs = <&NName>::split_bytes(bytes).ok().map(|(n, rest)| (n.as_bytes().to_vec(), msg.len() - rest.len()));
            let f1: NameObs = NameBuf::split_bytes(bytes).ok().map(|(n, rest)| (n.wire(&mut errs), msg.len() - rest.len()));
            let f2: NameObs = RevNameBuf::split_bytes(bytes).ok().map(|(n, rest)| (n.wire(&mut errs), msg.len() - rest.len()));
            o.flat.push([f0, f1, f2]);
            o.questions.push([new_question::<RevNameBuf>(contents, start, &mut errs), new_question::<NameBuf>(contents, start, &mut errs)]);
            o.records.push([new_record::<RevNameBuf>(contents, start, &mut errs), new_record::<NameBuf>(contents, start, &mut errs)]);
            let cs: NameObs = <&CharStr>::split_message_bytes(contents, start).ok().map(|(c, end)| (c.octets.to_vec(), end + 12));
            if let Some((w, end)) = &cs {
                let c = <&CharStr>::parse_message_bytes(&contents[..end - 12], start);
                match c {
                    Ok(c) if c.octets == w[..] && c.len() == w.len() && c.is_empty() == w.is_empty() => {
                        if build_vec(c).ok().as_deref() != Some(&contents[start..end - 12]) {
                            errs.push("new|CharStr|build_bytes-does-not-reproduce-the-parsed-octets".into());
                        }
                    }
                    _ => errs.push("new|CharStr|parse_message_bytes-vs-split_message_bytes".into()),
                }
            }
            o.charstr.push(cs);
            o.charstr_buf.push(nb::CharStrBuf::split_message_bytes(contents, start).ok().map(|(c, end)| {
                if c.wire_bytes() != &contents[start..end] || build_vec(&c).ok().as_deref() != Some(&contents[start..end]) {
                    errs.push("new|CharStrBuf|wire_bytes/build_bytes-do-not-reproduce-the-parsed-octets".into());
                }
                (c.octets.to_vec(), end + 12)
            }));
            o.flatq.push(nb::Question::<NameBuf>::split_bytes(bytes).ok().map(|(q, rest)| {
                let end = msg.len() - rest.len();
                if build_vec(&q).ok().as_deref() != Some(&msg[pos..end]) {
                    errs.push("new|Question|build_bytes-does-not-reproduce-an-uncompressed-question".into());
                }
                if nb::Question::<RevNameBuf>::parse_bytes(&msg[pos..end]).ok().map(|x| x.qname.wire(&mut errs)) != Some(q.qname.as_bytes().to_vec()) {
                    errs.push("new|Question|parse_bytes-vs-split_bytes".into());
                }
                (q.qname.wire(&mut errs), q.qtype.code.get(), q.qclass.code.get(), end)
            }));
            o.flatr.push(nb::Record::<NameBuf, &UnparsedRecordData>::split_bytes(bytes).ok().map(|(r, rest)| {
                let end = msg.len() - rest.len();
                if build_vec(&r).ok().as_deref() != Some(&msg[pos..end]) {
                    errs.push("new|Record|build_bytes-does-not-reproduce-an-uncompressed-record".into());
                }
                if nb::Record::<RevNameBuf, &UnparsedRecordData>::parse_bytes(&msg[pos..end]).is_err() {
                    errs.push("new|Record|parse_bytes-vs-split_bytes".into());
                }
                (r.rname.wire(&mut errs), r.rtype.code.get(), r.rclass.code.get(), r.ttl.value.get(), r.rdata.to_vec(), end)
            }));
            o.unparsed_flat.push(<&UnparsedName>::split_bytes(bytes).ok().map(|(u, rest)| {
                let end = msg.len() - rest.len();
                if u.as_bytes() != &msg[pos..end] {
                    errs.push("new|UnparsedName|split_bytes-bytes-differ-from-input-range".into());
                }
                let ptr = if end - pos >= 2 && msg[end - 2] >= 0xC0 && u.as_bytes().len() == 2 { Some(u16::from_be_bytes([msg[end - 2], msg[end - 1]]) & 0x3FFF) } else { None };
                if u.as_bytes().len() == 2 && u.pointer_value() != ptr {
                    errs.push("new|UnparsedName|pointer_value-wrong".into());
                }
                if u.is_root() != (u.as_bytes() == [0]) {
                    errs.push("new|UnparsedName|is_root-wrong".into());
                }
                end
            }));
            o.label.push(<&nb::name::Label>::split_bytes(bytes).ok().map(|(l, rest)| (l.as_wire().to_vec(), msg.len() - rest.len())));
        }
    }
    // whole message, opaque view through the documented low-level API
    o.msg = (|| {
        let m = nb::Message::parse_bytes_by_ref(msg).ok()?;
        let mut mo = MsgObs::default();
        let counts = *m.header.counts.as_array();
        mo.header = (m.header.id.get(), m.header.flags.bits(), [counts[0].get(), counts[1].get(), counts[2].get(), counts[3].get()]);
        let nf = m.header.flags;
        mo.hflags = Some((nf.qr(), nf.opcode(), nf.aa(), nf.tc(), nf.rd(), nf.ra(), nf.ad(), nf.cd(), nf.rcode()));
        let contents = &m.contents;
        let mut off = 0usize;
        'outer: for sec in 0..4u8 {
            for _ in 0..counts[sec as usize].get() {
                if sec == 0 {
                    match nb::Question::<RevNameBuf>::split_message_bytes(contents, off) {
                        Ok((q, end)) => {
                            mo.items.push(Item { sec, pos: off + 12, name: q.qname.wire(&mut errs), t: q.qtype.code.get(), c: q.qclass.code.get(), ttl: 0, rdata: vec![] });
                            mo.typed.push(None);
                            mo.edns.push(None);
                            off = end;
                        }
                        Err(_) => {
                            mo.err_at = Some((sec, off + 12));
                            break 'outer;
                        }
                    }
                } else {
                    match nb::Record::<RevNameBuf, &UnparsedRecordData>::split_message_bytes(contents, off) {
                        Ok((r, end)) => {
                            mo.items.push(Item { sec, pos: off + 12, name: r.rname.wire(&mut errs), t: r.rtype.code.get(), c: r.rclass.code.get(), ttl: r.ttl.value.get(), rdata: r.rdata.to_vec() });
                            mo.typed.push(Some(new_typed_record(contents, off, sec, &mut errs)));
                            mo.edns.push(if sec == 3 && contents[off..].starts_with(&[0, 0, 41]) { new_edns(contents, off, &mut errs) } else { None });
                            off = end;
                        }
                        Err(_) => {
                            mo.err_at = Some((sec, off + 12));
                            break 'outer;
                        }
                    }
                }
            }
        }
        // mid-level API
        let mut mp = MessageParser::new(msg).ok()?;
        for _ in 0..LIMIT {
            let pos = mp.offset() + 12;
            match mp.next() {
                None => break,
                Some(Err(_)) => mo.mp.push(Err(())),
                Some(Ok(item)) => {
                    let (sec, rec): (u8, Option<nb::Record<RevNameBuf, NRecordData<'_, NameBuf>>>) = match item {
                        MessageItem::Question(q) => {
                            mo.mp.push(Ok((Item { sec: 0, pos, name: q.qname.wire(&mut errs), t: q.qtype.code.get(), c: q.qclass.code.get(), ttl: 0, rdata: vec![] }, vec![])));
                            continue;
                        }
                        MessageItem::Answer(r) => (1, Some(r)),
                        MessageItem::Authority(r) => (2, Some(r)),
                        MessageItem::Additional(r) => (3, Some(r)),
                        MessageItem::Edns(e) => (3, Some(e.into())),
                    };
                    let r = rec.unwrap();
                    let typed = build_vec(&r.rdata).unwrap_or_else(|_| vec![0xFF, 0xFF, 0xFF]);
                    mo.mp.push(Ok((Item { sec, pos, name: r.rname.wire(&mut errs), t: r.rtype.code.get(), c: r.rclass.code.get(), ttl: r.ttl.value.get(), rdata: vec![] }, typed)));
                }
            }
        }
        Some(mo)
    })();
    o.errs = errs;
    o
}

// ------------------------------------------------------- Part 1: the oracle

fn parse_case_json(msg: &[u8], offsets: &[usize], family: &str) -> Value {
    json!({"part": "parse", "family": family, "message": hex(msg), "offsets": offsets})
}

struct Cx<'a> {
    ctx: &'a Ctx,
    msg: &'a [u8],
    offsets: &'a [usize],
    family: &'a str,
    verbose: bool,
}
impl Cx<'_> {
    fn viol(&self, sig: &str, what: &str) {
        if self.verbose {
            println!("  VIOLATION {sig}: {what}");
        }
        self.ctx.violation(sig, what, parse_case_json(self.msg, self.offsets, self.family));
    }
}

/// Generic differential comparison of one unit under one view.
/// Returns true if both accepted with equal content.
fn cmp_unit<T: PartialEq + std::fmt::Debug>(cx: &Cx, view: &str, pos: usize, old: &Option<T>, new: &Option<T>, wl: impl FnOnce() -> bool, field: impl Fn(&T, &T) -> &'static str) -> bool {
    let u = uv(view);
    match (old, new) {
        (None, None) => {
            bump(u, 1);
            false
        }
        (Some(a), Some(b)) => {
            if a == b {
                bump(u, 0);
                true
            } else {
                bump(u, 3);
                cx.viol(&format!("C19|parse|unit={view}|both-accept|content-differs|field={}", field(a, b)), &format!("at offset {pos}: established codec gives {a:?}, new codec gives {b:?}"));
                false
            }
        }
        (Some(a), None) => {
            if wl() {
                bump(u, 2);
            } else {
                bump(u, 3);
                cx.viol(&format!("C19|parse|unit={view}|old=accept,new=reject"), &format!("at offset {pos}: established codec accepts ({a:?}), new codec rejects, and no documented rule excuses it"));
            }
            false
        }
        (None, Some(b)) => {
            bump(u, 3);
            cx.viol(&format!("C19|parse|unit={view}|old=reject,new=accept"), &format!("at offset {pos}: established codec rejects, new codec accepts ({b:?})"));
            false
        }
    }
}

fn name_field(a: &(Vec<u8>, usize), b: &(Vec<u8>, usize)) -> &'static str {
    if a.0 != b.0 {
        "labels"
    } else {
        let _ = b;
        "end-position"
    }
}
fn q_field(a: &(Vec<u8>, u16, u16, usize), b: &(Vec<u8>, u16, u16, usize)) -> &'static str {
    if a.0 != b.0 {
        "qname"
    } else if a.1 != b.1 {
        "qtype"
    } else if a.2 != b.2 {
        "qclass"
    } else {
        "end-position"
    }
}
fn r_field(a: &(Vec<u8>, u16, u16, u32, Vec<u8>, usize), b: &(Vec<u8>, u16, u16, u32, Vec<u8>, usize)) -> &'static str {
    if a.0 != b.0 {
        "owner"
    } else if a.1 != b.1 {
        "type"
    } else if a.2 != b.2 {
        "class"
    } else if a.3 != b.3 {
        "ttl"
    } else if a.4 != b.4 {
        "rdata"
    } else {
        "end-position"
    }
}
fn item_field(a: &Item, b: &Item) -> &'static str {
    if a.sec != b.sec {
        "section"
    } else if a.pos != b.pos {
        "position"
    } else if a.name != b.name {
        "name"
    } else if a.t != b.t {
        "type"
    } else if a.c != b.c {
        "class"
    } else if a.ttl != b.ttl {
        "ttl"
    } else {
        "rdata"
    }
}

struct CaseSummary {
    nontrivial: bool,
}

fn compare(cx: &Cx, old: &Obs, new: &Obs) -> CaseSummary {
    let msg = cx.msg;
    let mut nontrivial = false;
    for e in &old.errs {
        cx.viol(&format!("C19|parse|{e}"), e);
    }
    for e in &new.errs {
        cx.viol(&format!("C19|parse|{e}"), e);
    }
    for (i, &pos) in cx.offsets.iter().enumerate() {
        if pos < 12 || pos > msg.len() || new.names.len() <= i || old.names.len() <= i {
            continue;
        }
        let mut wl_cache: Option<bool> = None;
        let mut wl = || *wl_cache.get_or_insert_with(|| whitelisted(msg, pos));
        // compressed names, four views
        for (vi, view) in ["name/NameBuf.split", "name/RevNameBuf.split", "name/NameBuf.parse", "name/RevNameBuf.parse"].iter().enumerate() {
            let both = if vi < 2 {
                cmp_unit(cx, view, pos, &old.names[i][vi], &new.names[i][vi], &mut wl, name_field)
            } else {
                // the bounded-range views are handed the octets up to the end of the name
                let limit = old.names[i][vi].as_ref().map(|x| x.1).unwrap_or(msg.len());
                cmp_unit(cx, view, pos, &old.names[i][vi], &new.names[i][vi], || name_excused_in_range(msg, pos, limit), name_field)
            };
            if both {
                if let Ok((_, _, n)) = ref_name(msg, pos, Rule::Rfc) {
                    nontrivial |= n > 0;
                }
            }
        }
        // UnparsedName: U1 and U2
        {
            let u = uv("name/UnparsedName");
            let on = &old.names[i][0];
            match (on, new.skip[i]) {
                (Some((_, oe)), Some(ne)) => {
                    if *oe == ne {
                        bump(u, 0);
                    } else {
                        bump(u, 3);
                        cx.viol("C19|parse|unit=name/UnparsedName|both-accept|content-differs|field=end-position", &format!("at offset {pos}: ParsedName ends at {oe}, UnparsedName at {ne}"));
                    }
                }
                (Some(_), None) => {
                    if wl() {
                        bump(u, 2);
                    } else {
                        bump(u, 3);
                        cx.viol("C19|parse|unit=name/UnparsedName|old=accept,new=reject", &format!("at offset {pos}: the established codec (and the RFC and the new codec's documented pointer rule) accept the name, UnparsedName::split_message_bytes rejects it"));
                    }
                }
                (None, None) => bump(u, 1),
                (None, Some(_)) => bump(u, 4),
            }
            if let Some(ne) = new.skip[i] {
                if old.skip[i] != Some(ne) {
                    cx.viol("C19|parse|unit=name/UnparsedName|accepts-what-ParsedName::skip-does-not", &format!("at offset {pos}: UnparsedName ends at {ne}, ParsedName::skip gives {:?}", old.skip[i]));
                }
            }
        }
        for (vi, view) in ["flat/&Name", "flat/NameBuf", "flat/RevNameBuf"].iter().enumerate() {
            cmp_unit(cx, view, pos, &old.flat[i][vi], &new.flat[i][vi], || false, name_field);
        }
        for (vi, view) in ["question/RevNameBuf", "question/NameBuf"].iter().enumerate() {
            cmp_unit(cx, view, pos, &old.questions[i][vi], &new.questions[i][vi], &mut wl, q_field);
        }
        for (vi, view) in ["record/RevNameBuf", "record/NameBuf"].iter().enumerate() {
            if cmp_unit(cx, view, pos, &old.records[i][vi], &new.records[i][vi], &mut wl, r_field) {
                nontrivial |= old.records[i][vi].as_ref().map(|r| !r.4.is_empty()).unwrap_or(false);
            }
        }
        cmp_unit(cx, "charstr/&CharStr", pos, &old.charstr[i], &new.charstr[i], || false, name_field);
        cmp_unit(cx, "charstr/CharStrBuf", pos, &old.charstr_buf[i], &new.charstr_buf[i], || false, name_field);
        cmp_unit(cx, "flat-question/NameBuf", pos, &old.flatq[i], &new.flatq[i], || false, q_field);
        cmp_unit(cx, "flat-record/NameBuf", pos, &old.flatr[i], &new.flatr[i], || false, r_field);
        cmp_unit(cx, "name/UnparsedName.split_bytes", pos, &old.unparsed_flat[i], &new.unparsed_flat[i], || false, |_, _| "end-position");
        cmp_unit(cx, "label/&Label", pos, &old.label[i], &new.label[i], || false, name_field);
    }
    // whole message
    let uh = uv("message/header");
    match (&old.msg, &new.msg) {
        (None, None) => bump(uh, 1),
        (Some(_), None) => {
            bump(uh, 3);
            cx.viol("C19|parse|unit=message/header|old=accept,new=reject", "established codec accepts the octets as a message, new codec does not");
        }
        (None, Some(_)) => {
            bump(uh, 3);
            cx.viol("C19|parse|unit=message/header|old=reject,new=accept", "new codec accepts the octets as a message, established codec does not");
        }
        (Some(o), Some(n)) => {
            if o.header == n.header {
                bump(uh, 0);
            } else {
                bump(uh, 3);
                cx.viol("C19|parse|unit=message/header|content-differs", &format!("header (id, flags, counts): established {:?}, new {:?}", o.header, n.header));
            }
            let uf = uv("message/header-flag-accessors");
            if o.hflags == n.hflags {
                bump(uf, 0);
            } else {
                bump(uf, 3);
                cx.viol("C19|parse|unit=message/header-flag-accessors|content-differs", &format!("(qr, opcode, aa, tc, rd, ra, ad, cd, rcode): established {:?}, new {:?}", o.hflags, n.hflags));
            }
            nontrivial |= compare_messages(cx, o, n);
        }
    }
    CaseSummary { nontrivial }
}

/// Returns true if both accepted at least one item.
fn compare_messages(cx: &Cx, o: &MsgObs, n: &MsgObs) -> bool {
    let msg = cx.msg;
    let um = uv("message/opaque");
    let common = o.items.len().min(n.items.len());
    let mut agreed = common;
    let mut ok = true;
    for i in 0..common {
        if o.items[i] != n.items[i] {
            bump(um, 3);
            cx.viol(&format!("C19|parse|unit=message/opaque|item-content-differs|field={}", item_field(&o.items[i], &n.items[i])), &format!("item {i}: established {:?}, new {:?}", o.items[i], n.items[i]));
            agreed = i;
            ok = false;
            break;
        }
    }
    if ok {
        if o.items.len() > n.items.len() {
            let it = &o.items[n.items.len()];
            if whitelisted(msg, it.pos) {
                bump(um, 2);
            } else {
                bump(um, 3);
                cx.viol(&format!("C19|parse|unit=message/opaque|old=accept,new=reject|section={}", it.sec), &format!("item {} at offset {}: established codec yields {:?}, new codec fails at {:?}", n.items.len(), it.pos, it, n.err_at));
            }
        } else if n.items.len() > o.items.len() {
            let it = &n.items[o.items.len()];
            bump(um, 3);
            cx.viol(&format!("C19|parse|unit=message/opaque|old=reject,new=accept|section={}", it.sec), &format!("item {} at offset {}: new codec yields {:?}, established codec fails at {:?}", o.items.len(), it.pos, it, o.err_at));
        } else if o.err_at != n.err_at {
            bump(um, 3);
            cx.viol("C19|parse|unit=message/opaque|error-position-differs", &format!("after {} equal items: established codec error at {:?}, new codec error at {:?}", common, o.err_at, n.err_at));
        } else if o.err_at.is_some() {
            bump(um, 1);
        } else {
            bump(um, 0);
        }
    }
    // typed view of every record both accepted structurally
    let ut = uv("typed-record");
    for i in 0..agreed {
        let (Some(ot), Some(nt)) = (&o.typed[i], &n.typed[i]) else { continue };
        let t = o.items[i].t;
        if K_BOTH.contains(&t) && !K_CORE.contains(&t) {
            // content must be equal when both accept; acceptance differences are only counted
            match (ot, nt) {
                (Ok(a), Ok(b)) => {
                    if a.1 == b.1 {
                        bump(ut, 0);
                    } else {
                        bump(ut, 3);
                        cx.viol(&format!("C19|parse|unit=typed-record|rtype={t}|both-accept|recomposed-rdata-differs"), &format!("item {i} at {}: established codec recomposes RDATA as {}, new codec as {}", o.items[i].pos, hex(&a.1), hex(&b.1)));
                    }
                }
                (Err(()), Err(())) => bump(ut, 1),
                (a, _) => {
                    bump(ut, 4);
                    let k = format!("rtype={t}|{}", if a.is_ok() { "old=accept,new=reject" } else { "old=reject,new=accept" });
                    let mut g = STRICTNESS.lock().unwrap();
                    let e = g.entry(k).or_insert(0);
                    *e += 1;
                    if *e == 1 && cx.verbose {
                        println!("  (not asserted) typed strictness difference");
                    }
                }
            }
        } else if K_BOTH.contains(&t) {
            match (ot, nt) {
                (Ok(a), Ok(b)) => {
                    if a.1 == b.1 {
                        bump(ut, 0);
                    } else {
                        bump(ut, 3);
                        cx.viol(&format!("C19|parse|unit=typed-record|rtype={t}|both-accept|recomposed-rdata-differs"), &format!("item {i} at {}: established codec recomposes RDATA as {}, new codec as {}", o.items[i].pos, hex(&a.1), hex(&b.1)));
                    }
                }
                (Err(()), Err(())) => bump(ut, 1),
                (Ok(_), Err(())) if typed_excused(msg, &o.items[i]) || typed_reject_documented(msg, &o.items[i]) => bump(ut, 2),
                // NSEC: the new codec validates the type bitmap (window order,
                // RFC 4034 4.1.2), the established codec does not: semantic
                // validation, not wire format -- counted, not asserted
                (Ok(_), Err(())) if t == 47 => {
                    bump(ut, 4);
                    *STRICTNESS.lock().unwrap().entry("rtype=47|old=accept,new=reject|name-uncompressed".into()).or_insert(0) += 1;
                }
                (Ok(a), Err(())) => {
                    bump(ut, 3);
                    cx.viol(&format!("C19|parse|unit=typed-record|rtype={t}|old=accept,new=reject"), &format!("item {i} at {}: RDATA {} of type {t}: established typed parser accepts (recomposed {}), new typed parser rejects", o.items[i].pos, hex(&o.items[i].rdata), hex(&a.1)));
                }
                (Err(()), Ok(b)) => {
                    bump(ut, 3);
                    cx.viol(&format!("C19|parse|unit=typed-record|rtype={t}|old=reject,new=accept"), &format!("item {i} at {}: RDATA {} of type {t}: established typed parser rejects, new typed parser accepts (recomposed {})", o.items[i].pos, hex(&o.items[i].rdata), hex(&b.1)));
                }
            }
        } else {
            match nt {
                Ok((true, b)) if *b == o.items[i].rdata => bump(ut, 4),
                other => {
                    bump(ut, 3);
                    cx.viol("C19|parse|unit=typed-record|type-unknown-to-new-codec|not-passed-through-verbatim", &format!("item {i} type {t}: new typed view gives {other:?} for RDATA {}", hex(&o.items[i].rdata)));
                }
            }
        }
    }
    // EDNS view of OPT records
    let ue = uv("edns-record");
    for i in 0..agreed {
        match (&o.edns[i], &n.edns[i]) {
            (Some(a), Some(b)) => {
                // the typed validity of a COOKIE / extended-error option (e.g. the
                // new codec insists on UTF-8 EXTRA-TEXT, RFC 8914) is semantic
                // validation: counted, not asserted
                let same_wire = (a.0, a.1, a.2, a.3) == (b.0, b.1, b.2, b.3) && a.4.iter().map(|x| (&x.0, &x.1)).eq(b.4.iter().map(|x| (&x.0, &x.1)));
                if same_wire && a != b {
                    for (x, y) in a.4.iter().zip(&b.4) {
                        if x.2 != y.2 {
                            *STRICTNESS.lock().unwrap().entry(format!("edns-option={}|{}", x.0, if x.2 { "old=accept,new=reject" } else { "old=reject,new=accept" })).or_insert(0) += 1;
                        }
                    }
                }
                if same_wire {
                    bump(ue, 0);
                } else {
                    bump(ue, 3);
                    let field = if a.0 != b.0 {
                        "udp-payload-size"
                    } else if a.1 != b.1 {
                        "extended-rcode"
                    } else if a.2 != b.2 {
                        "version"
                    } else if a.3 != b.3 {
                        "DO-flag"
                    } else if a.4.iter().map(|x| (&x.0, &x.1)).ne(b.4.iter().map(|x| (&x.0, &x.1))) {
                        "options"
                    } else {
                        "typed-validity-of-a-COOKIE-or-EDE-option"
                    };
                    cx.viol(&format!("C19|parse|unit=edns-record|content-differs|field={field}"), &format!("item {i}: established {a:?}, new {b:?}"), );
                }
            }
            (None, None) => {}
            // acceptance of the record as OPT is compared by the typed-record unit (type 41)
            _ => bump(ue, 4),
        }
    }
    // MessageParser (mid-level API) must be the low-level API applied in sequence
    let up = uv("message/MessageParser");
    let mut expect: Vec<bool> = Vec::new();
    let mut stopped = false;
    for i in 0..n.items.len() {
        match &n.typed[i] {
            None | Some(Ok(_)) => expect.push(true),
            Some(Err(())) => {
                expect.push(false);
                stopped = true;
                break;
            }
        }
    }
    if !stopped && n.err_at.is_some() {
        expect.push(false);
    }
    let got: Vec<bool> = n.mp.iter().map(|x| x.is_ok()).collect();
    if got != expect {
        bump(up, 3);
        cx.viol("C19|parse|unit=message/MessageParser|sequence-differs-from-low-level-API", &format!("MessageParser yields ok/err sequence {got:?}, the documented low-level API applied item by item gives {expect:?}"));
    } else {
        let mut same = true;
        for (i, x) in n.mp.iter().enumerate() {
            if let Ok((it, typed)) = x {
                let mut want = n.items[i].clone();
                want.rdata = vec![];
                let want_typed = match &n.typed[i] {
                    Some(Ok((_, v))) => v.clone(),
                    _ => vec![],
                };
                if *it != want || *typed != want_typed {
                    same = false;
                    cx.viol(&format!("C19|parse|unit=message/MessageParser|item-content-differs|field={}", if *it != want { item_field(it, &want) } else { "typed-rdata" }), &format!("item {i}: MessageParser {it:?} / {}, low-level API {want:?} / {}", hex(typed), hex(&want_typed)));
                    break;
                }
            }
        }
        bump(up, if !same { 3 } else if got.iter().all(|x| *x) { 0 } else { 1 });
    }
    agreed > 0
}

/// Conversions between the codecs' name types and name equality: every name
/// the established codec parsed (compressed or flat) is converted with
/// `From<&base::Name>` into both new name types and back; equality of
/// neighbouring names must be judged alike by both codecs.
fn cross_checks(old: &Obs) -> Vec<String> {
    let mut errs = Vec::new();
    let mut prev: Option<Vec<u8>> = None;
    for n in old.names.iter().filter_map(|n| n[0].as_ref()) {
        let w = &n.0;
        let Ok(on) = ob::Name::from_octets(w.as_slice()) else {
            errs.push("cross|established-Name-refuses-wire-form-of-a-parsed-name".into());
            continue;
        };
        let a = NameBuf::from(&on);
        let r = RevNameBuf::from(&on);
        if a.as_bytes() != &w[..] || r.wire(&mut errs) != *w {
            errs.push("cross|From<&base::Name>-changes-the-name".into());
        }
        if a.to_revname().wire(&mut errs) != *w || r.to_name().as_bytes() != &w[..] || RevNameBuf::from(a.clone()).wire(&mut errs) != *w {
            errs.push("cross|to_revname/to_name-change-the-name".into());
        }
        if a.is_root() != (w.len() == 1) || r.is_root() != (w.len() == 1) {
            errs.push("cross|is_root-wrong".into());
        }
        if let Some(p) = &prev {
            let op = ob::Name::from_octets(p.as_slice()).expect("name");
            let (pa, pr) = (NameBuf::from(&op), RevNameBuf::from(&op));
            let want = on == op;
            if (a == pa) != want || (r == pr) != want || (*a == *pa) != want {
                errs.push(format!("cross|name-equality-differs|established={want}"));
            }
            use std::cmp::Ordering;
            if ((a.cmp(&pa) == Ordering::Equal) != want) || ((r.cmp(&pr) == Ordering::Equal) != want) {
                errs.push(format!("cross|name-cmp-equal-differs-from-eq|established={want}"));
            }
        }
        prev = Some(w.clone());
    }
    errs
}

fn run_parse_case(ctx: &Ctx, stats: &Stats, wd: &Watchdog, msg: &[u8], offsets: &[usize], family: &str) {
    stats.eval();
    wd.enter(|| parse_case_json(msg, offsets, family));
    let old = guard(|| observe_old(msg, offsets));
    let old_ends: Vec<Option<usize>> = match &old {
        Ok(o) => o.names.iter().map(|n| n[0].as_ref().map(|x| x.1)).collect(),
        Err(_) => vec![None; offsets.len()],
    };
    let new = guard(|| observe_new(msg, offsets, &old_ends));
    let cross = match &old {
        Ok(o) => guard(|| cross_checks(o)),
        Err(_) => Ok(vec![]),
    };
    wd.leave();
    let cx = Cx { ctx, msg, offsets, family, verbose: ctx.replay.is_some() };
    match (&old, &new) {
        (Ok(o), Ok(n)) => {
            if cx.verbose {
                println!("established codec: names {:?}\n  questions {:?}\n  records {:?}\n  message {:?}", o.names.iter().map(|x| &x[0]).collect::<Vec<_>>(), o.questions.iter().map(|x| &x[0]).collect::<Vec<_>>(), o.records.iter().map(|x| &x[0]).collect::<Vec<_>>(), o.msg);
                println!("new codec: names {:?}\n  unparsed {:?}\n  questions {:?}\n  records {:?}\n  message {:?}", n.names, n.skip, n.questions, n.records, n.msg);
            }
            match &cross {
                Ok(errs) => {
                    for e in errs {
                        cx.viol(&format!("C19|parse|{e}"), e);
                    }
                }
                Err(p) => cx.viol(&format!("C19|parse|panic|name-conversions|{}", panic_class(p)), p),
            }
            let s = compare(&cx, o, n);
            if s.nontrivial {
                stats.nontrivial.fetch_add(1, AO::Relaxed);
                stats.distinct(fnv(msg));
            }
        }
        _ => {
            if let Err(p) = &old {
                cx.viol(&format!("C19|parse|panic|codec=established|{}", panic_class(p)), p);
            }
            if let Err(p) = &new {
                cx.viol(&format!("C19|parse|panic|codec=new|{}", panic_class(p)), p);
            }
        }
    }
}

// --------------------------------------------------------- the generator
// (token grammar of the C01 harness, copied so that C19 sees the same corpus)

fn name_variants(pos: usize, landmarks: &[usize], full: bool) -> Vec<Vec<u8>> {
    let ptr = |t: usize| vec![0xC0 | ((t >> 8) as u8 & 0x3F), t as u8];
    let mut v: Vec<Vec<u8>> = vec![vec![0], vec![1, b'a', 0], ptr(12), ptr(pos)];
    let mut la = vec![1, b'a'];
    la.extend(ptr(12));
    v.push(la);
    for &l in landmarks {
        v.push(ptr(l));
    }
    if full {
        v.push(vec![1, b'A', 0]);
        let mut l63 = vec![63];
        l63.extend(std::iter::repeat(b'x').take(63));
        let mut n255 = Vec::new();
        for k in [63usize, 63, 63, 61] {
            n255.push(k as u8);
            n255.extend(std::iter::repeat(b'y').take(k));
        }
        let mut n256 = n255.clone();
        n256[192] = 62; // last label one longer
        n256.push(b'y');
        n255.push(0);
        n256.push(0);
        let mut one63 = l63.clone();
        one63.push(0);
        v.push(one63);
        v.push(n255);
        v.push(n256);
        // 254 octets of labels followed by a pointer to a name -> too long only after decompression
        let mut long_ptr = Vec::new();
        for k in [63usize, 63, 63, 60] {
            long_ptr.push(k as u8);
            long_ptr.extend(std::iter::repeat(b'z').take(k));
        }
        long_ptr.extend(ptr(12));
        v.push(long_ptr);
        // 252 / 254 octets of labels + pointer: exactly 255 octets when the
        // target is a one-label name / the root
        for last in [59usize, 61] {
            let mut body = Vec::new();
            for k in [63usize, 63, 63, last] {
                body.push(k as u8);
                body.extend(std::iter::repeat(b'q').take(k));
            }
            let mut a = body.clone();
            a.extend(ptr(12));
            v.push(a);
            for &l in landmarks {
                let mut b = body.clone();
                b.extend(ptr(l));
                v.push(b);
            }
        }
        let mut loop_label = vec![1, b'a'];
        loop_label.extend(ptr(pos));
        v.push(loop_label); // pointer back to own start: loop through a label
        v.push(ptr(pos + 2)); // forward
        v.push(ptr(pos + 1)); // into itself
        v.push(ptr(0x3FFF));
        v.push(ptr(0));
        v.push(ptr(2));
        v.push(vec![0x40, 0]);
        v.push(vec![0x80, 1, 0]);
        v.push(vec![5, b'a']); // label overrunning into the following fields
        v.push(vec![]); // missing name
        for &l in landmarks {
            let mut x = vec![1, b'x'];
            x.extend(ptr(l));
            v.push(x);
            v.push(ptr(l + 1));
        }
    }
    v
}

/// (rtype, rdata variants). Names inside RDATA: `nm` builder gets the
/// absolute position where the name will sit.
fn rdata_variants(rtype: u16, rd_pos: usize, full: bool) -> Vec<Vec<u8>> {
    let ptr = |t: usize| vec![0xC0 | ((t >> 8) as u8 & 0x3F), t as u8];
    let nm: Vec<Vec<u8>> = if full { vec![vec![1, b'b', 0], ptr(12), ptr(rd_pos), vec![], [&[1u8, b'c'][..], &ptr(12)[..]].concat()] } else { vec![vec![1, b'b', 0], ptr(12)] };
    let cat = |parts: &[&[u8]]| parts.iter().flat_map(|p| p.iter().cloned()).collect::<Vec<u8>>();
    let mut good: Vec<Vec<u8>> = Vec::new();
    let mut extra: Vec<Vec<u8>> = Vec::new();
    match rtype {
        1 => good.push(vec![1, 2, 3, 4]),
        28 => good.push(vec![0; 16]),
        2 | 5 | 12 | 39 | 7 | 8 | 9 | 3 | 4 => {
            for n in &nm {
                good.push(n.clone());
            }
        }
        6 => {
            for n in &nm {
                good.push(cat(&[n, &[1, b'r', 0], &[0; 20]]));
            }
            for n in &nm {
                extra.push(cat(&[&[1, b'm', 0], n, &[0; 20]])); // second name position
            }
            extra.push(cat(&[&ptr(12), &ptr(12), &[0; 20]]));
            extra.push(cat(&[&ptr(12), &ptr(12), &[0; 19]]));
            extra.push(cat(&[&ptr(12), &ptr(12), &[0; 21]]));
        }
        15 => {
            for n in &nm {
                good.push(cat(&[&[0, 10], n]));
            }
            extra.push(vec![0]);
        }
        14 | 17 => {
            for n in &nm {
                good.push(cat(&[n, &[1, b'e', 0]]));
            }
            for n in &nm {
                extra.push(cat(&[&[1, b'm', 0], n])); // second name position
            }
            extra.push(cat(&[&ptr(12), &ptr(12)]));
        }
        16 => {
            good.push(vec![3, b'a', b'b', b'c']);
            extra.push(vec![5, b'a']);
            extra.push(vec![0]);
            extra.push(vec![1, b'a', 0, 2, b'b', b'c']);
            let mut long = vec![255];
            long.extend(std::iter::repeat(b't').take(255));
            extra.push(long);
        }
        13 => {
            good.push(vec![1, b'a', 1, b'b']);
            extra.push(vec![1, b'a', 5, b'b']);
        }
        33 => {
            for n in &nm {
                good.push(cat(&[&[0, 1, 0, 2, 0, 80], n]));
            }
        }
        41 => {
            good.push(vec![]);
            good.push(vec![0, 8, 0, 4, 0, 1, 24, 0]); // client subnet short
            good.push(vec![0, 8, 0, 7, 0, 1, 24, 0, 192, 0, 2]);
            good.push(vec![0, 10, 0, 8, 1, 2, 3, 4, 5, 6, 7, 8]); // cookie
            extra.push(vec![0, 10, 0, 7, 1, 2, 3, 4, 5, 6, 7]); // bad cookie length
            extra.push(vec![0, 3, 0, 2, b'n', b's']);
            extra.push(vec![0, 12, 0, 3, 0, 0, 0]);
            extra.push(vec![0, 15, 0, 1, 0]); // extended error short
            extra.push(vec![0, 15, 0, 4, 0, 1, 0xff, 0xfe]); // ede with non-utf8 text
            extra.push(vec![0, 11, 0, 1, 0]); // keepalive bad len
            extra.push(vec![0, 11, 0, 2, 0, 1]);
            extra.push(vec![0, 5, 0, 1, 8]); // DAU
            extra.push(vec![0, 14, 0, 3, 0, 1, 0]); // key tag odd
            extra.push(vec![0, 9, 0, 4, 0, 0, 0, 1]); // expire
            extra.push(vec![0, 9, 0, 3, 0, 0, 0]);
            extra.push(vec![0, 3, 0, 9, 1]); // option overruns
            extra.push(vec![0, 3, 0]); // truncated option header
            extra.push(vec![0xff, 0xff, 0, 0]);
        }
        46 => {
            for n in &nm {
                good.push(cat(&[&[0, 1, 8, 2, 0, 0, 14, 16, 0, 0, 0, 2, 0, 0, 0, 1, 0x12, 0x34], n, &[9, 9, 9]]));
            }
            extra.push(vec![0; 17]);
        }
        47 => {
            for n in &nm {
                good.push(cat(&[n, &[0, 1, 0x40]]));
            }
            extra.push(cat(&[&[0], &[0, 0]])); // empty window
            extra.push(cat(&[&[0], &[0, 33], &[1; 33]]));
            extra.push(cat(&[&[0], &[0, 2, 0x40]])); // truncated window
            extra.push(cat(&[&[0], &[1, 1, 0x40, 0, 1, 0x40]])); // windows out of order
            extra.push(cat(&[&[0], &[0, 1, 0x40, 0, 1, 0x40]])); // duplicate window
            extra.push(cat(&[&[0], &[0, 1, 0]])); // zero octet
            extra.push(cat(&[&[0], &[0xff, 32], &[0xff; 32]]));
            extra.push(vec![0]);
        }
        50 => {
            good.push(vec![1, 0, 0, 1, 1, 0xab, 2, 0xc, 0xd, 0, 1, 0x40]);
            extra.push(vec![1, 0, 0, 1, 5, 0xab]); // salt overrun
            extra.push(vec![1, 0, 0, 1, 0, 9, 1]); // hash overrun
            extra.push(vec![1, 0, 0, 1, 0, 0]); // empty hash
            extra.push(vec![1, 0, 0, 1, 0, 1, 7, 0, 0]); // empty window
        }
        51 => {
            good.push(vec![1, 0, 0, 1, 1, 0xab]);
            extra.push(vec![1, 0, 0, 1, 2, 0xab]);
        }
        48 | 60 => good.push(vec![1, 1, 3, 8, 1, 2, 3]),
        43 | 59 => good.push(vec![0x12, 0x34, 8, 2, 1, 2, 3, 4]),
        64 | 65 => {
            for n in &nm {
                good.push(cat(&[&[0, 1], n]));
                good.push(cat(&[&[0, 1], n, &[0, 1, 0, 3, 2, b'h', b'2', 0, 3, 0, 2, 1, 187]]));
            }
            extra.push(cat(&[&[0, 1, 0], &[0, 3, 0, 2, 1, 187, 0, 1, 0, 3, 2, b'h', b'2']])); // out of order
            extra.push(cat(&[&[0, 1, 0], &[0, 1, 0, 3, 2, b'h', b'2', 0, 1, 0, 3, 2, b'h', b'2']])); // duplicate
            extra.push(cat(&[&[0, 1, 0], &[0, 1, 0, 9, 2, b'h']])); // param overrun
            extra.push(cat(&[&[0, 1, 0], &[0, 1, 0, 3, 5, b'h', b'2']])); // alpn inner overrun
            extra.push(cat(&[&[0, 1, 0], &[0, 0, 0, 2, 0, 1]])); // mandatory
            extra.push(cat(&[&[0, 1, 0], &[0, 0, 0, 3, 0, 1, 0]])); // mandatory odd
            extra.push(cat(&[&[0, 1, 0], &[0, 4, 0, 5, 1, 2, 3, 4, 5]])); // ipv4hint bad len
            extra.push(cat(&[&[0, 1, 0], &[0, 6, 0, 4, 1, 2, 3, 4]])); // ipv6hint bad len
            extra.push(cat(&[&[0, 1, 0], &[0, 3, 0, 1, 1]])); // port bad len
            extra.push(cat(&[&[0, 1, 0], &[0, 2, 0, 1, 1]])); // no-default-alpn with value
            extra.push(cat(&[&[0, 1, 0], &[0, 1]])); // truncated param header
            extra.push(cat(&[&[0, 1, 0], &[0xff, 0xff, 0, 0]]));
        }
        250 => {
            for n in &nm {
                good.push(cat(&[n, &[0, 0, 0, 0, 0, 1, 1, 44, 0, 2, 7, 7, 0x12, 0x34, 0, 0, 0, 0]]));
            }
            extra.push(cat(&[&[0], &[0, 0, 0, 0, 0, 1, 1, 44, 0, 9, 7, 7, 0x12, 0x34, 0, 0, 0, 0]])); // mac overrun
            extra.push(cat(&[&[0], &[0, 0, 0, 0, 0, 1, 1, 44, 0, 0, 0x12, 0x34, 0, 18, 0, 6, 0, 0, 0, 0, 0, 2]])); // BADTIME other
            extra.push(cat(&[&[0], &[0, 0, 0, 0, 0, 1, 1, 44, 0, 0, 0x12, 0x34, 0, 0, 0, 9, 1]])); // other overrun
        }
        257 => {
            good.push(vec![0, 3, b't', b'a', b'g', b'v']);
            extra.push(vec![0, 9, b't']);
            extra.push(vec![0, 0]);
        }
        35 => {
            for n in &nm {
                good.push(cat(&[&[0, 1, 0, 2, 1, b'f', 1, b's', 1, b'r'], n]));
            }
            extra.push(vec![0, 1, 0, 2, 1, b'f', 9, b's']);
        }
        52 => good.push(vec![3, 1, 1, 0xaa, 0xbb]),
        44 => good.push(vec![1, 1, 0xaa, 0xbb]),
        45 => {
            good.push(vec![10, 0, 2, 1, 2, 3]); // no gateway
            good.push(vec![10, 1, 2, 192, 0, 2, 1, 1, 2, 3]);
            good.push(cat(&[&[10, 2, 2], &[0; 16], &[1, 2]]));
            for n in &nm {
                good.push(cat(&[&[10, 3, 2], n, &[1, 2]]));
            }
            extra.push(vec![10, 4, 2, 1]); // unknown gateway type
            extra.push(vec![10, 1, 2, 192, 0]);
        }
        61 => good.push(vec![1, 2, 3]),
        63 => good.push(vec![0, 0, 0, 1, 1, 1, 0xaa, 0xbb]),
        10 => good.push(vec![1, 2, 3]),
        _ => good.push(vec![0xde, 0xad]),
    }
    let mut v = good.clone();
    if full {
        v.extend(extra);
        // systematic: first good value truncated by one, extended by one, and empty
        if let Some(g) = good.first() {
            if !g.is_empty() {
                v.push(g[..g.len() - 1].to_vec());
            }
            let mut e = g.clone();
            e.push(0);
            v.push(e);
            v.push(vec![]);
        }
    } else {
        v.truncate(1);
    }
    v
}

const TYPES_FULL: &[u16] = &[1, 2, 5, 6, 7, 8, 9, 12, 13, 14, 15, 16, 17, 28, 33, 35, 39, 41, 43, 44, 45, 46, 47, 48, 50, 51, 52, 59, 60, 61, 63, 64, 65, 250, 257, 10, 3, 65280];
const TYPES_REDUCED: &[u16] = &[1, 5, 6, 16, 41, 47, 64, 250];

#[derive(Clone)]
struct GItem {
    bytes: Vec<u8>,
    section: usize, // 0 question, 1 an, 2 ns, 3 ar
    landmarks: Vec<usize>,
}

/// All items that can be appended at `pos` given earlier landmarks.
fn items(pos: usize, landmarks: &[usize], full: bool, quick: bool) -> Vec<GItem> {
    let mut out = Vec::new();
    let names = name_variants(pos, landmarks, full);
    // questions
    let qtypes: &[u16] = if full { &[1, 5, 252, 251, 255] } else { &[1, 252] };
    for n in &names {
        for qt in qtypes {
            let mut b = n.clone();
            b.extend_from_slice(&qt.to_be_bytes());
            b.extend_from_slice(&[0, 1]);
            out.push(GItem { bytes: b, section: 0, landmarks: vec![pos] });
        }
    }
    // records
    let types = if full { TYPES_FULL } else { TYPES_REDUCED };
    let classes: &[u16] = if full && !quick { &[1, 255, 254] } else { &[1] };
    let ttls: &[u32] = if full { &[0, 0xFFFF_FFFF] } else { &[60] };
    for (ni, n) in names.iter().enumerate() {
        for &rt in types {
            // full rdata menus only with the first three owner shapes, reduced ones otherwise
            let rd_pos = pos + n.len() + 10;
            let rds = rdata_variants(rt, rd_pos, full && ni < 3);
            for (ri, rd) in rds.iter().enumerate() {
                let rdlens: Vec<usize> = if full && ri == 0 { vec![rd.len(), rd.len().wrapping_sub(1) & 0xFFFF, rd.len() + 1, 0, 0xFFFF] } else { vec![rd.len()] };
                for (li, rl) in rdlens.iter().enumerate() {
                    for &cl in classes {
                        for &ttl in ttls {
                            if (li > 0 || cl != 1) && ttl != 0 && full {
                                continue; // vary one of (rdlen, class, ttl) at a time
                            }
                            for sec in if full { vec![1usize, 3] } else { vec![1usize, 2, 3] } {
                                if rt == 41 && sec != 3 && !full {
                                    continue;
                                }
                                let mut b = n.clone();
                                b.extend_from_slice(&rt.to_be_bytes());
                                b.extend_from_slice(&cl.to_be_bytes());
                                b.extend_from_slice(&ttl.to_be_bytes());
                                b.extend_from_slice(&(*rl as u16).to_be_bytes());
                                b.extend_from_slice(rd);
                                out.push(GItem { bytes: b, section: sec, landmarks: vec![pos, rd_pos, rd_pos + rd.len() / 2] });
                            }
                        }
                    }
                }
            }
        }
    }
    out
}

fn header_id(id: u16, flags: u16, counts: [u16; 4]) -> Vec<u8> {
    let mut h = id.to_be_bytes().to_vec();
    h.extend_from_slice(&flags.to_be_bytes());
    for c in counts {
        h.extend_from_slice(&c.to_be_bytes());
    }
    h
}

fn count_variants(actual: [u16; 4], full: bool) -> Vec<[u16; 4]> {
    let mut v = vec![actual];
    if full {
        let last = (0..4).rev().find(|i| actual[*i] > 0).unwrap_or(1);
        let mut plus = actual;
        plus[last] += 1;
        v.push(plus);
        v.push([0; 4]);
        let mut big = actual;
        big[1] = 0xFFFF;
        v.push(big);
        let mut big3 = actual;
        big3[3] = 0xFFFF;
        v.push(big3);
        let mut q2 = actual;
        q2[0] += 1;
        v.push(q2);
    }
    v
}

fn assemble(id: u16, items: &[&GItem], flags: u16, counts: [u16; 4]) -> Vec<u8> {
    let mut m = header_id(id, flags, counts);
    for i in items {
        m.extend_from_slice(&i.bytes);
    }
    m
}

// ------------------------------------------------------- Part 2: builders

type ON = ob::Name<Vec<u8>>;
type ORd = AllRecordData<Vec<u8>, ON>;

fn wire_of(labels: &[&[u8]]) -> Vec<u8> {
    let mut v = Vec::new();
    for l in labels {
        v.push(l.len() as u8);
        v.extend_from_slice(l);
    }
    v.push(0);
    v
}

const NAME_DESC: [&str; 6] = ["example.com.", "www.example.com.", "WWW.EXAMPLE.COM.", "mail.example.com.", "<255 octets>.example.com.", "abcd\\007example.com. (label containing the octets of a label boundary)"];

fn build_names() -> Vec<Vec<u8>> {
    let x = [b'x'; 63];
    let y = [b'y'; 63];
    let z = [b'z'; 63];
    let w = [b'w'; 49];
    let mut v = vec![
        wire_of(&[b"example", b"com"]),
        wire_of(&[b"www", b"example", b"com"]),
        wire_of(&[b"WWW", b"EXAMPLE", b"COM"]),
        wire_of(&[b"mail", b"example", b"com"]),
        wire_of(&[&x, &y, &z, &w, b"example", b"com"]),
        wire_of(&[b"abcd\x07example", b"com"]),
    ];
    // names of the long-script family (indices LRU_P ..)
    v.push(wire_of(&[b"alpha"]));
    v.push(wire_of(&[b"c", b"alpha"]));
    v.push(wire_of(&[b"beta"]));
    v.push(wire_of(&[b"c", b"beta"]));
    for i in 0..LRU_FILLERS {
        v.push(wire_of(&[format!("f{i:02}").as_bytes()]));
    }
    // (the small-alphabet family is appended at the end, see below)
    // names of the bit-5 family (indices FOLD0 ..)
    assert_eq!(v.len(), FOLD0);
    v.push(wire_of(&[b"example"]));
    for b in FOLD_BYTES {
        v.push(wire_of(&[&[b'a', b], b"example"]));
        v.push(wire_of(&[b"www", &[b'a', b], b"example"]));
    }
    // names of the small-alphabet family (indices SM0 ..): every name of
    // 1..3 labels over SM_LABELS, numbered so that the names over the first
    // k labels can be addressed for any k
    assert_eq!(v.len(), SM0);
    for n in sm_names(SM_LABELS.len()) {
        v.push(n);
    }
    // names of the offset family (indices OFF0 .., see Part 2c): the root,
    // an unrelated name, and for every suffix of k = 1..4 labels of
    // S = aa.strad.exa.tld.: the suffix, the suffix in upper case, x.<suffix>
    // and X.<SUFFIX>
    assert_eq!(v.len(), OFF0);
    v.push(vec![0]);
    v.push(wire_of(&[b"u"]));
    for k in 1..=4 {
        let suf: Vec<&[u8]> = OFF_LABELS[4 - k..].to_vec();
        let up: Vec<Vec<u8>> = suf.iter().map(|l| l.to_ascii_uppercase()).collect();
        let upr: Vec<&[u8]> = up.iter().map(|l| &l[..]).collect();
        v.push(wire_of(&suf));
        v.push(wire_of(&upr));
        v.push(wire_of(&[&[&b"x"[..]][..], &suf[..]].concat()));
        v.push(wire_of(&[&[&b"X"[..]][..], &upr[..]].concat()));
    }
    v
}

/// Small-alphabet family: one-octet labels; 'A' is the case variant of 'a'.
const SM_LABELS: [u8; 5] = [b'a', b'b', b'A', b'c', b'x'];
const SM0: usize = FOLD0 + 1 + 2 * FOLD_BYTES.len();

/// All names of 1..3 labels over the first `k` labels of SM_LABELS, in a fixed order.
fn sm_label_lists(k: usize) -> Vec<Vec<u8>> {
    let mut v = Vec::new();
    for d in 1..=3 {
        for i in 0..pow(k, d) {
            let mut l = Vec::new();
            nth_string(&SM_LABELS[..k], d, i, &mut l);
            v.push(l);
        }
    }
    v
}
fn sm_names(k: usize) -> Vec<Vec<u8>> {
    sm_label_lists(k).iter().map(|l| wire_of(&l.iter().map(std::slice::from_ref).collect::<Vec<&[u8]>>())).collect()
}
/// Index (into the global name table) of each name over the first `k` labels.
fn sm_indices(k: usize) -> Vec<usize> {
    let all = sm_label_lists(SM_LABELS.len());
    sm_label_lists(k).iter().map(|l| SM0 + all.iter().position(|x| x == l).expect("name")).collect()
}

fn run_sm_case(ctx: &Ctx, stats: &Stats, bs: &BuildStats, wd: &Watchdog, seq: &[usize], names: &[Vec<u8>]) {
    let ops: Vec<Op> = seq.iter().map(|n| Op::R(1, *n, Rd::A)).collect();
    let key = seq.iter().fold(0x7A3C19D5E6B8F021u64, |h, i| (h ^ (*i as u64 + 1)).wrapping_mul(0x100000001b3));
    run_build_ops(ctx, stats, bs, wd, &ops, &json!({"part": "build-small", "names": seq}), key, names);
}

/// Bit-5 family: octets together with their partner `b ^ 0x20`: control /
/// punctuation / digit pairs (not equal under DNS case folding) and letter
/// pairs (equal). For each octet b the names `a<b>.example.` and
/// `www.a<b>.example.`.
const FOLD_BYTES: [u8; 20] = [0x00, 0x20, 0x10, 0x30, 0x0D, 0x2D, 0x1F, 0x3F, 0x40, 0x60, 0x5B, 0x7B, 0x5F, 0x7F, 0x41, 0x61, 0x5A, 0x7A, 0x01, 0x21];
const FOLD0: usize = LRU_FILL0 + LRU_FILLERS;

/// item = (name number 0..40, kind): kind 0 = answer A record owned by the
/// name, kind 1 = answer NS record owned by example. with the name as target.
fn fold_ops(items: &[usize]) -> Vec<Op> {
    items
        .iter()
        .map(|it| {
            let (n, kind) = (FOLD0 + 1 + it / 2, it % 2);
            if kind == 0 {
                Op::R(1, n, Rd::A)
            } else {
                Op::R(1, FOLD0, Rd::Ns(n))
            }
        })
        .collect()
}

fn run_fold_case(ctx: &Ctx, stats: &Stats, bs: &BuildStats, wd: &Watchdog, items: &[usize], names: &[Vec<u8>]) {
    let ops = fold_ops(items);
    let key = items.iter().fold(0x51ED270B5F4A7C15u64, |h, i| (h ^ (*i as u64 + 1)).wrapping_mul(0x100000001b3));
    run_build_ops(ctx, stats, bs, wd, &ops, &json!({"part": "build-fold", "items": items}), key, names);
}

/// Long-script family: names 6..=9 are P, C.P, X, C.X; then unrelated fillers.
const LRU_CORE: usize = 6;
const LRU_FILL0: usize = 10;
const LRU_FILLERS: usize = 41;

fn name_text(names: &[Vec<u8>], n: usize) -> String {
    if n < NAME_DESC.len() {
        return NAME_DESC[n].to_string();
    }
    let mut out = String::new();
    let w = &names[n];
    let mut p = 0;
    while w[p] != 0 {
        let l = w[p] as usize;
        for &b in &w[p + 1..p + 1 + l] {
            if b.is_ascii_graphic() && b != b'.' && b != b'\\' {
                out.push(b as char);
            } else {
                out.push_str(&format!("\\{b:03}"));
            }
        }
        out.push('.');
        p += 1 + l;
    }
    if out.is_empty() {
        out.push('.');
    }
    out
}

#[derive(Clone, Copy, Debug, PartialEq)]
enum Rd {
    A,
    Cname(usize),
    Ns(usize),
    /// an unknown-type (OPAQUE_TYPE) record with this many RDATA octets
    Opaque(u8),
}

#[derive(Clone, Copy, Debug, PartialEq)]
enum Op {
    Q(usize),
    R(u8, usize, Rd),
    /// an unknown-type record with root owner in the answer section whose
    /// RDATA length makes the record END at this message offset
    PadTo(usize),
    /// an EDNS record: indices into EDNS_PAYLOADS, EDNS_EXT, EDNS_VER, the DO
    /// flag, index into edns_optsets()
    Edns(u8, u8, u8, bool, u8),
    /// new builder only: MessageBuilder::truncate() ("remove all message
    /// contents and mark it as truncated")
    Truncate,
    /// new builder only: finish this message and begin another one with the
    /// same NameCompressor
    NewMessage,
}

const EDNS_PAYLOADS: [u16; 4] = [0, 512, 1232, 65535];
const EDNS_EXT: [u8; 3] = [0, 1, 255];
const EDNS_VER: [u8; 3] = [0, 1, 255];
/// option sets: (code, data)
fn edns_optsets() -> Vec<Vec<(u16, Vec<u8>)>> {
    vec![
        vec![],
        vec![(10, vec![1, 2, 3, 4, 5, 6, 7, 8])],
        vec![(10, (1..=16).collect())],
        vec![(15, vec![0, 18, b'b', b'a', b'd'])],
        vec![(65001, vec![1, 2, 3, 4])],
        vec![(10, vec![8, 7, 6, 5, 4, 3, 2, 1]), (65001, vec![])],
    ]
}
fn edns_tlv(set: &[(u16, Vec<u8>)]) -> Vec<u8> {
    let mut v = Vec::new();
    for (c, d) in set {
        v.extend_from_slice(&c.to_be_bytes());
        v.extend_from_slice(&(d.len() as u16).to_be_bytes());
        v.extend_from_slice(d);
    }
    v
}

const OPS: [Op; 14] = [
    Op::Q(1),
    Op::Q(0),
    Op::R(1, 1, Rd::A),
    Op::R(1, 2, Rd::Cname(3)),
    Op::R(1, 5, Rd::A),
    Op::R(1, 0, Rd::Ns(5)),
    Op::R(2, 3, Rd::Ns(4)),
    Op::R(3, 4, Rd::A),
    Op::PadTo(16370),
    Op::PadTo(16380),
    Op::PadTo(16383),
    Op::PadTo(16384),
    Op::PadTo(16395),
    Op::PadTo(16396),
];

fn op_desc(op: Op, names: &[Vec<u8>]) -> String {
    match op {
        Op::Q(n) => format!("question {} A", name_text(names, n)),
        Op::R(s, n, rd) => format!(
            "{} record {} {}",
            ["", "answer", "authority", "additional"][s as usize],
            name_text(names, n),
            match rd {
                Rd::A => "A 192.0.2.1".to_string(),
                Rd::Cname(t) => format!("CNAME {}", name_text(names, t)),
                Rd::Ns(t) => format!("NS {}", name_text(names, t)),
                Rd::Opaque(l) => format!("TYPE{OPAQUE_TYPE} with {l} RDATA octets"),
            }
        ),
        Op::PadTo(t) => format!("answer record . TYPE65280 padded so that it ends at message offset {t}"),
        Op::Edns(p, e, v, d, o) => format!("EDNS record payload={} ext_rcode={} version={} DO={} options={:?}", EDNS_PAYLOADS[p as usize], EDNS_EXT[e as usize], EDNS_VER[v as usize], d, edns_optsets()[o as usize]),
        Op::Truncate => "truncate() (new builder only)".to_string(),
        Op::NewMessage => "finish(); MessageBuilder::new() with the same compressor (new builder only)".to_string(),
    }
}

#[derive(Clone, Debug, PartialEq)]
struct Norm {
    sec: u8,
    name: Vec<u8>,
    t: u16,
    c: u16,
    ttl: u32,
    rdata: Vec<u8>,
}

const PAD_TYPE: u16 = 65280;
const OPAQUE_TYPE: u16 = 65281;
const TTL: u32 = 300;

fn intended(op: Op, names: &[Vec<u8>], padlen: usize) -> Norm {
    match op {
        Op::Q(n) => Norm { sec: 0, name: names[n].to_ascii_lowercase(), t: 1, c: 1, ttl: 0, rdata: vec![] },
        Op::R(s, n, rd) => {
            let (t, rdata) = match rd {
                Rd::A => (1, vec![192, 0, 2, 1]),
                Rd::Cname(x) => (5, names[x].to_ascii_lowercase()),
                Rd::Ns(x) => (2, names[x].to_ascii_lowercase()),
                Rd::Opaque(l) => (OPAQUE_TYPE, vec![0xDD; l as usize]),
            };
            Norm { sec: s, name: names[n].to_ascii_lowercase(), t, c: 1, ttl: TTL, rdata }
        }
        Op::PadTo(_) => Norm { sec: 1, name: vec![0], t: PAD_TYPE, c: 1, ttl: TTL, rdata: vec![0xEE; padlen] },
        Op::Edns(p, e, v, d, o) => Norm {
            sec: 3,
            name: vec![0],
            t: 41,
            c: EDNS_PAYLOADS[p as usize],
            ttl: (EDNS_EXT[e as usize] as u32) << 24 | (EDNS_VER[v as usize] as u32) << 16 | (d as u32) << 15,
            rdata: edns_tlv(&edns_optsets()[o as usize]),
        },
        Op::Truncate | Op::NewMessage => unreachable!("not an item"),
    }
}

fn op_section(op: Op) -> usize {
    match op {
        Op::Q(_) => 0,
        Op::R(s, _, _) => s as usize,
        Op::PadTo(_) => 1,
        Op::Edns(..) => 3,
        Op::Truncate | Op::NewMessage => 0,
    }
}

/// Pad RDATA length so that a root-owner record starting at `cur` ends at `t`.
fn pad_len(cur: usize, t: usize) -> Option<usize> {
    if cur + 11 <= t && t - cur - 11 <= 65535 {
        Some(t - cur - 11)
    } else {
        None
    }
}

#[derive(Default)]
struct BuildOut {
    msg: Vec<u8>,
    want: Vec<Norm>,
    /// harness-level complaints about individual operations
    errs: Vec<String>,
    accepted: u32,
    misplaced: u32,
    pad_skipped: u32,
    truncated_pushes: u32,
    /// expected header flags word
    want_flags: u16,
}

enum OB<T> {
    Q(QuestionBuilder<T>),
    An(AnswerBuilder<T>),
    Ns(AuthorityBuilder<T>),
    Ar(AdditionalBuilder<T>),
}
impl<T: ob::wire::Composer> OB<T> {
    fn len(&self) -> usize {
        match self {
            OB::Q(b) => b.as_slice().len(),
            OB::An(b) => b.as_slice().len(),
            OB::Ns(b) => b.as_slice().len(),
            OB::Ar(b) => b.as_slice().len(),
        }
    }
    fn goto(self, s: usize) -> OB<T> {
        match (self, s) {
            (OB::Q(x), 0) => OB::Q(x),
            (OB::Q(x), 1) => OB::An(x.answer()),
            (OB::Q(x), 2) => OB::Ns(x.authority()),
            (OB::Q(x), _) => OB::Ar(x.additional()),
            (OB::An(x), 1) => OB::An(x),
            (OB::An(x), 2) => OB::Ns(x.authority()),
            (OB::An(x), _) => OB::Ar(x.additional()),
            (OB::Ns(x), 2) => OB::Ns(x),
            (OB::Ns(x), _) => OB::Ar(x.additional()),
            (OB::Ar(x), _) => OB::Ar(x),
        }
    }
    fn finish(self) -> Vec<u8> {
        match self {
            OB::Q(b) => b.finish().as_ref().to_vec(),
            OB::An(b) => b.finish().as_ref().to_vec(),
            OB::Ns(b) => b.finish().as_ref().to_vec(),
            OB::Ar(b) => b.finish().as_ref().to_vec(),
        }
    }
    /// The builder's own way one section back (all items of the current
    /// section are dropped, "all previously added [items of the earlier
    /// sections] will, however, remain").
    fn back(self) -> OB<T> {
        match self {
            OB::Q(x) => OB::Q(x),
            OB::An(x) => OB::Q(x.question()),
            OB::Ns(x) => OB::An(x.answer()),
            OB::Ar(x) => OB::Ns(x.authority()),
        }
    }
    fn rewind(&mut self) {
        match self {
            OB::Q(x) => x.rewind(),
            OB::An(x) => x.rewind(),
            OB::Ns(x) => x.rewind(),
            OB::Ar(x) => x.rewind(),
        }
    }
    fn mb(&mut self) -> &mut ob::MessageBuilder<T> {
        match self {
            OB::Q(b) => b.as_builder_mut(),
            OB::An(b) => b.as_builder_mut(),
            OB::Ns(b) => b.as_builder_mut(),
            OB::Ar(b) => b.as_builder_mut(),
        }
    }
}

fn oname(w: &[u8]) -> ON {
    ON::from_octets(w.to_vec()).expect("valid name")
}

fn old_opaque_data(len: u8) -> ORd {
    ORd::Unknown(OldUnknown::from_octets(ob::iana::Rtype::from_int(OPAQUE_TYPE), vec![0xDD; len as usize]).expect("opaque"))
}

fn run_old(ops: &[Op], names: &[Vec<u8>]) -> BuildOut {
    run_old_on(TreeCompressor::new(Vec::<u8>::new()), false, ops, names)
}

/// The established builder over any target. `capped`: the target has a
/// capacity, a refused push is counted (`truncated_pushes`) and not an error.
fn run_old_on<T: ob::wire::Composer>(target: T, capped: bool, ops: &[Op], names: &[Vec<u8>]) -> BuildOut {
    let mut out = BuildOut::default();
    let mut b: OB<T> = match ob::MessageBuilder::from_target(target) {
        Ok(mb) => OB::Q(mb.question()),
        Err(_) => {
            out.errs.push("established-builder|from_target-refused-although-the-header-fits".into());
            return out;
        }
    };
    let mut counts = [0usize; 4];
    for &op in ops {
        if op == Op::Truncate || op == Op::NewMessage {
            continue;
        }
        let s = op_section(op);
        if counts[s + 1..].iter().any(|c| *c > 0) {
            out.misplaced += 1;
            continue;
        }
        let mut padlen = 0;
        if let Op::PadTo(t) = op {
            match pad_len(b.len(), t) {
                Some(l) => padlen = l,
                None => {
                    out.pad_skipped += 1;
                    continue;
                }
            }
        }
        b = b.goto(s);
        let ok = match op {
            Op::Q(n) => match &mut b {
                OB::Q(q) => q.push(ob::Question::new(oname(&names[n]), ob::iana::Rtype::A, ob::iana::Class::IN)).is_ok(),
                _ => unreachable!(),
            },
            Op::R(_, n, rd) => {
                let data: ORd = match rd {
                    Rd::A => ORd::A(domain::rdata::A::from_octets(192, 0, 2, 1)),
                    Rd::Cname(x) => ORd::Cname(domain::rdata::Cname::new(oname(&names[x]))),
                    Rd::Ns(x) => ORd::Ns(domain::rdata::Ns::new(oname(&names[x]))),
                    Rd::Opaque(l) => old_opaque_data(l),
                };
                let rec = ob::Record::new(oname(&names[n]), ob::iana::Class::IN, ob::Ttl::from_secs(TTL), data);
                match &mut b {
                    OB::An(x) => x.push(rec).is_ok(),
                    OB::Ns(x) => x.push(rec).is_ok(),
                    OB::Ar(x) => x.push(rec).is_ok(),
                    _ => unreachable!(),
                }
            }
            Op::Truncate | Op::NewMessage => unreachable!(),
            Op::Edns(p, e, v, d, o) => {
                let set = &edns_optsets()[o as usize];
                match &mut b {
                    OB::Ar(x) => x
                        .opt(|opt| {
                            opt.set_udp_payload_size(EDNS_PAYLOADS[p as usize]);
                            opt.set_rcode(ob::iana::OptRcode::masked_from_int((EDNS_EXT[e as usize] as u16) << 4));
                            opt.set_version(EDNS_VER[v as usize]);
                            opt.set_dnssec_ok(d);
                            for (c, data) in set {
                                opt.push_raw_option(ob::iana::OptionCode::from_int(*c), data.len() as u16, |t| t.append_slice(data))?;
                            }
                            Ok(())
                        })
                        .is_ok(),
                    _ => unreachable!(),
                }
            }
            Op::PadTo(_) => {
                let data: ORd = ORd::Unknown(OldUnknown::from_octets(ob::iana::Rtype::from_int(PAD_TYPE), vec![0xEE; padlen]).expect("pad"));
                let rec = ob::Record::new(oname(&[0]), ob::iana::Class::IN, ob::Ttl::from_secs(TTL), data);
                match &mut b {
                    OB::An(x) => x.push(rec).is_ok(),
                    _ => unreachable!(),
                }
            }
        };
        if ok {
            counts[s] += 1;
            out.accepted += 1;
            out.want.push(intended(op, names, padlen));
        } else if capped {
            out.truncated_pushes += 1;
        } else {
            out.errs.push("established-builder|push-refused-with-unbounded-target".into());
        }
    }
    out.msg = b.finish();
    out
}

fn push_q<N: domain::new::base::build::BuildInMessage>(b: &mut NewBuilder<'_, '_>, qname: N) -> Result<(), MessageBuildError> {
    b.push_question(&nb::Question { qname, qtype: nb::QType::A, qclass: nb::QClass::IN })
}

fn push_rec<N: domain::new::base::build::BuildInMessage>(b: &mut NewBuilder<'_, '_>, sec: u8, rname: N, rtype: nb::RType, rdata: NRecordData<'_, &NName>) -> Result<(), MessageBuildError> {
    let rec = nb::Record { rname, rtype, rclass: nb::RClass::IN, ttl: nb::TTL::from(TTL), rdata };
    match sec {
        1 => b.push_answer(&rec),
        2 => b.push_authority(&rec),
        _ => b.push_additional(&rec).map_err(MessageBuildError::Truncated),
    }
}

/// `rev_owner`: owner names and qnames are given as RevNameBuf (compress_revname),
/// otherwise as &Name (compress_name); names in RDATA are always &Name.
fn run_new(ops: &[Op], names: &[Vec<u8>], rev_owner: bool, limit: Option<usize>) -> BuildOut {
    run_new_in(ops, names, rev_owner, limit, None)
}

/// `buffer`: the builder is given a buffer of exactly this many octets (otherwise an ample one).
fn run_new_in(ops: &[Op], names: &[Vec<u8>], rev_owner: bool, limit: Option<usize>, buffer: Option<usize>) -> BuildOut {
    // Op::NewMessage: the message built so far is finished and a new message is
    // begun with the SAME compressor ("The name compressor will be reset in
    // case it was used before", MessageBuilder::new); only the last message is checked
    let mut compressor = NameCompressor::new();
    let mut out = BuildOut::default();
    let mut stats = (0u32, 0u32, 0u32, 0u32);
    for seg in ops.split(|o| *o == Op::NewMessage) {
        out = run_new_message(seg, names, rev_owner, limit, buffer, &mut compressor);
        stats = (stats.0 + out.accepted, stats.1 + out.misplaced, stats.2 + out.pad_skipped, stats.3 + out.truncated_pushes);
        if !out.errs.is_empty() {
            break;
        }
    }
    (out.accepted, out.misplaced, out.pad_skipped, out.truncated_pushes) = stats;
    out
}

fn run_new_message(ops: &[Op], names: &[Vec<u8>], rev_owner: bool, limit: Option<usize>, buffer: Option<usize>, compressor: &mut NameCompressor) -> BuildOut {
    let mut out = BuildOut::default();
    let buffer_given = buffer.is_some();
    let pads = ops.iter().any(|o| matches!(o, Op::PadTo(_)));
    // ample = room for the largest pad target of the script and every item after it
    let max_pad = ops.iter().filter_map(|o| if let Op::PadTo(t) = o { Some(*t) } else { None }).max().unwrap_or(0);
    let mut buffer = vec![0u8; buffer.unwrap_or(if pads { (24 * 1024).max(max_pad + 300 * ops.len()) } else { 12 + 300 * ops.len().max(1) })];
    let mut b = NewBuilder::new(&mut buffer, compressor, U16::new(0), HeaderFlags::default());
    let mut counts = [0usize; 4];
    let pad_store = vec![0xEEu8; if pads { 17000.max(max_pad) } else { 0 }];
    let opaque_store = [0xDDu8; 255];
    // the names are handed to the builder as NameBuf / RevNameBuf parsed from
    // their (valid, uncompressed) wire form; a refusal is the codec's fault
    static PARSED: std::sync::OnceLock<Result<(Vec<NameBuf>, Vec<RevNameBuf>), String>> = std::sync::OnceLock::new();
    let parsed = PARSED.get_or_init(|| {
        let mut a = Vec::new();
        let mut r = Vec::new();
        for (i, w) in names.iter().enumerate() {
            match (guard(|| NameBuf::parse_bytes(w)), guard(|| RevNameBuf::parse_bytes(w))) {
                (Ok(Ok(x)), Ok(Ok(y))) => {
                    a.push(x);
                    r.push(y);
                }
                (x, _) => return Err(format!("new-codec|parse_bytes-refuses-a-valid-uncompressed-name|{}-octets|{}", w.len(), if matches!(x, Ok(Ok(_))) { "RevNameBuf" } else { "NameBuf" })).map_err(|e: String| {
                    let _ = i;
                    e
                }),
            }
        }
        Ok((a, r))
    });
    let (nbufs, revs) = match parsed {
        Ok(x) => x,
        Err(e) => {
            drop(b);
            out.errs.push(e.clone());
            return out;
        }
    };
    let root_n = NameBuf::parse_bytes(&[0]).expect("root");
    let root_r = RevNameBuf::parse_bytes(&[0]).expect("root");
    if let Some(l) = limit {
        if b.limit_to(l).is_err() {
            out.errs.push("new-builder|limit_to-refuses-a-limit-above-the-current-size".into());
        }
    }
    let optsets = edns_optsets();
    for &op in ops {
        if op == Op::Truncate {
            b.truncate();
            counts = [0; 4];
            out.want.clear();
            out.want_flags |= 0x0200;
            continue;
        }
        let s = op_section(op);
        let misplaced = counts[s + 1..].iter().any(|c| *c > 0);
        let cur = 12 + b.message().contents.len();
        let mut padlen = 0;
        if let Op::PadTo(t) = op {
            match pad_len(cur, t) {
                Some(l) => padlen = l,
                None => {
                    if !misplaced {
                        out.pad_skipped += 1;
                        continue;
                    }
                }
            }
        }
        let res: Result<(), MessageBuildError> = match op {
            Op::Q(n) => {
                if rev_owner {
                    push_q(&mut b, revs[n].clone())
                } else {
                    push_q::<&NName>(&mut b, &nbufs[n])
                }
            }
            Op::R(sec, n, rd) => {
                let (rtype, rdata): (nb::RType, NRecordData<'_, &NName>) = match rd {
                    Rd::A => (nb::RType::A, NRecordData::A(domain::new::rdata::A { octets: [192, 0, 2, 1] })),
                    Rd::Cname(x) => (nb::RType::CNAME, NRecordData::CName(domain::new::rdata::CName { name: &*nbufs[x] })),
                    Rd::Ns(x) => (nb::RType::NS, NRecordData::Ns(domain::new::rdata::Ns { server: &*nbufs[x] })),
                    Rd::Opaque(l) => (nb::RType::from(OPAQUE_TYPE), NRecordData::Unknown(nb::RType::from(OPAQUE_TYPE), NewUnknown::parse_bytes_by_ref(&opaque_store[..l as usize]).expect("unknown data"))),
                };
                if rev_owner {
                    push_rec(&mut b, sec, revs[n].clone(), rtype, rdata)
                } else {
                    push_rec::<&NName>(&mut b, sec, &nbufs[n], rtype, rdata)
                }
            }
            Op::Truncate | Op::NewMessage => unreachable!(),
            Op::Edns(p, e, v, d, o) => {
                let tlv = edns_tlv(&optsets[o as usize]);
                let flags = domain::new::edns::EdnsFlags::default().set_dnssec_ok(d);
                if rev_owner {
                    // options given as unparsed '&Opt'
                    let opt = NOpt::parse_bytes_by_ref(&tlv).expect("valid options");
                    let rec = EdnsRecord { max_udp_payload: U16::new(EDNS_PAYLOADS[p as usize]), ext_rcode: EDNS_EXT[e as usize], version: EDNS_VER[v as usize], flags, data: domain::new::base::wire::SizePrefixed::new(opt) };
                    b.push_edns(&rec).map_err(MessageBuildError::Truncated)
                } else {
                    // options given as a slice of typed 'EdnsOption's
                    let mut typed = Vec::new();
                    let mut rest = &tlv[..];
                    while !rest.is_empty() {
                        let (o, r) = domain::new::edns::EdnsOption::split_bytes(rest).expect("valid option");
                        typed.push(o);
                        rest = r;
                    }
                    let rec = EdnsRecord { max_udp_payload: U16::new(EDNS_PAYLOADS[p as usize]), ext_rcode: EDNS_EXT[e as usize], version: EDNS_VER[v as usize], flags, data: domain::new::base::wire::SizePrefixed::new(&typed[..]) };
                    b.push_edns(&rec).map_err(MessageBuildError::Truncated)
                }
            }
            Op::PadTo(_) => {
                let data = NewUnknown::parse_bytes_by_ref(&pad_store[..padlen]).expect("unknown data");
                let rdata = NRecordData::<'_, &NName>::Unknown(nb::RType::from(PAD_TYPE), data);
                if rev_owner {
                    push_rec(&mut b, 1, root_r.clone(), nb::RType::from(PAD_TYPE), rdata)
                } else {
                    push_rec::<&NName>(&mut b, 1, &root_n, nb::RType::from(PAD_TYPE), rdata)
                }
            }
        };
        match (misplaced, res) {
            (true, Err(MessageBuildError::Misplaced)) => out.misplaced += 1,
            (true, other) => out.errs.push(format!("new-builder|item-for-an-earlier-section|expected-Misplaced|got={}", if other.is_ok() { "Ok" } else { "Truncated" })),
            (false, Ok(())) => {
                counts[s] += 1;
                out.accepted += 1;
                out.want.push(intended(op, names, padlen));
            }
            // with a size limit, whether an item still fits is taken from the implementation
            (false, Err(MessageBuildError::Truncated(_))) if limit.is_some() || buffer_given => out.truncated_pushes += 1,
            (false, Err(e)) => out.errs.push(format!("new-builder|push-refused-with-ample-buffer|{}", if e == MessageBuildError::Misplaced { "Misplaced" } else { "Truncated" })),
        }
    }
    use domain::new::base::wire::AsBytes;
    out.msg = b.finish().as_bytes().to_vec();
    out
}

fn lc(v: &[u8]) -> Vec<u8> {
    v.to_ascii_lowercase()
}

fn read_indep(msg: &[u8]) -> Result<(Vec<Norm>, usize, usize), String> {
    let m = mc::wire::read_message(msg)?;
    if m.end != msg.len() {
        return Err(format!("{} trailing octets", msg.len() - m.end));
    }
    let mut v = Vec::new();
    for q in &m.questions {
        v.push(Norm { sec: 0, name: lc(&mc::wire::to_wire(&q.qname)), t: q.qtype, c: q.qclass, ttl: 0, rdata: vec![] });
    }
    let mut ptrs = m.pointers.clone();
    for (s, sec) in m.sections.iter().enumerate() {
        for r in sec {
            let rdata = if r.rtype == 2 || r.rtype == 5 {
                let (labels, after) = mc::wire::read_name(msg, r.rdata_pos, &mut ptrs)?;
                if after != r.rdata_pos + r.rdata.len() {
                    return Err("RDATA length does not match the name in it".into());
                }
                lc(&mc::wire::to_wire(&labels))
            } else {
                r.rdata.clone()
            };
            v.push(Norm { sec: s as u8 + 1, name: lc(&mc::wire::to_wire(&r.owner)), t: r.rtype, c: r.class, ttl: r.ttl, rdata });
        }
    }
    let max_target = ptrs.iter().map(|p| p.1).max().unwrap_or(0);
    Ok((v, ptrs.len(), max_target))
}

fn norm_from_obs(mo: &MsgObs, who: &str) -> Result<Vec<Norm>, String> {
    if let Some((s, p)) = mo.err_at {
        return Err(format!("{who} fails in section {s} at offset {p}"));
    }
    let total: usize = mo.header.2.iter().map(|c| *c as usize).sum();
    if mo.items.len() != total {
        return Err(format!("{who} yields {} items, header counts say {total}", mo.items.len()));
    }
    let mut v = Vec::new();
    for (i, it) in mo.items.iter().enumerate() {
        let rdata = if it.t == 2 || it.t == 5 {
            match &mo.typed[i] {
                Some(Ok((_, d))) => lc(d),
                _ => return Err(format!("{who}: typed parse of item {i} (type {}) fails", it.t)),
            }
        } else {
            match &mo.typed[i] {
                Some(Err(())) => return Err(format!("{who}: typed parse of item {i} (type {}) fails", it.t)),
                _ => it.rdata.clone(),
            }
        };
        v.push(Norm { sec: it.sec, name: lc(&it.name), t: it.t, c: it.c, ttl: it.ttl, rdata });
    }
    Ok(v)
}

fn read_old(msg: &[u8]) -> Result<Vec<Norm>, String> {
    let o = observe_old(msg, &[]);
    if let Some(e) = o.errs.first() {
        return Err(e.clone());
    }
    norm_from_obs(o.msg.as_ref().ok_or("established codec: not a message")?, "established codec")
}

fn read_new(msg: &[u8]) -> Result<Vec<Norm>, String> {
    let o = observe_new(msg, &[], &[]);
    if let Some(e) = o.errs.first() {
        return Err(e.clone());
    }
    let mo = o.msg.as_ref().ok_or("new codec: not a message")?;
    let v = norm_from_obs(mo, "new codec")?;
    if mo.mp.len() != mo.items.len() || mo.mp.iter().any(|x| x.is_err()) {
        return Err("new codec: MessageParser does not yield all items".into());
    }
    for (i, x) in mo.mp.iter().enumerate() {
        if let Ok((it, _)) = x {
            let a = &mo.items[i];
            if (it.sec, it.pos, &it.name, it.t, it.c, it.ttl) != (a.sec, a.pos, &a.name, a.t, a.c, a.ttl) {
                return Err(format!("new codec: MessageParser item {i} differs from the low-level view"));
            }
        }
    }
    Ok(v)
}

fn first_diff(want: &[Norm], got: &[Norm]) -> String {
    if want.len() != got.len() {
        return format!("{} items pushed, {} read", want.len(), got.len());
    }
    for (i, (w, g)) in want.iter().zip(got).enumerate() {
        if w != g {
            let f = if w.sec != g.sec {
                "section"
            } else if w.name != g.name {
                "name"
            } else if w.t != g.t {
                "type"
            } else if w.c != g.c {
                "class"
            } else if w.ttl != g.ttl {
                "ttl"
            } else {
                "rdata"
            };
            let show = |n: &Norm| if n.rdata.len() > 64 { format!("{} octets", n.rdata.len()) } else { hex(&n.rdata) };
            return format!("item {i} field {f}: pushed name={} type={} rdata={}, read name={} type={} rdata={}", hex(&w.name), w.t, show(w), hex(&g.name), g.t, show(g));
        }
    }
    "equal".into()
}

struct BuildStats {
    sequences: AtomicU64,
    with_pointers: AtomicU64,
    crossing: AtomicU64,
    pointers: AtomicU64,
    max_target: AtomicU64,
    accepted: AtomicU64,
    misplaced: AtomicU64,
    pad_skipped: AtomicU64,
    checks_ok: AtomicU64,
    limited: AtomicU64,
    truncated_pushes: AtomicU64,
}

fn cause_of(ops: &[Op], len: usize) -> &'static str {
    let uses = |n: usize| ops.iter().any(|o| matches!(o, Op::Q(x) | Op::R(_, x, _) if *x == n) || matches!(o, Op::R(_, _, Rd::Ns(x) | Rd::Cname(x)) if *x == n));
    if ops.contains(&Op::NewMessage) {
        "compressor-reused-for-a-second-message"
    } else if ops.contains(&Op::Truncate) {
        "script-with-truncate()"
    } else if ops.iter().any(|o| matches!(o, Op::Edns(..))) {
        "script-with-EDNS-record"
    } else if ops.iter().any(|o| matches!(o, Op::R(_, x, _) if *x >= SM0)) {
        "names-over-a-small-label-alphabet"
    } else if ops.iter().any(|o| matches!(o, Op::R(_, x, _) if *x >= FOLD0) || matches!(o, Op::R(_, _, Rd::Ns(x)) if *x > FOLD0)) {
        "names-differing-in-bit-0x20-of-an-octet"
    } else if ops.len() > 32 {
        "more-than-32-names-in-message"
    } else if len > 0x4000 && ops.iter().any(|o| matches!(o, Op::PadTo(_))) {
        "message-crosses-offset-0x4000"
    } else if uses(5) {
        "name-with-label-boundary-lookalike-octets"
    } else if uses(4) {
        "255-octet-name"
    } else {
        "plain-names"
    }
}

fn run_build_case(ctx: &Ctx, stats: &Stats, bs: &BuildStats, wd: &Watchdog, idx: &[usize], names: &[Vec<u8>]) {
    let ops: Vec<Op> = idx.iter().map(|i| OPS[*i]).collect();
    let key = idx.iter().fold(0xcbf29ce484222325u64, |h, i| (h ^ (*i as u64 + 1)).wrapping_mul(0x100000001b3));
    run_build_ops(ctx, stats, bs, wd, &ops, &json!({"part": "build", "ops": idx}), key, names);
}

/// Long-script family: head (core names), k unrelated filler names, tail (core names);
/// every item is an answer A record owned by the name.
fn lru_ops(head: &[usize], k: usize, tail: &[usize]) -> Vec<Op> {
    let mut ops = Vec::new();
    for h in head {
        ops.push(Op::R(1, LRU_CORE + h, Rd::A));
    }
    for i in 0..k {
        ops.push(Op::R(1, LRU_FILL0 + i, Rd::A));
    }
    for t in tail {
        ops.push(Op::R(1, LRU_CORE + t, Rd::A));
    }
    ops
}

fn run_lru_case(ctx: &Ctx, stats: &Stats, bs: &BuildStats, wd: &Watchdog, head: &[usize], k: usize, tail: &[usize], names: &[Vec<u8>]) {
    let ops = lru_ops(head, k, tail);
    let mut key = 0x9E3779B97F4A7C15u64 ^ k as u64;
    for h in head {
        key = (key ^ (*h as u64 + 1)).wrapping_mul(0x100000001b3);
    }
    key = (key ^ 0xFF).wrapping_mul(0x100000001b3);
    for t in tail {
        key = (key ^ (*t as u64 + 1)).wrapping_mul(0x100000001b3);
    }
    run_build_ops(ctx, stats, bs, wd, &ops, &json!({"part": "build-long", "head": head, "fillers": k, "tail": tail}), key, names);
}

#[allow(clippy::too_many_arguments)]
fn run_build_ops(ctx: &Ctx, stats: &Stats, bs: &BuildStats, wd: &Watchdog, ops: &[Op], case_base: &Value, key: u64, names: &[Vec<u8>]) {
    run_build_ops_limited(ctx, stats, bs, wd, ops, case_base, key, names, None);
}

/// Returns the lengths of the messages built by the two new-builder configurations.
#[allow(clippy::too_many_arguments)]
fn run_build_ops_limited(ctx: &Ctx, stats: &Stats, bs: &BuildStats, wd: &Watchdog, ops: &[Op], case_base: &Value, key: u64, names: &[Vec<u8>], limit: Option<usize>) -> [usize; 2] {
    let ops: Vec<Op> = ops.to_vec();
    let verbose = ctx.replay.is_some();
    let new_only = limit.is_some() || ops.contains(&Op::Truncate) || ops.contains(&Op::NewMessage);
    let mut lens = [0usize; 2];
    for builder in ["established/TreeCompressor", "new/owner=RevNameBuf", "new/owner=&Name"] {
        if new_only && builder.starts_with("established") {
            continue;
        }
        stats.eval();
        bs.sequences.fetch_add(1, AO::Relaxed);
        let case = || {
            let mut c = case_base.clone();
            c["ops_text"] = json!(ops.iter().map(|o| op_desc(*o, names)).collect::<Vec<_>>());
            c["builder"] = json!(builder);
            if let Some(l) = limit {
                c["limit"] = json!(l);
            }
            c
        };
        wd.enter(case);
        let built = guard(|| match builder {
            "established/TreeCompressor" => run_old(&ops, names),
            "new/owner=RevNameBuf" => run_new(&ops, names, true, limit),
            _ => run_new(&ops, names, false, limit),
        });
        let out = match built {
            Ok(o) => o,
            Err(p) => {
                wd.leave();
                ctx.violation(&format!("C19|build|builder={}|panic|{}", builder.replace('/', "(") + ")", panic_class(&p)), &format!("{builder}: {p}"), case());
                if verbose {
                    println!("{builder}: PANIC {p}");
                }
                continue;
            }
        };
        let other = if builder.starts_with("new") { "established" } else { "new" };
        let r_other = guard(|| if other == "new" { read_new(&out.msg) } else { read_old(&out.msg) });
        wd.leave();
        bs.accepted.fetch_add(out.accepted as u64, AO::Relaxed);
        bs.misplaced.fetch_add(out.misplaced as u64, AO::Relaxed);
        bs.pad_skipped.fetch_add(out.pad_skipped as u64, AO::Relaxed);
        for e in &out.errs {
            ctx.violation(&format!("C19|build|{e}"), e, case());
        }
        let cause = cause_of(&ops, out.msg.len());
        if builder == "new/owner=RevNameBuf" {
            lens[0] = out.msg.len();
        } else if builder == "new/owner=&Name" {
            lens[1] = out.msg.len();
        }
        if out.msg.len() >= 4 && u16::from_be_bytes([out.msg[2], out.msg[3]]) != out.want_flags {
            ctx.violation(&format!("C19|build|builder={}|header-flags-differ-from-expected|cause={cause}", builder.replace('/', "(") + ")"), &format!("{builder}: flags word {:#06x}, expected {:#06x}", u16::from_be_bytes([out.msg[2], out.msg[3]]), out.want_flags), case());
        }
        if let Some(l) = limit {
            bs.limited.fetch_add(1, AO::Relaxed);
            bs.truncated_pushes.fetch_add(out.truncated_pushes as u64, AO::Relaxed);
            if out.msg.len() > l {
                ctx.violation(&format!("C19|build|builder={}|message-exceeds-limit_to", builder.replace('/', "(") + ")"), &format!("{builder}: {} octets with limit {l}", out.msg.len()), case());
            }
        }
        if verbose {
            println!("{builder}: {} octets, {} items accepted, {} misplaced, {} pads skipped", out.msg.len(), out.accepted, out.misplaced, out.pad_skipped);
            let shown: Vec<u8> = out.msg.iter().cloned().filter(|b| *b != 0xEE).collect();
            println!("  octets without the 0xEE padding: {}", hex(&shown));
        }
        let indep = read_indep(&out.msg);
        let mut all_ok = true;
        let bsig = builder.replace('/', "(") + ")";
        let indep_ok = match &indep {
            Ok((got, nptr, maxt)) => {
                if verbose {
                    println!("  independent reader: {} items, {nptr} pointers, max target {maxt}: {}", got.len(), first_diff(&out.want, got));
                }
                if *nptr > 0 {
                    bs.with_pointers.fetch_add(1, AO::Relaxed);
                    bs.pointers.fetch_add(*nptr as u64, AO::Relaxed);
                    bs.max_target.fetch_max(*maxt as u64, AO::Relaxed);
                    stats.nontrivial.fetch_add(1, AO::Relaxed);
                    stats.distinct((key ^ fnv(builder.as_bytes())) | 1 << 62);
                }
                if out.msg.len() > 0x4000 {
                    bs.crossing.fetch_add(1, AO::Relaxed);
                }
                if *got != out.want {
                    all_ok = false;
                    ctx.violation(&format!("C19|build|builder={bsig}|output-does-not-read-back-as-pushed(independent-reader)|cause={cause}"), &format!("{builder}: {}", first_diff(&out.want, got)), case());
                    false
                } else {
                    true
                }
            }
            Err(e) => {
                all_ok = false;
                if verbose {
                    println!("  independent reader: ERROR {e}");
                }
                ctx.violation(&format!("C19|build|builder={bsig}|output-does-not-read-back-as-pushed(independent-reader)|cause={cause}"), &format!("{builder}: independent reader: {e}"), case());
                false
            }
        };
        match r_other {
            Ok(Ok(got)) => {
                if verbose {
                    println!("  {other} codec's parser: {} items: {}", got.len(), first_diff(&out.want, &got));
                }
                if got != out.want {
                    all_ok = false;
                    // a garbled output is reported once, above; here only a reader-side disagreement
                    if indep_ok {
                        ctx.violation(&format!("C19|build|builder={bsig}|read-by={other}|content-differs-although-independent-reader-agrees-with-pushed|cause={cause}"), &format!("{builder}: {}", first_diff(&out.want, &got)), case());
                    }
                }
            }
            Ok(Err(e)) => {
                all_ok = false;
                if verbose {
                    println!("  {other} codec's parser: ERROR {e}");
                }
                if indep_ok {
                    ctx.violation(&format!("C19|build|builder={bsig}|read-by={other}|rejected-although-independent-reader-agrees-with-pushed|cause={cause}"), &format!("{builder}: {e}"), case());
                }
            }
            Err(p) => {
                all_ok = false;
                ctx.violation(&format!("C19|build|builder={bsig}|read-by={other}|panic|{}", panic_class(&p)), &p, case());
            }
        }
        if all_ok {
            bs.checks_ok.fetch_add(1, AO::Relaxed);
        }
    }
    lens
}

/// Alphabet of the truncation / size-limit family.
const TL_OPS: [Op; 7] = [Op::Q(1), Op::R(1, 1, Rd::A), Op::R(1, 3, Rd::Cname(1)), Op::R(2, 0, Rd::Ns(3)), Op::R(3, 1, Rd::A), Op::Truncate, Op::NewMessage];

fn run_tl_case(ctx: &Ctx, stats: &Stats, bs: &BuildStats, wd: &Watchdog, seq: &[usize], only_limit: Option<usize>, names: &[Vec<u8>]) {
    let ops: Vec<Op> = seq.iter().map(|i| TL_OPS[*i]).collect();
    let key = seq.iter().fold(0x3B1D5C7E9F204A61u64, |h, i| (h ^ (*i as u64 + 1)).wrapping_mul(0x100000001b3));
    if let Some(l) = only_limit {
        run_build_ops_limited(ctx, stats, bs, wd, &ops, &json!({"part": "build-limit", "seq": seq}), key ^ l as u64, names, Some(l));
        return;
    }
    let lens = run_build_ops_limited(ctx, stats, bs, wd, &ops, &json!({"part": "build-limit", "seq": seq}), key, names, None);
    // every size limit from the bare header to the unlimited size
    let max = lens[0].max(lens[1]).max(12);
    for l in 12..=max {
        run_build_ops_limited(ctx, stats, bs, wd, &ops, &json!({"part": "build-limit", "seq": seq}), key ^ ((l as u64) << 32), names, Some(l));
    }
}

fn edns_case_ops(pre: bool, e: [usize; 5], post: bool) -> Vec<Op> {
    let mut ops = Vec::new();
    if pre {
        ops.push(Op::Q(1));
        ops.push(Op::R(1, 1, Rd::A));
    }
    ops.push(Op::Edns(e[0] as u8, e[1] as u8, e[2] as u8, e[3] == 1, e[4] as u8));
    if post {
        ops.push(Op::R(3, 1, Rd::A));
    }
    ops
}

/// Header flag family: the same flag values set through the setters of both
/// codecs must give the same header octets (and the octets RFC 1035 4.1.1 says).
fn run_flags_case(ctx: &Ctx, stats: &Stats, bits7: u8, opcode: u8, rcode: u8) {
    stats.eval();
    let f = |i: u8| bits7 >> i & 1 == 1;
    let (qr, aa, tc, rd, ra, ad, cd) = (f(0), f(1), f(2), f(3), f(4), f(5), f(6));
    let want: u16 = (qr as u16) << 15 | (opcode as u16) << 11 | (aa as u16) << 10 | (tc as u16) << 9 | (rd as u16) << 8 | (ra as u16) << 7 | (ad as u16) << 5 | (cd as u16) << 4 | rcode as u16;
    let case = || json!({"part": "build-flags", "bits7": bits7, "opcode": opcode, "rcode": rcode});
    let r = guard(|| {
        // established builder
        let mut ob_ = ob::MessageBuilder::new_vec();
        {
            let h = ob_.header_mut();
            h.set_qr(qr);
            h.set_opcode(ob::iana::Opcode::from_int(opcode));
            h.set_aa(aa);
            h.set_tc(tc);
            h.set_rd(rd);
            h.set_ra(ra);
            h.set_ad(ad);
            h.set_cd(cd);
            h.set_rcode(ob::iana::Rcode::masked_from_int(rcode));
        }
        let old = ob_.finish();
        // new builder: flags given at construction ...
        let mut flags = HeaderFlags::default();
        flags.set_qr(qr).set_opcode(opcode).set_aa(aa).set_tc(tc).set_rd(rd).set_ra(ra).set_ad(ad).set_cd(cd).set_rcode(rcode);
        let mut buf1 = [0u8; 12];
        let mut c1 = NameCompressor::new();
        let b1 = NewBuilder::new(&mut buf1, &mut c1, U16::new(0), flags);
        use domain::new::base::wire::AsBytes;
        let new1 = b1.finish().as_bytes().to_vec();
        // ... and set afterwards through header_mut()
        let mut buf2 = [0u8; 12];
        let mut c2 = NameCompressor::new();
        let mut b2 = NewBuilder::new(&mut buf2, &mut c2, U16::new(0), HeaderFlags::default());
        b2.header_mut().flags.set_rcode(rcode).set_cd(cd).set_ad(ad).set_ra(ra).set_rd(rd).set_tc(tc).set_aa(aa).set_opcode(opcode).set_qr(qr);
        let hdr_bits = b2.header().flags.bits();
        let new2 = b2.finish().as_bytes().to_vec();
        // read each with the other codec's accessors
        let nm = nb::Message::parse_bytes_by_ref(&old).expect("12 octets");
        let nf = nm.header.flags;
        let new_reads_old = (nf.qr(), nf.opcode(), nf.aa(), nf.tc(), nf.rd(), nf.ra(), nf.ad(), nf.cd(), nf.rcode());
        let om = ob::Message::from_octets(new1.clone()).expect("12 octets");
        let oh = om.header();
        let old_reads_new = (oh.qr(), oh.opcode().to_int(), oh.aa(), oh.tc(), oh.rd(), oh.ra(), oh.ad(), oh.cd(), oh.rcode().to_int());
        (old, new1, new2, hdr_bits, new_reads_old, old_reads_new)
    });
    match r {
        Err(p) => {
            ctx.violation(&format!("C19|build-flags|panic|{}", panic_class(&p)), &p, case());
        }
        Ok((old, new1, new2, hdr_bits, nro, orn)) => {
            let w = want.to_be_bytes();
            let tuple = (qr, opcode, aa, tc, rd, ra, ad, cd, rcode);
            if old[2..4] != w {
                ctx.violation("C19|build-flags|established-setters|header-octets-differ-from-RFC1035", &format!("flags word {:02x}{:02x}, expected {want:04x}", old[2], old[3]), case());
            }
            if new1[2..4] != w || new2[2..4] != w || hdr_bits != want {
                ctx.violation("C19|build-flags|new-setters|header-octets-differ-from-RFC1035-and-established", &format!("flags word {:02x}{:02x} (at construction) / {:02x}{:02x} (header_mut) / bits() {hdr_bits:04x}, expected {want:04x}", new1[2], new1[3], new2[2], new2[3]), case());
            }
            if nro != tuple {
                ctx.violation("C19|build-flags|new-accessors-read-established-header-differently", &format!("{nro:?} vs set {tuple:?}"), case());
            }
            if orn != tuple {
                ctx.violation("C19|build-flags|established-accessors-read-new-header-differently", &format!("{orn:?} vs set {tuple:?}"), case());
            }
            if old.len() != 12 || new1.len() != 12 || old[4..] != new1[4..] {
                ctx.violation("C19|build-flags|empty-message-differs", "the two builders' empty messages differ beyond the flags", case());
            }
        }
    }
}

// ------------------------------------------- Part 2b: builders under faults
//
// Build scripts in which pushes FAIL (push limit, end of the buffer at a
// chosen octet, a fixed capacity that a big record exceeds), sections are
// rewound or left backwards, or the message is truncate()d -- and later
// pushes land at the offsets the dropped octets occupied and use the dropped
// names again (as owner, as a name in RDATA, in another letter case). Every
// script runs on the established builder over every compressor (none,
// Static, Tree, Hash) and on the new builder; the output is read by the
// independent reader and by BOTH codecs and must hold exactly the items whose
// push was accepted and not rolled back since.

/// A target whose end can be moved by the harness: appending beyond `cap`
/// octets fails and "leaves the builder alone" (OctetsBuilder::append_slice).
struct Bounded {
    buf: Vec<u8>,
    cap: std::rc::Rc<std::cell::Cell<usize>>,
}
impl octseq::OctetsBuilder for Bounded {
    type AppendError = octseq::ShortBuf;
    fn append_slice(&mut self, slice: &[u8]) -> Result<(), Self::AppendError> {
        if self.buf.len() + slice.len() > self.cap.get() {
            return Err(octseq::ShortBuf);
        }
        self.buf.extend_from_slice(slice);
        Ok(())
    }
}
impl octseq::Truncate for Bounded {
    fn truncate(&mut self, len: usize) {
        self.buf.truncate(len)
    }
}
impl AsRef<[u8]> for Bounded {
    fn as_ref(&self) -> &[u8] {
        &self.buf
    }
}
impl AsMut<[u8]> for Bounded {
    fn as_mut(&mut self) -> &mut [u8] {
        &mut self.buf
    }
}
impl ob::wire::Composer for Bounded {}

/// Item menu of the fault family: owners that are new / known / a suffix of a
/// known name / a case variant, a name in RDATA, a big record, all sections.
const FT_ITEMS: [Op; 8] = [
    Op::Q(0),
    Op::R(1, 1, Rd::A),
    Op::R(1, 3, Rd::A),
    Op::R(1, 3, Rd::Opaque(48)),
    Op::R(1, 0, Rd::Ns(3)),
    Op::R(1, 2, Rd::Cname(3)),
    Op::R(2, 0, Rd::Ns(1)),
    Op::R(3, 3, Rd::A),
];

/// room value meaning "one octet less than the item needs uncompressed"
const ROOM_LAST: u16 = 0xFFFF;

#[derive(Clone, Copy, Debug, PartialEq)]
enum Fault {
    None,
    /// set_push_limit(current length + room) for this push only
    Limit(u16),
    /// the buffer ends `room` octets after the current length, for this push only
    Short(u16),
}

#[derive(Clone, Copy, Debug, PartialEq)]
enum FStep {
    Push(usize, Fault),
    /// established builder: rewind() of the current section
    Rewind,
    /// established builder: back to the previous section through question() / answer() / authority()
    Back,
    /// new builder: truncate()
    Truncate,
}

/// A capacity that holds for the whole script.
#[derive(Clone, Copy, Debug, PartialEq)]
enum Fixed {
    None,
    /// the target / buffer has exactly this many octets
    Buffer(usize),
    /// set_push_limit(L) / limit_to(L) before the first push
    Limit(usize),
}

#[derive(Clone, Copy, Debug, PartialEq)]
enum FBuilder {
    /// compressor 0 = none, 1 = Static, 2 = Tree, 3 = Hash; target Vec<u8> or Bounded
    Old(u8, bool),
    /// owner names given as RevNameBuf / as &Name
    New(bool),
}

fn fbuilder_name(b: FBuilder) -> String {
    match b {
        FBuilder::Old(c, bounded) => format!("established/{}/{}", ["none", "StaticCompressor", "TreeCompressor", "HashCompressor"][c as usize], if bounded { "Bounded" } else { "Vec" }),
        FBuilder::New(true) => "new/owner=RevNameBuf".into(),
        FBuilder::New(false) => "new/owner=&Name".into(),
    }
}

fn fstep_json(st: &FStep) -> Value {
    match st {
        FStep::Push(i, Fault::None) => json!(["push", i]),
        FStep::Push(i, Fault::Limit(r)) => json!(["push", i, "limit", r]),
        FStep::Push(i, Fault::Short(r)) => json!(["push", i, "short", r]),
        FStep::Rewind => json!(["rewind"]),
        FStep::Back => json!(["back"]),
        FStep::Truncate => json!(["truncate"]),
    }
}

fn fstep_from_json(v: &Value) -> FStep {
    let a = v.as_array().expect("step");
    match a[0].as_str().expect("step kind") {
        "push" => {
            let i = a[1].as_u64().expect("item") as usize;
            let f = match a.get(2).and_then(|x| x.as_str()) {
                None => Fault::None,
                Some("limit") => Fault::Limit(a[3].as_u64().expect("room") as u16),
                Some(_) => Fault::Short(a[3].as_u64().expect("room") as u16),
            };
            FStep::Push(i, f)
        }
        "rewind" => FStep::Rewind,
        "back" => FStep::Back,
        _ => FStep::Truncate,
    }
}

fn fstep_desc(st: &FStep, names: &[Vec<u8>]) -> String {
    let room = |r: &u16| if *r == ROOM_LAST { "one octet less than the item needs uncompressed".to_string() } else { format!("{r} octets") };
    match st {
        FStep::Push(i, Fault::None) => op_desc(FT_ITEMS[*i], names),
        FStep::Push(i, Fault::Limit(r)) => format!("{} -- with the push limit set to the current length + {}", op_desc(FT_ITEMS[*i], names), room(r)),
        FStep::Push(i, Fault::Short(r)) => format!("{} -- with the buffer ending {} after the current length", op_desc(FT_ITEMS[*i], names), room(r)),
        FStep::Rewind => "rewind() of the current section (established builder)".into(),
        FStep::Back => "back to the previous section (established builder)".into(),
        FStep::Truncate => "truncate() (new builder)".into(),
    }
}

/// Octets the item needs when no name is compressed.
fn item_size(op: Op, names: &[Vec<u8>]) -> usize {
    let n = intended(op, names, 0);
    n.name.len() + if n.sec == 0 { 4 } else { 10 + n.rdata.len() }
}

#[derive(Default)]
struct FOut {
    msg: Vec<u8>,
    want: Vec<Norm>,
    errs: Vec<String>,
    accepted: u32,
    refused: u32,
    misplaced: u32,
    rolled_back_items: u32,
    want_flags: u16,
    /// refused push / rewind / section left backwards / truncate() happened
    happened: [bool; 4],
}

fn old_record(op: Op, names: &[Vec<u8>]) -> ob::Record<ON, ORd> {
    let Op::R(_, n, rd) = op else { unreachable!("record item") };
    let data: ORd = match rd {
        Rd::A => ORd::A(domain::rdata::A::from_octets(192, 0, 2, 1)),
        Rd::Cname(x) => ORd::Cname(domain::rdata::Cname::new(oname(&names[x]))),
        Rd::Ns(x) => ORd::Ns(domain::rdata::Ns::new(oname(&names[x]))),
        Rd::Opaque(l) => old_opaque_data(l),
    };
    ob::Record::new(oname(&names[n]), ob::iana::Class::IN, ob::Ttl::from_secs(TTL), data)
}

fn run_old_fault<T: ob::wire::Composer>(target: T, cap: Option<&std::cell::Cell<usize>>, fixed: Fixed, steps: &[FStep], names: &[Vec<u8>]) -> FOut {
    let mut out = FOut::default();
    let base_cap = match fixed {
        Fixed::Buffer(l) => l,
        _ => usize::MAX,
    };
    if let Some(c) = cap {
        c.set(base_cap);
    }
    let mut mb = match ob::MessageBuilder::from_target(target) {
        Ok(b) => b,
        Err(_) => {
            out.errs.push("established-builder|from_target-refused-although-the-header-fits".into());
            return out;
        }
    };
    if let Fixed::Limit(l) = fixed {
        mb.set_push_limit(l);
    }
    let mut b = OB::Q(mb.question());
    let mut stage = 0usize;
    let mut lists: [Vec<Norm>; 4] = Default::default();
    for st in steps {
        match *st {
            FStep::Truncate => {}
            FStep::Rewind => {
                b.rewind();
                out.happened[1] = true;
                out.rolled_back_items += lists[stage].len() as u32;
                lists[stage].clear();
            }
            FStep::Back => {
                if stage > 0 {
                    b = b.back();
                    out.happened[2] = true;
                    out.rolled_back_items += lists[stage].len() as u32;
                    lists[stage].clear();
                    stage -= 1;
                }
            }
            FStep::Push(i, fault) => {
                let op = FT_ITEMS[i];
                let s = op_section(op);
                if s < stage {
                    // the typed builders offer no way to push into an earlier section
                    out.misplaced += 1;
                    continue;
                }
                b = b.goto(s);
                stage = s;
                let cur = b.len();
                let room = |r: u16| if r == ROOM_LAST { item_size(op, names) - 1 } else { r as usize };
                match fault {
                    Fault::None => {}
                    Fault::Limit(r) => b.mb().set_push_limit(cur + room(r)),
                    Fault::Short(r) => cap.expect("a movable end needs the Bounded target").set(cur + room(r)),
                }
                let ok = match (&mut b, op) {
                    (OB::Q(q), Op::Q(n)) => q.push(ob::Question::new(oname(&names[n]), ob::iana::Rtype::A, ob::iana::Class::IN)).is_ok(),
                    (OB::An(x), _) => x.push(old_record(op, names)).is_ok(),
                    (OB::Ns(x), _) => x.push(old_record(op, names)).is_ok(),
                    (OB::Ar(x), _) => x.push(old_record(op, names)).is_ok(),
                    _ => unreachable!("section"),
                };
                match fault {
                    Fault::None => {}
                    Fault::Limit(_) => match fixed {
                        Fixed::Limit(l) => b.mb().set_push_limit(l),
                        _ => b.mb().clear_push_limit(),
                    },
                    Fault::Short(_) => cap.expect("bounded").set(base_cap),
                }
                if ok {
                    out.accepted += 1;
                    lists[s].push(intended(op, names, 0));
                } else {
                    out.refused += 1;
                    out.happened[0] = true;
                    if fault == Fault::None && fixed == Fixed::None {
                        out.errs.push("established-builder|push-refused-with-unbounded-target".into());
                    }
                }
            }
        }
    }
    out.msg = b.finish();
    out.want = lists.concat();
    out
}

fn run_fault_builder(builder: FBuilder, fixed: Fixed, steps: &[FStep], names: &[Vec<u8>]) -> FOut {
    use domain::base::message_builder::{HashCompressor, StaticCompressor};
    match builder {
        FBuilder::Old(comp, bounded) => {
            let cap = std::rc::Rc::new(std::cell::Cell::new(usize::MAX));
            if let Fixed::Buffer(l) = fixed {
                cap.set(l);
            }
            let bt = || Bounded { buf: Vec::new(), cap: cap.clone() };
            match (comp, bounded) {
                (0, false) => run_old_fault(Vec::<u8>::new(), None, fixed, steps, names),
                (1, false) => run_old_fault(StaticCompressor::new(Vec::<u8>::new()), None, fixed, steps, names),
                (2, false) => run_old_fault(TreeCompressor::new(Vec::<u8>::new()), None, fixed, steps, names),
                (_, false) => run_old_fault(HashCompressor::new(Vec::<u8>::new()), None, fixed, steps, names),
                (0, true) => run_old_fault(bt(), Some(&cap), fixed, steps, names),
                (1, true) => run_old_fault(StaticCompressor::new(bt()), Some(&cap), fixed, steps, names),
                (2, true) => run_old_fault(TreeCompressor::new(bt()), Some(&cap), fixed, steps, names),
                (_, true) => run_old_fault(HashCompressor::new(bt()), Some(&cap), fixed, steps, names),
            }
        }
        FBuilder::New(rev_owner) => {
            let ops: Vec<Op> = steps
                .iter()
                .filter_map(|st| match st {
                    FStep::Push(i, _) => Some(FT_ITEMS[*i]),
                    FStep::Truncate => Some(Op::Truncate),
                    _ => None,
                })
                .collect();
            let (limit, buffer) = match fixed {
                Fixed::None => (None, None),
                Fixed::Buffer(l) => (None, Some(l)),
                Fixed::Limit(l) => (Some(l), None),
            };
            let o = run_new_in(&ops, names, rev_owner, limit, buffer);
            FOut {
                msg: o.msg,
                want: o.want,
                errs: o.errs,
                accepted: o.accepted,
                refused: o.truncated_pushes,
                misplaced: o.misplaced,
                rolled_back_items: 0,
                want_flags: o.want_flags,
                happened: [o.truncated_pushes > 0, false, false, ops.contains(&Op::Truncate)],
            }
        }
    }
}

struct FaultStats {
    cases: AtomicU64,
    accepted: AtomicU64,
    refused: AtomicU64,
    misplaced: AtomicU64,
    rolled_back_items: AtomicU64,
    /// cases in which an item was accepted after a refused push / rewind / section rollback / truncate()
    push_after: [AtomicU64; 4],
    with_pointers: AtomicU64,
    all_equal: AtomicU64,
    /// per builder: [cases, cases with a refused push]
    by_builder: [[AtomicU64; 2]; 10],
}

fn fbuilder_index(b: FBuilder) -> usize {
    match b {
        FBuilder::Old(c, bounded) => c as usize * 2 + bounded as usize,
        FBuilder::New(rev) => 8 + rev as usize,
    }
}

fn fault_case_json(builder: FBuilder, fixed: Fixed, steps: &[FStep], names: &[Vec<u8>]) -> Value {
    json!({
        "part": "build-fault",
        "builder": fbuilder_name(builder),
        "builder_code": match builder { FBuilder::Old(c, b) => json!(["old", c, b]), FBuilder::New(r) => json!(["new", r]) },
        "fixed": match fixed { Fixed::None => Value::Null, Fixed::Buffer(l) => json!(["buffer", l]), Fixed::Limit(l) => json!(["limit", l]) },
        "steps": steps.iter().map(fstep_json).collect::<Vec<_>>(),
        "steps_text": steps.iter().map(|st| fstep_desc(st, names)).collect::<Vec<_>>(),
    })
}

/// Runs one script on one builder and checks the output. Returns the length of the message.
fn run_fault_case(ctx: &Ctx, stats: &Stats, fs: &FaultStats, wd: &Watchdog, builder: FBuilder, fixed: Fixed, steps: &[FStep], names: &[Vec<u8>]) -> usize {
    stats.eval();
    fs.cases.fetch_add(1, AO::Relaxed);
    let verbose = ctx.replay.is_some();
    let bname = fbuilder_name(builder);
    let bsig = bname.replacen('/', "(", 1) + ")";
    let case = || fault_case_json(builder, fixed, steps, names);
    wd.enter(|| json!({"part": "build-fault", "builder": bname, "fixed": format!("{fixed:?}"), "steps": format!("{steps:?}")}));
    let built = guard(|| run_fault_builder(builder, fixed, steps, names));
    let out = match built {
        Ok(o) => o,
        Err(p) => {
            wd.leave();
            ctx.violation(&format!("C19|build-fault|builder={bsig}|panic|{}", panic_class(&p)), &format!("{bname}: {p}"), case());
            if verbose {
                println!("{bname}: PANIC {p}");
            }
            return 0;
        }
    };
    let r_old = guard(|| read_old(&out.msg));
    let r_new = guard(|| read_new(&out.msg));
    wd.leave();
    fs.accepted.fetch_add(out.accepted as u64, AO::Relaxed);
    fs.by_builder[fbuilder_index(builder)][0].fetch_add(1, AO::Relaxed);
    if out.refused > 0 {
        fs.by_builder[fbuilder_index(builder)][1].fetch_add(1, AO::Relaxed);
    }
    fs.refused.fetch_add(out.refused as u64, AO::Relaxed);
    fs.misplaced.fetch_add(out.misplaced as u64, AO::Relaxed);
    fs.rolled_back_items.fetch_add(out.rolled_back_items as u64, AO::Relaxed);
    for e in &out.errs {
        ctx.violation(&format!("C19|build-fault|{e}"), e, case());
    }
    let mut parts = Vec::new();
    for (i, n) in ["refused-push", "rewind", "section-left-backwards", "truncate()"].iter().enumerate() {
        if out.happened[i] {
            parts.push(*n);
            if !out.want.is_empty() {
                fs.push_after[i].fetch_add(1, AO::Relaxed);
            }
        }
    }
    let cause = if parts.is_empty() { "no-fault".to_string() } else { parts.join("+") };
    if verbose {
        println!("{bname}: {} octets, {} pushes accepted, {} refused, {} misplaced, {} items rolled back: {}", out.msg.len(), out.accepted, out.refused, out.misplaced, out.rolled_back_items, hex(&out.msg));
    }
    if out.msg.len() >= 4 && u16::from_be_bytes([out.msg[2], out.msg[3]]) != out.want_flags {
        ctx.violation(&format!("C19|build-fault|builder={bsig}|header-flags-differ-from-expected|cause={cause}"), &format!("{bname}: flags word {:#06x}, expected {:#06x}", u16::from_be_bytes([out.msg[2], out.msg[3]]), out.want_flags), case());
    }
    match fixed {
        Fixed::Buffer(l) | Fixed::Limit(l) if out.msg.len() > l => {
            ctx.violation(&format!("C19|build-fault|builder={bsig}|message-exceeds-the-capacity-given"), &format!("{bname}: {} octets with capacity {l}", out.msg.len()), case());
        }
        _ => {}
    }
    let mut all_ok = true;
    let indep_ok = match read_indep(&out.msg) {
        Ok((got, nptr, _)) => {
            if verbose {
                println!("  independent reader: {} items, {nptr} pointers: {}", got.len(), first_diff(&out.want, &got));
            }
            if nptr > 0 {
                fs.with_pointers.fetch_add(1, AO::Relaxed);
                if out.happened.iter().any(|h| *h) {
                    stats.nontrivial.fetch_add(1, AO::Relaxed);
                    stats.distinct(fnv(format!("{builder:?}{fixed:?}{steps:?}").as_bytes()) | 1 << 61);
                }
            }
            if got != out.want {
                ctx.violation(&format!("C19|build-fault|builder={bsig}|output-does-not-read-back-as-accepted(independent-reader)|cause={cause}"), &format!("{bname}: {}", first_diff(&out.want, &got)), case());
                false
            } else {
                true
            }
        }
        Err(e) => {
            if verbose {
                println!("  independent reader: ERROR {e}");
            }
            ctx.violation(&format!("C19|build-fault|builder={bsig}|output-does-not-read-back-as-accepted(independent-reader)|cause={cause}"), &format!("{bname}: independent reader: {e}"), case());
            false
        }
    };
    all_ok &= indep_ok;
    let own = if matches!(builder, FBuilder::New(_)) { "new" } else { "established" };
    for (reader, res) in [("established", &r_old), ("new", &r_new)] {
        let role = if reader == own { "own-codec" } else { "other-codec" };
        match res {
            Ok(Ok(got)) => {
                if verbose {
                    println!("  {reader} codec's parser ({role}): {} items: {}", got.len(), first_diff(&out.want, got));
                }
                if *got != out.want {
                    all_ok = false;
                    // a garbled output is reported once, above; here only a reader-side disagreement
                    if indep_ok {
                        ctx.violation(&format!("C19|build-fault|builder={bsig}|read-by={reader}({role})|content-differs-although-independent-reader-agrees-with-accepted|cause={cause}"), &format!("{bname}: {}", first_diff(&out.want, got)), case());
                    }
                }
            }
            Ok(Err(e)) => {
                all_ok = false;
                if verbose {
                    println!("  {reader} codec's parser ({role}): ERROR {e}");
                }
                if indep_ok {
                    ctx.violation(&format!("C19|build-fault|builder={bsig}|read-by={reader}({role})|rejected-although-independent-reader-agrees-with-accepted|cause={cause}"), &format!("{bname}: {e}"), case());
                }
            }
            Err(p) => {
                all_ok = false;
                ctx.violation(&format!("C19|build-fault|builder={bsig}|read-by={reader}({role})|panic|{}", panic_class(p)), p, case());
            }
        }
    }
    if all_ok {
        fs.all_equal.fetch_add(1, AO::Relaxed);
    }
    out.msg.len()
}

/// Every way of attaching at most `max_faults` faults from the menu to the pushes of a base script.
fn with_faults(base: &[FStep], menu: &dyn Fn(usize) -> Vec<Fault>, max_faults: usize, f: &mut dyn FnMut(&[FStep])) {
    fn rec(base: &[FStep], pos: usize, left: usize, cur: &mut Vec<FStep>, menu: &dyn Fn(usize) -> Vec<Fault>, f: &mut dyn FnMut(&[FStep])) {
        if pos == base.len() {
            f(cur);
            return;
        }
        cur.push(base[pos]);
        rec(base, pos + 1, left, cur, menu, f);
        cur.pop();
        if left > 0 {
            if let FStep::Push(i, _) = base[pos] {
                for fault in menu(i) {
                    cur.push(FStep::Push(i, fault));
                    rec(base, pos + 1, left - 1, cur, menu, f);
                    cur.pop();
                }
            }
        }
    }
    rec(base, 0, max_faults, &mut Vec::new(), menu, f);
}

const OLD_COMPRESSORS: [&str; 4] = ["none", "StaticCompressor", "TreeCompressor", "HashCompressor"];

/// Fault scripts of the established builder: one base script with every fault
/// assignment on every compressor. Scripts with a movable buffer end run on
/// the Bounded target, the others on Vec<u8>.
fn run_old_fault_scripts(ctx: &Ctx, stats: &Stats, fs: &FaultStats, wd: &Watchdog, base: &[FStep], menu: &dyn Fn(usize) -> Vec<Fault>, max_faults: usize, names: &[Vec<u8>]) {
    with_faults(base, menu, max_faults, &mut |steps| {
        let bounded = steps.iter().any(|st| matches!(st, FStep::Push(_, Fault::Short(_))));
        for comp in 0..OLD_COMPRESSORS.len() as u8 {
            run_fault_case(ctx, stats, fs, wd, FBuilder::Old(comp, bounded), Fixed::None, steps, names);
        }
    });
}

/// One fault-free script under every fixed capacity from the bare header to
/// the size at which everything fits.
fn run_fixed_capacity_scripts(ctx: &Ctx, stats: &Stats, fs: &FaultStats, wd: &Watchdog, builder: FBuilder, modes: &[u8], steps: &[FStep], names: &[Vec<u8>]) {
    let full = run_fault_case(ctx, stats, fs, wd, builder, Fixed::None, steps, names);
    // the established builder's push limit refuses a push that ends AT the limit
    for l in 12..=full + 1 {
        for m in modes {
            let fixed = if *m == 0 { Fixed::Buffer(l) } else { Fixed::Limit(l) };
            run_fault_case(ctx, stats, fs, wd, builder, fixed, steps, names);
        }
    }
}

// ------------------------------------------------ Part 2c: the offset axis
//
// A compression pointer can only address offsets below 0x4000. One opaque
// record of the right size moves the next name S to EVERY offset of a window
// around 0x4000, so that S lies wholly below the limit, across it (label by
// label, octet by octet) and wholly above it; S is given as the owner of a
// record or as the name in its RDATA, with none / a part / all of it already
// in the message (question before the padding). Then follow records whose
// owners / RDATA names share a suffix with S at every label depth (the suffix
// itself, a new label in front of it, in the same and in the other letter
// case, the same name twice). Every script runs on the established builder
// over EVERY compressor (none, Static, Tree, Hash) x target (Vec<u8>,
// StreamTarget<Vec<u8>>) and on the new builder (owners as RevNameBuf and as
// &Name). Thorough: a second window in which the message reaches its maximal
// size of 65535 octets (targets: a buffer of exactly 65535 octets,
// StreamTarget). Oracle: the independent reader (whose pointers must point
// strictly backwards), the established codec and the new codec each read
// exactly the items the builder accepted -- names label-wise, ASCII
// case-insensitively.

/// Labels of the name S = aa.strad.exa.tld. of the offset family.
const OFF_LABELS: [&[u8]; 4] = [b"aa", b"strad", b"exa", b"tld"];
/// Index of the first name of the offset family in the name table.
const OFF0: usize = SM0 + 155;
const OFF_ROOT: usize = OFF0;
/// Follower names are numbered 0 (unrelated u.) and 1 + 4 * (k - 1) + variant
/// (suffix of k labels of S; variant 0 = the suffix, 1 = in upper case,
/// 2 = x.<suffix>, 3 = X.<SUFFIX>).
const OFF_FOLLOWER_NAMES: usize = 17;
const OFF_S: usize = OFF0 + 1 + 1 + 4 * 3;
/// Capacity of the targets of the second window: the largest DNS message.
const OFF_CAP: usize = 65535;

#[derive(Clone, Copy, Debug, PartialEq)]
enum OTarget {
    Vec,
    Stream,
    /// a buffer of exactly OFF_CAP octets
    Capped,
}

#[derive(Clone, Copy, Debug, PartialEq)]
enum OffBuilder {
    /// compressor 0 = none, 1 = Static, 2 = Tree, 3 = Hash
    Old(u8, OTarget),
    /// owner names given as RevNameBuf / as &Name
    New(bool),
}

fn offbuilder_name(b: OffBuilder) -> String {
    match b {
        OffBuilder::Old(c, t) => format!("established/{}/{}", OLD_COMPRESSORS[c as usize], ["Vec", "StreamTarget<Vec>", "buffer-of-65535-octets"][t as usize]),
        OffBuilder::New(true) => "new/owner=RevNameBuf".into(),
        OffBuilder::New(false) => "new/owner=&Name".into(),
    }
}

fn offbuilder_index(b: OffBuilder) -> usize {
    match b {
        OffBuilder::Old(c, t) => c as usize * 3 + t as usize,
        OffBuilder::New(rev) => 12 + rev as usize,
    }
}

#[derive(Clone, Debug, PartialEq)]
struct OffCase {
    /// second window (message size around 65535)
    high: bool,
    /// message offset at which S starts
    name_at: usize,
    /// question before the padding: 0 = none, 1 = exa.tld. (a suffix of S), 2 = S
    prelude: u8,
    /// S is 0 = the owner of an answer A record, 1 = the target of an answer NS record owned by the root
    placement: u8,
    /// (follower name number, kind); kind 0 = owner of an answer A record, 1 = target of an answer NS record owned by the root
    followers: Vec<(u8, u8)>,
}

fn off_item(name: usize, kind: u8) -> Op {
    if kind == 0 {
        Op::R(1, name, Rd::A)
    } else {
        Op::R(1, OFF_ROOT, Rd::Ns(name))
    }
}

fn off_ops(c: &OffCase) -> Vec<Op> {
    let mut ops = Vec::new();
    match c.prelude {
        0 => {}
        1 => ops.push(Op::Q(OFF0 + 1 + 1 + 4)),
        _ => ops.push(Op::Q(OFF_S)),
    }
    // the padding record ends where the record that holds S begins
    ops.push(Op::PadTo(if c.placement == 0 { c.name_at } else { c.name_at - 11 }));
    ops.push(off_item(OFF_S, c.placement));
    for &(n, kind) in &c.followers {
        ops.push(off_item(OFF0 + 1 + n as usize, kind));
    }
    ops
}

fn off_case_json(builder: OffBuilder, c: &OffCase, names: &[Vec<u8>]) -> Value {
    json!({
        "part": "build-offset",
        "builder": offbuilder_name(builder),
        "builder_code": match builder { OffBuilder::Old(comp, t) => json!(["old", comp, t as u8]), OffBuilder::New(r) => json!(["new", r]) },
        "window": if c.high { "0xFFFF" } else { "0x4000" },
        "name_at": c.name_at,
        "prelude": c.prelude,
        "placement": c.placement,
        "followers": c.followers.iter().map(|(n, k)| json!([n, k])).collect::<Vec<_>>(),
        "ops_text": off_ops(c).iter().map(|o| op_desc(*o, names)).collect::<Vec<_>>(),
    })
}

fn off_case_from_json(v: &Value) -> (OffBuilder, OffCase) {
    let bc = v["builder_code"].as_array().expect("builder_code");
    let builder = if bc[0].as_str() == Some("old") {
        OffBuilder::Old(bc[1].as_u64().unwrap() as u8, [OTarget::Vec, OTarget::Stream, OTarget::Capped][bc[2].as_u64().unwrap() as usize])
    } else {
        OffBuilder::New(bc[1].as_bool().unwrap())
    };
    let c = OffCase {
        high: v["window"].as_str() == Some("0xFFFF"),
        name_at: v["name_at"].as_u64().expect("name_at") as usize,
        prelude: v["prelude"].as_u64().expect("prelude") as u8,
        placement: v["placement"].as_u64().expect("placement") as u8,
        followers: v["followers"].as_array().expect("followers").iter().map(|f| (f[0].as_u64().unwrap() as u8, f[1].as_u64().unwrap() as u8)).collect(),
    };
    (builder, c)
}

fn run_off_builder(builder: OffBuilder, c: &OffCase, ops: &[Op], names: &[Vec<u8>]) -> BuildOut {
    use domain::base::message_builder::{HashCompressor, StaticCompressor, StreamTarget};
    match builder {
        OffBuilder::Old(comp, tgt) => {
            // in the second window both targets end at 65535 octets: a refused push is theirs to decide
            let capped = c.high;
            macro_rules! on {
                ($t:expr) => {
                    match comp {
                        0 => run_old_on($t, capped, ops, names),
                        1 => run_old_on(StaticCompressor::new($t), capped, ops, names),
                        2 => run_old_on(TreeCompressor::new($t), capped, ops, names),
                        _ => run_old_on(HashCompressor::new($t), capped, ops, names),
                    }
                };
            }
            match tgt {
                OTarget::Vec => on!(Vec::<u8>::new()),
                OTarget::Stream => on!(StreamTarget::new_vec()),
                OTarget::Capped => on!(Bounded { buf: Vec::new(), cap: std::rc::Rc::new(std::cell::Cell::new(OFF_CAP)) }),
            }
        }
        OffBuilder::New(rev_owner) => run_new_in(ops, names, rev_owner, None, if c.high { Some(OFF_CAP) } else { None }),
    }
}

#[derive(Default)]
struct OffStats {
    cases: AtomicU64,
    by_builder: [AtomicU64; 14],
    /// [S ends at or below 0x4000, S lies across 0x4000, S starts at or above 0x4000, second window]
    by_position: [AtomicU64; 4],
    accepted: AtomicU64,
    refused: AtomicU64,
    pad_skipped: AtomicU64,
    with_pointers: AtomicU64,
    pointers: AtomicU64,
    pointers_at_or_above_0x4000: AtomicU64,
    max_target: AtomicU64,
    longer_than_0x4000: AtomicU64,
    all_equal: AtomicU64,
}

/// As `read_indep`, returning every compression pointer followed as (position, target).
fn read_indep_ptrs(msg: &[u8]) -> Result<(Vec<Norm>, Vec<(usize, usize)>), String> {
    let m = mc::wire::read_message(msg)?;
    if m.end != msg.len() {
        return Err(format!("{} trailing octets", msg.len() - m.end));
    }
    let mut v = Vec::new();
    for q in &m.questions {
        v.push(Norm { sec: 0, name: lc(&mc::wire::to_wire(&q.qname)), t: q.qtype, c: q.qclass, ttl: 0, rdata: vec![] });
    }
    let mut ptrs = m.pointers.clone();
    for (s, sec) in m.sections.iter().enumerate() {
        for r in sec {
            let rdata = if r.rtype == 2 || r.rtype == 5 {
                let (labels, after) = mc::wire::read_name(msg, r.rdata_pos, &mut ptrs)?;
                if after != r.rdata_pos + r.rdata.len() {
                    return Err("RDATA length does not match the name in it".into());
                }
                lc(&mc::wire::to_wire(&labels))
            } else {
                r.rdata.clone()
            };
            v.push(Norm { sec: s as u8 + 1, name: lc(&mc::wire::to_wire(&r.owner)), t: r.rtype, c: r.class, ttl: r.ttl, rdata });
        }
    }
    Ok((v, ptrs))
}

fn run_offset_case(ctx: &Ctx, stats: &Stats, os: &OffStats, wd: &Watchdog, builder: OffBuilder, c: &OffCase, names: &[Vec<u8>]) {
    stats.eval();
    os.cases.fetch_add(1, AO::Relaxed);
    os.by_builder[offbuilder_index(builder)].fetch_add(1, AO::Relaxed);
    let verbose = ctx.replay.is_some();
    let bname = offbuilder_name(builder);
    let bsig = bname.replacen('/', "(", 1) + ")";
    let case = || off_case_json(builder, c, names);
    let ops = off_ops(c);
    // where the (uncompressed) name S lies: the structural cause of a failure
    let s_len = names[OFF_S].len();
    let (pi, cause) = if c.high {
        (3, "message-size-around-0xFFFF")
    } else if c.name_at + s_len <= 0x4000 {
        (0, "name-ends-at-or-below-0x4000")
    } else if c.name_at < 0x4000 {
        (1, "name-lies-across-0x4000")
    } else {
        (2, "name-starts-at-or-above-0x4000")
    };
    os.by_position[pi].fetch_add(1, AO::Relaxed);
    wd.enter(|| json!({"part": "build-offset", "builder": bname, "case": format!("{c:?}")}));
    let built = guard(|| run_off_builder(builder, c, &ops, names));
    let out = match built {
        Ok(o) => o,
        Err(p) => {
            wd.leave();
            ctx.violation(&format!("C19|build-offset|builder={bsig}|panic|{}", panic_class(&p)), &format!("{bname}: {p}"), case());
            if verbose {
                println!("{bname}: PANIC {p}");
            }
            return;
        }
    };
    let r_old = guard(|| read_old(&out.msg));
    let r_new = guard(|| read_new(&out.msg));
    wd.leave();
    os.accepted.fetch_add(out.accepted as u64, AO::Relaxed);
    os.refused.fetch_add(out.truncated_pushes as u64, AO::Relaxed);
    os.pad_skipped.fetch_add(out.pad_skipped as u64, AO::Relaxed);
    for e in &out.errs {
        ctx.violation(&format!("C19|build-offset|{e}|cause={cause}"), &format!("{bname}: {e}"), case());
    }
    if out.pad_skipped > 0 || out.misplaced > 0 {
        // the scripts of this family are made so that this cannot happen
        ctx.violation("C19|build-offset|harness|script-not-applicable", &format!("{bname}: {} pads skipped, {} items misplaced", out.pad_skipped, out.misplaced), case());
    }
    if verbose {
        println!("{bname}: {} octets, {} items accepted, {} refused", out.msg.len(), out.accepted, out.truncated_pushes);
        let shown: Vec<u8> = out.msg.iter().cloned().filter(|b| *b != 0xEE).collect();
        println!("  octets without the 0xEE padding: {}", hex(&shown));
    }
    if out.msg.len() > 0x4000 {
        os.longer_than_0x4000.fetch_add(1, AO::Relaxed);
    }
    if out.msg.len() > OFF_CAP {
        ctx.violation(&format!("C19|build-offset|builder={bsig}|message-longer-than-65535-octets"), &format!("{bname}: {} octets", out.msg.len()), case());
    }
    let mut all_ok = true;
    let indep_ok = match read_indep_ptrs(&out.msg) {
        Ok((got, ptrs)) => {
            if verbose {
                println!("  independent reader: {} items, pointers (position, target) {:?}: {}", got.len(), ptrs, first_diff(&out.want, &got));
            }
            if !ptrs.is_empty() {
                os.with_pointers.fetch_add(1, AO::Relaxed);
                os.pointers.fetch_add(ptrs.len() as u64, AO::Relaxed);
                os.pointers_at_or_above_0x4000.fetch_add(ptrs.iter().filter(|p| p.0 >= 0x4000).count() as u64, AO::Relaxed);
                os.max_target.fetch_max(ptrs.iter().map(|p| p.1).max().unwrap_or(0) as u64, AO::Relaxed);
                stats.nontrivial.fetch_add(1, AO::Relaxed);
                stats.distinct(fnv(format!("{builder:?}{c:?}").as_bytes()) | 1 << 60);
            }
            if got != out.want {
                ctx.violation(&format!("C19|build-offset|builder={bsig}|output-does-not-read-back-as-pushed(independent-reader)|cause={cause}"), &format!("{bname}: {}", first_diff(&out.want, &got)), case());
                false
            } else {
                true
            }
        }
        Err(e) => {
            if verbose {
                println!("  independent reader: ERROR {e}");
            }
            ctx.violation(&format!("C19|build-offset|builder={bsig}|output-does-not-read-back-as-pushed(independent-reader)|cause={cause}"), &format!("{bname}: independent reader: {e}"), case());
            false
        }
    };
    all_ok &= indep_ok;
    let own = if matches!(builder, OffBuilder::New(_)) { "new" } else { "established" };
    for (reader, res) in [("established", &r_old), ("new", &r_new)] {
        let role = if reader == own { "own-codec" } else { "other-codec" };
        match res {
            Ok(Ok(got)) => {
                if verbose {
                    println!("  {reader} codec's parser ({role}): {} items: {}", got.len(), first_diff(&out.want, got));
                }
                if *got != out.want {
                    all_ok = false;
                    // a garbled output is reported once, above; here only a reader-side disagreement
                    if indep_ok {
                        ctx.violation(&format!("C19|build-offset|builder={bsig}|read-by={reader}({role})|content-differs-although-independent-reader-agrees-with-pushed|cause={cause}"), &format!("{bname}: {}", first_diff(&out.want, got)), case());
                    }
                }
            }
            Ok(Err(e)) => {
                all_ok = false;
                if verbose {
                    println!("  {reader} codec's parser ({role}): ERROR {e}");
                }
                if indep_ok {
                    ctx.violation(&format!("C19|build-offset|builder={bsig}|read-by={reader}({role})|rejected-although-independent-reader-agrees-with-pushed|cause={cause}"), &format!("{bname}: {e}"), case());
                }
            }
            Err(p) => {
                all_ok = false;
                ctx.violation(&format!("C19|build-offset|builder={bsig}|read-by={reader}({role})|panic|{}", panic_class(p)), p, case());
            }
        }
    }
    if all_ok {
        os.all_equal.fetch_add(1, AO::Relaxed);
    }
}

/// Every sequence of 1..=maxlen items of the alphabet.
fn off_sequences(alphabet: &[(u8, u8)], maxlen: usize) -> Vec<Vec<(u8, u8)>> {
    let mut v = Vec::new();
    for d in 1..=maxlen {
        for k in 0..pow(alphabet.len(), d) {
            let mut s = Vec::new();
            nth_string(alphabet, d, k, &mut s);
            v.push(s);
        }
    }
    v
}

// --------------------------------------------------------------------- main

fn offsets_of(items: &[&GItem], len: usize) -> Vec<usize> {
    let mut v = vec![12usize];
    for i in items {
        v.extend(i.landmarks.iter().cloned());
    }
    v.retain(|p| *p <= len);
    v.sort();
    v.dedup();
    v
}

fn main() {
    let ctx = Ctx::new("C19", "exploration");
    let stats = Arc::new(Stats::new());
    let wd = Watchdog::start(ctx.clone(), Duration::from_secs(20), |d| format!("C19|hang|part={}|family={}", d["part"].as_str().unwrap_or("?"), d["family"].as_str().or(d["builder"].as_str()).unwrap_or("?")));
    let names = build_names();
    let bs = BuildStats {
        sequences: AtomicU64::new(0),
        with_pointers: AtomicU64::new(0),
        crossing: AtomicU64::new(0),
        pointers: AtomicU64::new(0),
        max_target: AtomicU64::new(0),
        accepted: AtomicU64::new(0),
        misplaced: AtomicU64::new(0),
        pad_skipped: AtomicU64::new(0),
        checks_ok: AtomicU64::new(0),
        limited: AtomicU64::new(0),
        truncated_pushes: AtomicU64::new(0),
    };
    let fs = FaultStats {
        cases: AtomicU64::new(0),
        accepted: AtomicU64::new(0),
        refused: AtomicU64::new(0),
        misplaced: AtomicU64::new(0),
        rolled_back_items: AtomicU64::new(0),
        push_after: [AtomicU64::new(0), AtomicU64::new(0), AtomicU64::new(0), AtomicU64::new(0)],
        with_pointers: AtomicU64::new(0),
        all_equal: AtomicU64::new(0),
        by_builder: Default::default(),
    };
    if let Some(path) = &ctx.replay {
        let v: Value = serde_json::from_str(&std::fs::read_to_string(path).expect("replay file")).expect("json");
        let case = &v["case"];
        println!("replaying {}", v["signature"]);
        if case["part"].as_str() == Some("build-flags") {
            run_flags_case(&ctx, &stats, case["bits7"].as_u64().unwrap() as u8, case["opcode"].as_u64().unwrap() as u8, case["rcode"].as_u64().unwrap() as u8);
        } else if case["part"].as_str() == Some("build-fault") {
            let steps: Vec<FStep> = case["steps"].as_array().expect("steps").iter().map(fstep_from_json).collect();
            for st in &steps {
                println!("  {}", fstep_desc(st, &names));
            }
            let bc = case["builder_code"].as_array().expect("builder_code");
            let builder = if bc[0].as_str() == Some("old") { FBuilder::Old(bc[1].as_u64().unwrap() as u8, bc[2].as_bool().unwrap()) } else { FBuilder::New(bc[1].as_bool().unwrap()) };
            let fixed = match case["fixed"].as_array() {
                None => Fixed::None,
                Some(a) if a[0].as_str() == Some("buffer") => Fixed::Buffer(a[1].as_u64().unwrap() as usize),
                Some(a) => Fixed::Limit(a[1].as_u64().unwrap() as usize),
            };
            println!("  capacity for the whole script: {fixed:?}");
            run_fault_case(&ctx, &stats, &fs, &wd, builder, fixed, &steps, &names);
        } else if case["part"].as_str() == Some("build-offset") {
            let (builder, c) = off_case_from_json(case);
            for o in off_ops(&c) {
                println!("  {}", op_desc(o, &names));
            }
            run_offset_case(&ctx, &stats, &OffStats::default(), &wd, builder, &c, &names);
        } else if case["part"].as_str() == Some("build-edns") {
            let e: Vec<usize> = case["edns"].as_array().expect("edns").iter().map(|x| x.as_u64().unwrap() as usize).collect();
            let ops = edns_case_ops(case["pre"].as_bool().unwrap(), [e[0], e[1], e[2], e[3], e[4]], case["post"].as_bool().unwrap());
            for o in &ops {
                println!("  {}", op_desc(*o, &names));
            }
            run_build_ops(&ctx, &stats, &bs, &wd, &ops, case, 0, &names);
        } else if case["part"].as_str() == Some("build-limit") {
            let seq: Vec<usize> = case["seq"].as_array().expect("seq").iter().map(|x| x.as_u64().unwrap() as usize).collect();
            for i in &seq {
                println!("  {}", op_desc(TL_OPS[*i], &names));
            }
            println!("  size limit: {:?}", case["limit"].as_u64());
            match case["limit"].as_u64() {
                Some(l) => run_tl_case(&ctx, &stats, &bs, &wd, &seq, Some(l as usize), &names),
                None => {
                    let ops: Vec<Op> = seq.iter().map(|i| TL_OPS[*i]).collect();
                    run_build_ops_limited(&ctx, &stats, &bs, &wd, &ops, case, 0, &names, None);
                }
            }
        } else if case["part"].as_str() == Some("build-small") {
            let seq: Vec<usize> = case["names"].as_array().expect("names").iter().map(|x| x.as_u64().unwrap() as usize).collect();
            for n in &seq {
                println!("  answer A record owned by {}", name_text(&names, *n));
            }
            run_sm_case(&ctx, &stats, &bs, &wd, &seq, &names);
        } else if case["part"].as_str() == Some("build-fold") {
            let items: Vec<usize> = case["items"].as_array().expect("items").iter().map(|x| x.as_u64().unwrap() as usize).collect();
            for o in fold_ops(&items) {
                println!("  {}", op_desc(o, &names));
            }
            run_fold_case(&ctx, &stats, &bs, &wd, &items, &names);
        } else if case["part"].as_str() == Some("build-long") {
            let arr = |k: &str| -> Vec<usize> { case[k].as_array().expect("array").iter().map(|x| x.as_u64().unwrap() as usize).collect() };
            let (head, k, tail) = (arr("head"), case["fillers"].as_u64().expect("fillers") as usize, arr("tail"));
            for o in lru_ops(&head, k, &tail) {
                println!("  {}", op_desc(o, &names));
            }
            run_lru_case(&ctx, &stats, &bs, &wd, &head, k, &tail, &names);
        } else if case["part"].as_str() == Some("build") {
            let idx: Vec<usize> = case["ops"].as_array().expect("ops").iter().map(|x| x.as_u64().unwrap() as usize).collect();
            for i in &idx {
                println!("  op {}: {}", i, op_desc(OPS[*i], &names));
            }
            run_build_case(&ctx, &stats, &bs, &wd, &idx, &names);
        } else {
            let msg = unhex(case["message"].as_str().expect("case.message"));
            let offsets: Vec<usize> = case["offsets"].as_array().map(|a| a.iter().map(|x| x.as_u64().unwrap() as usize).collect()).unwrap_or_else(|| vec![12]);
            println!("message of {} octets, units at offsets {:?}", msg.len(), offsets);
            run_parse_case(&ctx, &stats, &wd, &msg, &offsets, "replay");
        }
        ctx.finish(json!({"evaluations": stats.evals(), "distinct_nontrivial": stats.distinct_count(), "rule": "replay", "samples": [case.clone()], "exhaustive": false}), &[]);
    }
    let quick = ctx.quick();
    let flagsets: &[u16] = &[0x0000, 0x8400, 0x8200 | 0x2800];
    let pc = |m: &[u8], items: &[&GItem], family: &str| {
        let offs = offsets_of(items, m.len());
        run_parse_case(&ctx, &stats, &wd, m, &offs, family);
    };

    // ---------------- Part 2c: the offset axis (runs first; the order of the parts is immaterial)
    let os = OffStats::default();
    let s_len = names[OFF_S].len();
    let low_window: Vec<usize> = (0x4000 - s_len - 2..=0x4000 + 8).collect();
    let high_window: Vec<usize> = if quick { vec![] } else { (OFF_CAP - 2 * s_len - 14..OFF_CAP).collect() };
    // follower alphabets: (quick / core) owners of A records: every suffix of S and x.<suffix>;
    // NS targets: the suffixes of 2 and 3 labels in upper case; (full) every name x both kinds
    let off_core_alphabet: Vec<(u8, u8)> = (0..4u8).flat_map(|k| [(1 + 4 * k, 0), (1 + 4 * k + 2, 0)]).chain([(1 + 4 + 1, 1), (1 + 8 + 1, 1)]).collect();
    let off_full_alphabet: Vec<(u8, u8)> = (0..OFF_FOLLOWER_NAMES as u8).flat_map(|n| [(n, 0), (n, 1)]).collect();
    let off_core_len = if quick { 2 } else { 3 };
    let mut off_scripts = off_sequences(&off_core_alphabet, off_core_len);
    if !quick {
        off_scripts.extend(off_sequences(&off_full_alphabet, 2));
        off_scripts.sort();
        off_scripts.dedup();
    }
    let off_high_scripts = off_sequences(&off_core_alphabet, 2);
    let low_builders: Vec<OffBuilder> = (0..4u8).flat_map(|c| [OffBuilder::Old(c, OTarget::Vec), OffBuilder::Old(c, OTarget::Stream)]).chain([OffBuilder::New(true), OffBuilder::New(false)]).collect();
    let high_builders: Vec<OffBuilder> = (0..4u8).flat_map(|c| [OffBuilder::Old(c, OTarget::Capped), OffBuilder::Old(c, OTarget::Stream)]).chain([OffBuilder::New(true), OffBuilder::New(false)]).collect();
    let mut off_cases: Vec<OffCase> = Vec::new();
    for (high, window, scripts) in [(false, &low_window, &off_scripts), (true, &high_window, &off_high_scripts)] {
        for &name_at in window {
            for prelude in 0..3u8 {
                for placement in 0..2u8 {
                    for f in scripts {
                        off_cases.push(OffCase { high, name_at, prelude, placement, followers: f.clone() });
                    }
                }
            }
        }
    }
    stats.count_n("gen.offset_scripts", off_cases.len() as u64);
    off_cases.par_iter().for_each(|c| {
        for &b in if c.high { &high_builders } else { &low_builders } {
            run_offset_case(&ctx, &stats, &os, &wd, b, c, &names);
        }
    });
    let off_evals = stats.evals();
    stats.sample(1, || off_case_json(OffBuilder::Old(3, OTarget::Vec), &OffCase { high: false, name_at: 0x4000 - 9, prelude: 0, placement: 0, followers: vec![(5, 0), (7, 0)] }, &names));
    let g = |x: &AtomicU64| x.load(AO::Relaxed);
    let off_cov = json!({
        "rule": "Part 2c: one case = (script, builder). Script: [question exa.tld. | question S | nothing]; one answer record of an unknown type with root owner whose RDATA length makes the next name start at message offset name_at; the name S = aa.strad.exa.tld. as the owner of an answer A record or as the target of an answer NS record owned by the root; then every sequence of followers of the tier's menus. Builders: established builder over {no compressor, StaticCompressor, TreeCompressor, HashCompressor} x {Vec<u8>, StreamTarget<Vec<u8>>} and the new builder + NameCompressor with owners as RevNameBuf and as &Name (RDATA names as &Name). window 0x4000: name_at = every offset from 0x4000 - |S| - 2 to 0x4000 + 8, a refused push is a violation; window 0xFFFF (thorough): name_at = every offset from 65535 - 2|S| - 14 to 65534 with the targets {buffer of exactly 65535 octets, StreamTarget<Vec<u8>>} / the new builder with a buffer of 65535 octets, whether a push still fits is taken from the builder. Oracle: the independent reader (pointers must point strictly backwards), the established codec and the new codec each read exactly the accepted items (names label-wise and ASCII-case-insensitively, RDATA names decompressed); no message is longer than 65535 octets. non-trivial = the output contains a compression pointer",
        "name_S": name_text(&names, OFF_S),
        "window_0x4000": [low_window.first(), low_window.last()],
        "window_0xFFFF": [high_window.first(), high_window.last()],
        "follower_menu_core": off_core_alphabet.iter().map(|(n, k)| op_desc(off_item(OFF0 + 1 + *n as usize, *k), &names)).collect::<Vec<_>>(),
        "follower_menu_full": if quick { json!("thorough only") } else { json!(off_full_alphabet.iter().map(|(n, k)| op_desc(off_item(OFF0 + 1 + *n as usize, *k), &names)).collect::<Vec<_>>()) },
        "follower_sequences": if quick { format!("every sequence of 1..{off_core_len} followers of the core menu") } else { format!("every sequence of 1..{off_core_len} followers of the core menu and of 1..2 of the full menu; window 0xFFFF: 1..2 of the core menu") },
        "scripts": off_cases.len(),
        "cases": g(&os.cases),
        "cases_by_position_of_S[ends<=0x4000, across 0x4000, starts>=0x4000, window 0xFFFF]": os.by_position.iter().map(g).collect::<Vec<_>>(),
        "cases_per_builder": low_builders.iter().chain(high_builders.iter().filter(|b| matches!(b, OffBuilder::Old(_, OTarget::Capped)))).map(|b| json!([offbuilder_name(*b), g(&os.by_builder[offbuilder_index(*b)])])).collect::<Vec<_>>(),
        "pushes_accepted": g(&os.accepted),
        "pushes_refused(window 0xFFFF)": g(&os.refused),
        "outputs_longer_than_0x4000": g(&os.longer_than_0x4000),
        "outputs_with_compression_pointers": g(&os.with_pointers),
        "pointers_followed": g(&os.pointers),
        "pointers_located_at_or_above_0x4000": g(&os.pointers_at_or_above_0x4000),
        "max_pointer_target_seen": g(&os.max_target),
        "outputs_read_equal_by_independent_reader_and_both_codecs": g(&os.all_equal),
    });
    if std::env::var("VERIF_C19_ONLY").ok().as_deref() == Some("offset") {
        // development aid: the evidence says that the run is partial
        println!("{}", serde_json::to_string_pretty(&off_cov).unwrap());
        ctx.finish(json!({"evaluations": stats.evals(), "distinct_nontrivial": stats.nontrivial.load(AO::Relaxed).min(stats.distinct_count()), "rule": "PARTIAL RUN (VERIF_C19_ONLY=offset): Part 2c only", "build_offset_axis": off_cov, "samples": stats.samples(), "exhaustive": false}), &["VERIF_C19_ONLY=offset: only Part 2c ran"]);
    }

    // ---------------- Part 1
    // one-item messages: full menus x all header variants
    let first = items(12, &[], true, quick);
    stats.count_n("gen.first_items_full", first.len() as u64);
    first.par_iter().for_each(|it| {
        let mut actual = [0u16; 4];
        actual[it.section] = 1;
        for counts in count_variants(actual, true) {
            for &fl in flagsets {
                let m = assemble(0xABCD, &[it], fl, counts);
                pc(&m, &[it], "one-item");
            }
            // an ID whose first octet is a root label, so pointers into the header resolve
            let m = assemble(0x0001, &[it], 0x8400, counts);
            pc(&m, &[it], "one-item");
        }
        let m = assemble(0xABCD, &[it], 0x8400, actual);
        if it.bytes.len() <= 48 {
            for cut in 12..m.len() {
                pc(&m[..cut], &[it], "one-item-truncated");
            }
        }
    });
    // two-item messages: (full, reduced) and (reduced, full)
    let first_reduced = items(12, &[], false, quick);
    stats.count_n("gen.first_items_reduced", first_reduced.len() as u64);
    first.par_iter().for_each(|a| {
        let pos = 12 + a.bytes.len();
        for b in items(pos, &a.landmarks, false, quick) {
            if b.section < a.section {
                continue;
            }
            let mut actual = [0u16; 4];
            actual[a.section] += 1;
            actual[b.section] += 1;
            let m = assemble(0xABCD, &[a, &b], 0x8400, actual);
            pc(&m, &[a, &b], "two-items-full-reduced");
        }
    });
    first_reduced.par_iter().for_each(|a| {
        let pos = 12 + a.bytes.len();
        for b in items(pos, &a.landmarks, true, quick) {
            if b.section < a.section {
                continue;
            }
            let mut actual = [0u16; 4];
            actual[a.section] += 1;
            actual[b.section] += 1;
            for counts in count_variants(actual, !quick) {
                let m = assemble(0xABCD, &[a, &b], 0x8400, counts);
                pc(&m, &[a, &b], "two-items-reduced-full");
            }
        }
    });
    // three items, reduced menus (thorough only)
    if !quick {
        let mut pairs: Vec<(usize, GItem)> = Vec::new();
        for (ai, a) in first_reduced.iter().enumerate() {
            for b in items(12 + a.bytes.len(), &a.landmarks, false, quick) {
                if b.section >= a.section {
                    pairs.push((ai, b));
                }
            }
        }
        stats.count_n("gen.three_items_prefix_pairs", pairs.len() as u64);
        pairs.par_iter().for_each(|(ai, b)| {
            let a = &first_reduced[*ai];
            let pos2 = 12 + a.bytes.len() + b.bytes.len();
            let mut lm = a.landmarks.clone();
            lm.extend(b.landmarks.iter().cloned());
            lm.truncate(4);
            for c in items(pos2, &lm, false, quick) {
                if c.section < b.section {
                    continue;
                }
                let mut actual = [0u16; 4];
                actual[a.section] += 1;
                actual[b.section] += 1;
                actual[c.section] += 1;
                let m = assemble(0xABCD, &[a, b, &c], 0x8400, actual);
                pc(&m, &[a, b, &c], "three-items-reduced");
            }
        });
    }
    // raw: every byte string of length n over 9 symbols after each header,
    // units at every offset
    let raw: Vec<u8> = vec![0x00, 0x01, 0x3F, 0x40, 0x80, 0xC0, 0x0C, 0xFF, b'a'];
    let rawlen = if quick { 5 } else { 6 };
    let headers = [header_id(0xABCD, 0x8400, [1, 0, 0, 0]), header_id(0xABCD, 0x8400, [0, 1, 0, 0]), header_id(0xABCD, 0x8400, [0, 0, 0, 1]), header_id(0x0001, 0, [1, 1, 0, 0])];
    for n in 0..=rawlen {
        let total = pow(raw.len(), n);
        (0..total).into_par_iter().for_each(|k| {
            let mut body = Vec::new();
            nth_string(&raw, n, k, &mut body);
            for h in &headers {
                let mut m = h.clone();
                m.extend_from_slice(&body);
                let offs: Vec<usize> = (12..=m.len()).collect();
                run_parse_case(&ctx, &stats, &wd, &m, &offs, "raw");
            }
        });
    }
    for n in 0..12 {
        run_parse_case(&ctx, &stats, &wd, &vec![0xC0; n], &[12], "short");
    }
    // every header flags word (accessors of both codecs)
    (0..=0xFFFFu32).into_par_iter().for_each(|fl| {
        let m = header_id(0xABCD, fl as u16, [0; 4]);
        run_parse_case(&ctx, &stats, &wd, &m, &[12], "all-flag-words");
    });
    let mut big = header_id(0xABCD, 0x8400, [0, 0xFFFF, 0, 0]);
    while big.len() < 65535 {
        big.extend_from_slice(&[0xC0, 0x0C]);
    }
    big.truncate(65535);
    run_parse_case(&ctx, &stats, &wd, &big, &[12, 14, 65533], "max-size-pointers");
    let parse_evals = stats.evals() - off_evals;

    // ---------------- Part 2
    let depth = if quick { 4 } else { 5 };
    let a = OPS.len();
    for d in 1..=depth {
        (0..pow(a, d)).into_par_iter().for_each(|k| {
            let mut idx = Vec::new();
            let all: Vec<usize> = (0..a).collect();
            nth_string(&all, d, k, &mut idx);
            run_build_case(&ctx, &stats, &bs, &wd, &idx, &names);
        });
    }

    // long scripts: more names than the new compressor has slots (32)
    let tail_max = if quick { 2 } else { 3 };
    let seqs = |maxlen: usize, minlen: usize| -> Vec<Vec<usize>> {
        let mut v = Vec::new();
        for d in minlen..=maxlen {
            for k in 0..pow(4, d) {
                let mut s = Vec::new();
                nth_string(&[0usize, 1, 2, 3], d, k, &mut s);
                v.push(s);
            }
        }
        v
    };
    let heads = seqs(2, 0);
    let tails = seqs(tail_max, 1);
    let mut long_cases: Vec<(usize, usize, usize)> = Vec::new();
    for h in 0..heads.len() {
        for k in 0..LRU_FILLERS {
            for t in 0..tails.len() {
                long_cases.push((h, k, t));
            }
        }
    }
    // EDNS family: every combination of the EDNS field menus, with and
    // without items before and after the record
    let edns_sizes = [EDNS_PAYLOADS.len(), EDNS_EXT.len(), EDNS_VER.len(), 2, edns_optsets().len(), 2, 2];
    let mut edns_cases: Vec<Vec<usize>> = Vec::new();
    product(&edns_sizes, |ix| edns_cases.push(ix.to_vec()));
    stats.count_n("gen.edns_scripts", edns_cases.len() as u64);
    edns_cases.par_iter().for_each(|ix| {
        let ops = edns_case_ops(ix[5] == 1, [ix[0], ix[1], ix[2], ix[3], ix[4]], ix[6] == 1);
        let key = ix.iter().fold(0x6C8E9CF570932BD5u64, |h, i| (h ^ (*i as u64 + 1)).wrapping_mul(0x100000001b3));
        run_build_ops(&ctx, &stats, &bs, &wd, &ops, &json!({"part": "build-edns", "edns": &ix[..5], "pre": ix[5] == 1, "post": ix[6] == 1}), key, &names);
    });
    // truncation / size-limit family (new builder): every sequence over
    // TL_OPS, unlimited and with every size limit from 12 to the full size
    let tl_len = if quick { 3 } else { 4 };
    let tl_alphabet: Vec<usize> = (0..TL_OPS.len()).collect();
    for d in 1..=tl_len {
        (0..pow(tl_alphabet.len(), d)).into_par_iter().for_each(|k| {
            let mut seq = Vec::new();
            nth_string(&tl_alphabet, d, k, &mut seq);
            run_tl_case(&ctx, &stats, &bs, &wd, &seq, None, &names);
        });
    }
    // header flag setters / accessors of both codecs: all flag combinations
    let opcodes: [u8; 6] = [0, 1, 2, 4, 5, 15];
    let rcodes: [u8; 5] = [0, 1, 3, 5, 15];
    (0..128u32).into_par_iter().for_each(|b7| {
        for oc in opcodes {
            for rc in rcodes {
                run_flags_case(&ctx, &stats, b7 as u8, oc, rc);
            }
        }
    });
    // small-alphabet family: every sequence of 2..len names over every name
    // of 1..3 labels over the first k labels
    let sm_bounds: &[(usize, usize)] = if quick { &[(4, 3)] } else { &[(3, 4), (5, 3)] };
    for &(k, maxlen) in sm_bounds {
        let idx = sm_indices(k);
        for d in 2..=maxlen {
            (0..pow(idx.len(), d)).into_par_iter().for_each(|i| {
                let mut seq = Vec::new();
                nth_string(&idx, d, i, &mut seq);
                run_sm_case(&ctx, &stats, &bs, &wd, &seq, &names);
            });
        }
    }
    // bit-5 family: every sequence of 1..fold_len items
    let fold_len = if quick { 2 } else { 3 };
    let fold_alphabet: Vec<usize> = (0..FOLD_BYTES.len() * 4).collect();
    for d in 1..=fold_len {
        (0..pow(fold_alphabet.len(), d)).into_par_iter().for_each(|k| {
            let mut it = Vec::new();
            nth_string(&fold_alphabet, d, k, &mut it);
            run_fold_case(&ctx, &stats, &bs, &wd, &it, &names);
        });
    }
    // fault scripts (see Part 2b)
    let build_evals_before_faults = stats.evals();
    let ft_old_alphabet: Vec<FStep> = (0..FT_ITEMS.len()).map(|i| FStep::Push(i, Fault::None)).chain([FStep::Rewind, FStep::Back]).collect();
    let ft_new_alphabet: Vec<FStep> = (0..FT_ITEMS.len()).map(|i| FStep::Push(i, Fault::None)).chain([FStep::Truncate]).collect();
    // faults attached to single pushes (established builder): passes of
    // (script depth, faults per script at most, every buffer end instead of the landmark menu)
    let ft_passes: &[(usize, usize, bool)] = if quick { &[(4, 2, false)] } else { &[(5, 1, false), (4, 3, false), (4, 1, true)] };
    for &(ft_depth, ft_max_faults, every_cut) in ft_passes {
        let fault_menu = |item: usize| -> Vec<Fault> {
            if every_cut {
                let size = item_size(FT_ITEMS[item], &names);
                let mut v = vec![Fault::Limit(ROOM_LAST)];
                v.extend((0..size as u16).map(Fault::Short));
                v
            } else {
                // nothing written / the owner (compressed against a known suffix or not) partly or just written / all but the last octet
                vec![Fault::Limit(0), Fault::Short(0), Fault::Short(7), Fault::Short(ROOM_LAST)]
            }
        };
        for d in 1..=ft_depth {
            (0..pow(ft_old_alphabet.len(), d)).into_par_iter().for_each(|k| {
                let mut base = Vec::new();
                nth_string(&ft_old_alphabet, d, k, &mut base);
                run_old_fault_scripts(&ctx, &stats, &fs, &wd, &base, &fault_menu, ft_max_faults, &names);
            });
        }
    }
    // a fixed capacity for the whole script, every capacity: the buffer has
    // exactly L octets; thorough to depth 3 also set_push_limit(L) / limit_to(L)
    let fx_depth = if quick { 3 } else { 4 };
    for d in 1..=fx_depth {
        let with_limit = !quick && d <= 3;
        (0..pow(ft_old_alphabet.len(), d)).into_par_iter().for_each(|k| {
            let mut base = Vec::new();
            nth_string(&ft_old_alphabet, d, k, &mut base);
            for comp in 0..OLD_COMPRESSORS.len() as u8 {
                run_fixed_capacity_scripts(&ctx, &stats, &fs, &wd, FBuilder::Old(comp, true), &[0], &base, &names);
                if with_limit {
                    run_fixed_capacity_scripts(&ctx, &stats, &fs, &wd, FBuilder::Old(comp, false), &[1], &base, &names);
                }
            }
        });
        (0..pow(ft_new_alphabet.len(), d)).into_par_iter().for_each(|k| {
            let mut base = Vec::new();
            nth_string(&ft_new_alphabet, d, k, &mut base);
            for rev in [true, false] {
                run_fixed_capacity_scripts(&ctx, &stats, &fs, &wd, FBuilder::New(rev), if with_limit { &[0, 1] } else { &[0] }, &base, &names);
            }
        });
    }
    let fault_evals = stats.evals() - build_evals_before_faults;
    stats.count_n("gen.long_scripts", long_cases.len() as u64);
    long_cases.par_iter().for_each(|(h, k, t)| run_lru_case(&ctx, &stats, &bs, &wd, &heads[*h], *k, &tails[*t], &names));

    stats.sample(2, || json!({"part": "parse", "family": "one-item", "message": hex(&assemble(0xABCD, &[&first[first.len() / 2]], 0x8400, [0, 1, 0, 0]))}));
    stats.sample(3, || json!({"part": "parse", "family": "raw", "message": hex(&[&headers[0][..], &[0xC0, 0x0C, 0x00, 0x01, 0x00][..]].concat())}));
    let sample_ops: Vec<String> = [1usize, 8, 2, 4].iter().map(|i| op_desc(OPS[*i], &names)).collect();
    stats.sample(4, || json!({"part": "build", "ops": [1, 8, 2, 4], "ops_text": sample_ops}));
    let mut hist = serde_json::Map::new();
    let mut outcomes_seen = 0;
    for (u, name) in UV.iter().enumerate() {
        let mut m = serde_json::Map::new();
        for (o, oname) in OUT.iter().enumerate() {
            let c = COUNTS[u][o].load(AO::Relaxed);
            if c > 0 {
                outcomes_seen += 1;
            }
            m.insert(oname.to_string(), json!(c));
        }
        hist.insert(name.to_string(), Value::Object(m));
    }
    let per_builder = {
        let mut m = serde_json::Map::new();
        for b in (0..4u8).flat_map(|c| [FBuilder::Old(c, false), FBuilder::Old(c, true)]).chain([FBuilder::New(false), FBuilder::New(true)]) {
            let i = fbuilder_index(b);
            m.insert(fbuilder_name(b), json!([g(&fs.by_builder[i][0]), g(&fs.by_builder[i][1])]));
        }
        Value::Object(m)
    };
    let cov = json!({
        "evaluations": stats.evals(),
        "distinct_nontrivial": stats.nontrivial.load(AO::Relaxed).min(stats.distinct_count()),
        "rule": "Part 1: one case = one message (C01 grammar: header variants x 1..2 items (quick) / 1..3 items (thorough) from per-field menus with pointers to every landmark; every truncation of short one-item messages; every raw body over 9 symbols to raw_len after 4 headers; every one of the 65536 header flag words on an empty message) with every unit (compressed name in 4 views + UnparsedName (message and flat), flat name in 3 views, label, question and record in 2 views each plus their compression-less entry points with re-serialisation, character string (&CharStr, CharStrBuf, re-serialisation), name conversions From<&base::Name> and name equality) parsed at every landmark offset (raw: every offset) and the whole message parsed through the iterators / low-level API / MessageParser by both codecs, including the header flag accessors, the EDNS view of OPT records (payload size, extended rcode, version, DO, options) and BoxedRecordData as a second typed representation; non-trivial = both codecs accepted a name containing a compression pointer, a record with non-empty RDATA, or at least one whole-message item; distinct = distinct message octets. Part 2: one case = (operation sequence, builder); non-trivial = the built message contains at least one compression pointer (independent reader); distinct = distinct (sequence, builder). Part 2b: see build_under_faults.rule. Part 2c (offset axis around 0x4000 / 0xFFFF on every compressor and target): see build_offset_axis.rule",
        "exhaustive": true,
        "bound": {"parse_items": if quick { 2 } else { 3 }, "raw_len": rawlen, "raw_alphabet": raw, "build_depth": depth, "build_alphabet": OPS.iter().map(|o| op_desc(*o, &names)).collect::<Vec<_>>(), "build_long": format!("head: every sequence of 0..2 of {{alpha., c.alpha., beta., c.beta.}}; then k = 0..{} distinct unrelated one-label names; tail: every sequence of 1..{} of the four; all answer A records", LRU_FILLERS - 1, tail_max), "build_edns": "every combination of payload {0,512,1232,65535} x ext_rcode {0,1,255} x version {0,1,255} x DO x 6 option sets (none, client cookie, full cookie, extended error, unknown code, two options) x {alone, after question+answer} x {last, followed by an additional A record}; new builder with options as &Opt and as a slice of typed EdnsOption, established builder through opt()", "build_truncate_limit": format!("new builder: every sequence of 1..{} of {{question, answer A, answer CNAME, authority NS, additional A, truncate(), finish+new message with the same compressor}} unlimited and under limit_to(L) for every L from 12 to the unlimited size", tl_len), "build_flags": "all 128 combinations of QR AA TC RD RA AD CD x opcode {0,1,2,4,5,15} x rcode {0,1,3,5,15} through both codecs' setters, read back through both codecs' accessors", "build_small_alphabet": format!("every sequence of 2..len names (answer A records owned by the name) over all names of 1..3 one-octet labels over the first k of {:?}; (k, len) = {:?}", SM_LABELS.iter().map(|b| *b as char).collect::<Vec<_>>(), sm_bounds), "build_bit5": format!("every sequence of 1..{} items over {{a<b>.example., www.a<b>.example. : b in {:02x?}}} x {{owner of an A record, target of an NS record owned by example.}}", fold_len, FOLD_BYTES)},
        "parse_cases": parse_evals,
        "unit_view_outcomes": Value::Object(hist),
        "distinct_unit_outcomes_observed": outcomes_seen,
        "whitelisted_by_rule": {
            "pointer-not-before-its-name-segment (absolute.rs:411-416, reversed.rs:328-333)": g(&WL_FORWARD),
            "pointer-into-the-12-octet-header (parse/mod.rs:240-243,329-332)": g(&WL_HEADER),
            "bounded-range parser: name needs octets beyond the range it was given (parse/mod.rs:240-243)": g(&WL_RANGE),
            "typed: compressed name in SRV/DNAME/RRSIG/NSEC RDATA refused by the new codec (RFC 2782, 6672, 4034; dname.rs:36)": g(&WL_NOCOMP),
            "typed: empty TXT refused by the new codec (txt.rs:39,121)": g(&WL_EMPTY_TXT),
        },
        "typed_strictness_differences_counted_not_asserted": json!(*STRICTNESS.lock().unwrap()),
        "build": {
            "cases(sequence x builder)": g(&bs.sequences),
            "outputs_with_compression_pointers": g(&bs.with_pointers),
            "outputs_longer_than_0x4000": g(&bs.crossing),
            "pointers_checked": g(&bs.pointers),
            "max_pointer_target_seen": g(&bs.max_target),
            "pushes_accepted": g(&bs.accepted),
            "pushes_misplaced(both refuse)": g(&bs.misplaced),
            "pad_ops_not_applicable": g(&bs.pad_skipped),
            "cases_with_a_size_limit": g(&bs.limited),
            "pushes_refused_as_Truncated_under_a_limit": g(&bs.truncated_pushes),
            "outputs_read_back_equal_by_other_codec_and_independent_reader": g(&bs.checks_ok),
        },
        "build_under_faults": {
            "rule": "Part 2b: one case = (script, builder, capacity). Scripts: (a) established builder: every sequence of 1..depth steps over {push of each item of the menu, rewind() of the current section, back to the previous section} with every assignment of at most max_faults faults from the pass's fault menu to its pushes (fault = a push limit, or the buffer ending r octets after the current length, for that push only), on every compressor (none, Static, Tree, Hash; target Vec<u8>, or a target with a movable end for the buffer faults); (b) every fault-free sequence of 1..fixed_depth steps under a capacity fixed for the whole script (established: buffer of exactly L octets [thorough, to depth 3: also set_push_limit(L)]; new builder with owners as RevNameBuf and as &Name, steps {push of each item, truncate()}: buffer of exactly L octets [thorough, to depth 3: also limit_to(L)]) for EVERY L from 12 to the size at which everything fits. Whether a push is accepted is taken from the builder; the model keeps the accepted items minus those rolled back (rewind, section left backwards, truncate()). Oracle: the independent reader, the established codec and the new codec each read exactly the model's items (names label-wise and ASCII-case-insensitively, RDATA names decompressed, other RDATA by value), the header flags are the expected ones, the message does not exceed the capacity.",
            "items": FT_ITEMS.iter().map(|o| op_desc(*o, &names)).collect::<Vec<_>>(),
            "passes(depth, max_faults, fault_menu)": ft_passes.iter().map(|(d, k, e)| json!([d, k, if *e { "push limit = current length + uncompressed size - 1; buffer ends r octets after the current length for EVERY r below the uncompressed size" } else { "push limit = current length; buffer ends 0 / 7 / (uncompressed size - 1) octets after the current length" }])).collect::<Vec<_>>(),
            "fixed_depth": fx_depth,
            "cases": g(&fs.cases),
            "evaluations": fault_evals,
            "pushes_accepted": g(&fs.accepted),
            "pushes_refused": g(&fs.refused),
            "pushes_for_an_earlier_section(skipped / refused as Misplaced)": g(&fs.misplaced),
            "items_rolled_back": g(&fs.rolled_back_items),
            "cases_with_items_in_the_output_after_a_refused_push": g(&fs.push_after[0]),
            "cases_with_items_in_the_output_after_rewind": g(&fs.push_after[1]),
            "cases_with_items_in_the_output_after_a_section_was_left_backwards": g(&fs.push_after[2]),
            "cases_with_items_in_the_output_after_truncate()": g(&fs.push_after[3]),
            "outputs_with_compression_pointers": g(&fs.with_pointers),
            "outputs_read_equal_by_independent_reader_and_both_codecs": g(&fs.all_equal),
            "per_builder[cases, cases_with_a_refused_push]": per_builder,
        },
        "build_offset_axis": off_cov,
        "samples": stats.samples(),
        "counters": stats.counters_json(),
    });
    // The differences the oracle excuses BY RULE are genuine disagreements of the two codecs in
    // the sense of the property ("both accept or both reject"): the new codec deliberately
    // follows the RFCs more strictly. They are not repaired (a design decision of the new API)
    // and therefore reported as known findings, one class per rule, listed in
    // known_findings.jsonl; anything outside the rules is a violation as before.
    for (n, sig, what) in [
        (g(&WL_FORWARD), "C19|documented-difference|established-accepts-new-rejects|pointer-not-before-its-name-segment", "a compression pointer that does not point before the start of the name segment it ends is followed by the established codec and refused by the new one"),
        (g(&WL_HEADER), "C19|documented-difference|established-accepts-new-rejects|pointer-into-the-header", "a compression pointer into the 12-octet header is followed by the established codec and refused by the new one"),
        (g(&WL_RANGE), "C19|documented-difference|established-accepts-new-rejects|bounded-range-parser-needs-octets-beyond-its-range", "a name whose pointer target lies beyond the range a bounded new-codec parser was given is read by the established codec and refused by the new one"),
        (g(&WL_NOCOMP), "C19|documented-difference|established-accepts-new-rejects|compressed-name-in-SRV-DNAME-RRSIG-NSEC-rdata", "a compressed name in SRV/DNAME/RRSIG/NSEC record data is decompressed by the established codec and refused by the new one (RFC 2782, 6672, 4034: MUST NOT be compressed)"),
        (g(&WL_EMPTY_TXT), "C19|documented-difference|established-accepts-new-rejects|empty-TXT-rdata", "a TXT record with RDLENGTH 0 is accepted by the established codec and refused by the new one (RFC 1035 3.3.14: one or more character strings)"),
    ] {
        if n > 0 {
            ctx.violation(sig, &format!("{what} ({n} cases in this run)"), json!({"part": "documented-difference", "signature": sig, "cases": n}));
        }
    }
    for (k, n) in STRICTNESS.lock().unwrap().iter() {
        let sig = format!("C19|documented-difference|typed-strictness|{k}");
        ctx.violation(&sig, &format!("typed record data on which only one codec is strict: {k} ({n} cases in this run)"), json!({"part": "documented-difference", "signature": sig, "cases": n}));
    }
    ctx.finish(
        cov,
        &[
            "octet values outside the menus, messages with more than three items and build scripts longer than the depth bound are not covered",
            "documented differences are excused by rule only in the direction established=accept/new=reject: a pointer that does not point before the start of the name segment it ends, and a pointer into the 12-octet header",
            "typed RDATA is compared only for the 20 record types both codecs parse; for other types the new codec must pass the RDATA through verbatim",
            "name comparison in Part 2 is ASCII case-insensitive (compression may reuse a differently-cased earlier occurrence); Part 1 compares case-sensitively",
            "the build is made with overflow checks on: an arithmetic overflow in the subject shows up as a panic",
            "a case that does not finish within 20 s is reported as a hang",
            "Part 2c: one name family (S = aa.strad.exa.tld. and the names sharing its suffixes); the padding is one opaque record with root owner; in the 0xFFFF window whether a push still fits is taken from the builder",
            "Part 2b: whether a push fits under a push limit / buffer end / capacity is taken from the builder (compression is the builder's choice); only the accepted items are modelled; the target with a movable end is a harness implementation of the public OctetsBuilder/Truncate/Composer traits",
        ],
    );
}
