//! C15 — client transports deliver each answer to its own request, exactly once.
//!
//! Engine: `mc::envx::explore` — every environment-answer sequence with at
//! most k non-default answers, each execution on a fresh tokio current-thread
//! runtime with the clock paused (see `main` for the passes of each tier).
//!
//! The harness owns the scheduler: the real transport future and the real
//! request futures are polled by hand (own wakers, `tokio::task::unconstrained`
//! so tokio's cooperative budget cannot fake a Pending), always "until
//! quiescent" (no woken future left). The runtime never parks, therefore the
//! paused clock never auto-advances: virtual time moves only through explicit
//! `tokio::time::advance` steps chosen by the environment. All sockets are
//! in-memory mocks; every answer of a mock (what the peer sends next, whether
//! a write/connect/send succeeds, whether time passes) is an `envx` choice.
//!
//! Oracle (per execution, all written here from the property text):
//!  * Ok(m): m is byte-identical to a message the mock delivered, no message
//!    is handed to more callers than it was delivered times, m carries an ID
//!    the subject put on the wire for THIS caller, QR=1, and the caller's
//!    question (or is a header-only error);
//!  * a matching answer delivered on a healthy connection/socket to a pending
//!    request completes that request with exactly that message at the next
//!    quiescence;
//!  * Err only with an environmental cause (fault, close, stray/non-matching
//!    message, elapsed time);
//!  * where timeouts live on the tokio clock (dgram, multi_stream,
//!    dgram_stream): once start + budget has elapsed the request is complete;
//!  * every non-cancelled request is complete at the end; nothing panics;
//!  * dgram_stream: a matching TC=1 datagram is followed by a stream attempt
//!    and the TC datagram is never the caller's result.
//!
//! Transports covered: stream, dgram, dgram_stream, multi_stream, redundant,
//! load_balancer. The last two run over two or three mock upstreams
//! (`SendRequest` mocks whose calls the environment answers, fails, lets time
//! out, or answers late); their random draws (probe decision, probe index) go
//! through the library's `verif_rand` seam and are environment choices.
//! multi_stream's reconnect jitter gets the fixed value 0.5 from the same seam.
//! Multi-response (AXFR/IXFR) requests on the stream transport have their own
//! cases (`stream_xfr`), as have requests carrying EDNS data.
//! Not covered: the `Queries` table in isolation (type is private; it is
//! driven through the stream transport instead, including slot recycling).
//! Built with the /repo feature `verif-hooks`, under which stream.rs measures
//! its response and idle timeouts on tokio's clock: the stream harness has
//! "time passes" actions (to just below / exactly / just above the idle
//! timeout, just below / just above the response timeout), silent-peer cases
//! and cases that submit a request after an idle gap. A stream request's
//! budget is response_timeout (+1 ms: timer resolution, strict comparison)
//! from its submission.
use bytes::Bytes;
use domain::base::Message;
use domain::net::client::protocol::{AsyncConnect, AsyncDgramRecv, AsyncDgramSend};
use domain::net::client::request::{
    Error, RequestMessage, RequestMessageMulti, SendRequest,
};
use domain::net::client::{dgram, dgram_stream, multi_stream, stream};
use mc::envx::{explore, Chooser};
use mc::*;
use serde_json::{json, Value};
use std::collections::{BTreeMap, VecDeque};
use std::future::Future;
use std::io;
use std::pin::Pin;
use std::sync::atomic::{AtomicBool, AtomicU64, Ordering};
use std::sync::{Arc, Mutex};
use std::task::{Context, Poll, Wake, Waker};
use tokio::io::{AsyncRead, AsyncWrite, ReadBuf};
use tokio::time::{Duration, Instant};

type Rq = RequestMessage<Vec<u8>>;
type RqM = RequestMessageMulti<Vec<u8>>;
type RespResult = Result<Message<Bytes>, Error>;

// ---------------------------------------------------------------------------
// wire helpers (independent of the library)
// ---------------------------------------------------------------------------

/// Question 0 and 1 are used by requests; question 2 only by "wrong question"
/// replies.
const QNAMES: [&[u8]; 3] = [b"\x01a\x07example\x00", b"\x01b\x07example\x00", b"\x01x\x07example\x00"];

fn qwire(q: usize) -> Vec<u8> {
    let mut v = QNAMES[q].to_vec();
    v.extend_from_slice(&[0, 1, 0, 1]); // A IN
    v
}

/// The request of caller `i` (i < 8) for question `q`. The caller index is
/// encoded in the Z/AD/CD header bits, which no transport touches and which
/// play no role in matching; the mock reads it back from the written bytes,
/// so the frame → caller mapping is exact even for identical questions.
///
/// Every caller composes its request with an ID of its own (`caller_id`):
/// non-zero, distinct per caller, both octets different. A transport that
/// picks the wire ID itself (datagram, stream) overwrites it; one that makes
/// up a reply itself (the load balancer's SERVFAIL when every upstream is
/// over its burst limit) has only this ID to answer under.
fn request_bytes(i: usize, q: usize) -> Vec<u8> {
    let id = caller_id(i).to_be_bytes();
    let mut v = vec![id[0], id[1], 0x01, ((i & 7) as u8) << 4, 0, 1, 0, 0, 0, 0, 0, 0];
    v.extend_from_slice(&qwire(q));
    v
}

/// The ID caller `i` puts into the request it composes.
fn caller_id(i: usize) -> u16 {
    0x4B1D + 0x0111 * (i as u16 & 7)
}

fn build_request(i: usize, q: usize) -> Rq {
    let msg = Message::from_octets(request_bytes(i, q)).expect("request bytes");
    RequestMessage::new(msg).expect("request message")
}

/// The request of caller `i` in its EDNS form: the base message already has
/// an additional A record and an OPT record (no DO, size 512); the caller
/// then sets DO, adds an NSID option and sets the UDP payload size to 1400
/// through the ComposeRequest interface.
fn build_request_edns(i: usize, q: usize) -> Rq {
    use domain::net::client::request::ComposeRequest;
    let mut v = request_bytes(i, q);
    v[11] = 2; // ARCOUNT
    v.extend_from_slice(b"\x05extra\x07example\x00");
    v.extend_from_slice(&[0, 1, 0, 1, 0, 0, 0, 9, 0, 4, 192, 0, 2, 1]);
    v.extend_from_slice(&[0, 0, 41, 2, 0, 0, 0, 0, 0, 0, 0]);
    let msg = Message::from_octets(v).expect("request bytes");
    let mut r = RequestMessage::new(msg).expect("request message");
    r.set_dnssec_ok(true);
    r.add_opt(&domain::base::opt::Nsid::from_octets(Vec::<u8>::new()).expect("nsid")).expect("add_opt");
    r.set_udp_payload_size(1400);
    r
}

/// What must be on the wire for such a request: the question untouched (the
/// caller checks that), the extra A record kept, exactly one OPT record with
/// DO set and an NSID option, and the expected UDP payload size.
fn check_edns_request(bytes: &[u8], want_size: u16) -> Result<(), String> {
    let m = wire::read_message(bytes).map_err(|e| format!("unparseable: {e}"))?;
    let add = &m.sections[2];
    let opts: Vec<&wire::RawRecord> = add.iter().filter(|r| r.rtype == 41).collect();
    if opts.len() != 1 {
        return Err(format!("{}-opt-records", opts.len()));
    }
    if !add.iter().any(|r| r.rtype == 1 && r.rdata == [192, 0, 2, 1]) {
        return Err("additional-record-lost".into());
    }
    let o = opts[0];
    if o.ttl & 0x8000 == 0 {
        return Err("do-bit-lost".into());
    }
    if o.class != want_size {
        return Err(format!("udp-payload-size-{}-instead-of-{want_size}", o.class));
    }
    // options: code(2) len(2) data
    let mut p = 0;
    let mut nsid = false;
    while p + 4 <= o.rdata.len() {
        let code = u16::from_be_bytes([o.rdata[p], o.rdata[p + 1]]);
        let len = u16::from_be_bytes([o.rdata[p + 2], o.rdata[p + 3]]) as usize;
        if code == 3 {
            nsid = true;
        }
        p += 4 + len;
    }
    if p != o.rdata.len() {
        return Err("opt-rdata-malformed".into());
    }
    if !nsid {
        return Err("nsid-option-lost".into());
    }
    Ok(())
}

#[derive(Clone, Copy, Debug, PartialEq, Eq)]
enum RKind {
    Answer,
    /// TC set, empty answer section
    Tc,
    /// answer with the TC bit set (over a stream)
    AnswerTc,
    /// header only, RCODE SERVFAIL
    HdrErr,
    /// like Answer but QR clear
    Qr0,
    /// Answer plus an OPT record with an edns-tcp-keepalive option (timeout in 100 ms units)
    AnswerKeepalive(u16),
}

/// A reply built by hand. `owner`/`serial` make every produced message unique
/// and name the caller it was produced for (RDATA 10.<owner>.<serial>).
fn mk_resp(id: u16, q: usize, kind: RKind, owner: usize, serial: u16) -> Vec<u8> {
    let mut v = Vec::new();
    v.extend_from_slice(&id.to_be_bytes());
    let (flags, qd, an): (u16, u16, u16) = match kind {
        RKind::Answer => (0x8180, 1, 1),
        RKind::Tc => (0x8380, 1, 0),
        RKind::AnswerTc => (0x8380, 1, 1),
        RKind::HdrErr => (0x8182, 0, 0),
        RKind::Qr0 => (0x0100, 1, 1),
        RKind::AnswerKeepalive(_) => (0x8180, 1, 1),
    };
    v.extend_from_slice(&flags.to_be_bytes());
    v.extend_from_slice(&qd.to_be_bytes());
    v.extend_from_slice(&an.to_be_bytes());
    v.extend_from_slice(&[0, 0, 0, matches!(kind, RKind::AnswerKeepalive(_)) as u8]);
    if qd == 1 {
        v.extend_from_slice(&qwire(q));
    }
    if an == 1 {
        v.extend_from_slice(&[0xC0, 0x0C, 0, 1, 0, 1, 0, 0, 0, 60, 0, 4, 10, owner as u8]);
        v.extend_from_slice(&serial.to_be_bytes());
    }
    if let RKind::AnswerKeepalive(t) = kind {
        // OPT: root, type 41, class 1232, ttl 0, rdlen 6: option 11, length 2, timeout
        v.extend_from_slice(&[0, 0, 41, 0x04, 0xD0, 0, 0, 0, 0, 0, 6, 0, 11, 0, 2]);
        v.extend_from_slice(&t.to_be_bytes());
    }
    v
}

/// Reply grammar: RCODE x question section x TC (x ID, chosen by the caller).
#[derive(Clone, Copy, Debug, PartialEq, Eq)]
enum QSel {
    /// the request's question
    Same,
    /// another owner name
    OtherName,
    /// the request's name with another type (AAAA)
    OtherType,
    /// no question, no records
    Empty,
    /// no question but one record in the answer section
    EmptyExtra,
}

#[derive(Clone, Copy, Debug, PartialEq, Eq)]
struct Shape {
    rcode: u8,
    qsel: QSel,
    tc: bool,
}

const RCODES: [u8; 4] = [0, 2, 3, 5]; // NOERROR, SERVFAIL, NXDOMAIN, REFUSED
const QSELS: [QSel; 5] = [QSel::Same, QSel::OtherName, QSel::OtherType, QSel::Empty, QSel::EmptyExtra];

/// The whole product except the plain answer (NOERROR, same question, TC=0),
/// which is the "intact" reply.
fn all_shapes() -> Vec<Shape> {
    let mut v = Vec::new();
    for rcode in RCODES {
        for qsel in QSELS {
            for tc in [false, true] {
                if !(rcode == 0 && qsel == QSel::Same && !tc) {
                    v.push(Shape { rcode, qsel, tc });
                }
            }
        }
    }
    v
}

/// The three classic non-answers, used where the full product is not offered.
fn classic_shapes() -> Vec<Shape> {
    vec![
        Shape { rcode: 0, qsel: QSel::OtherName, tc: false },
        Shape { rcode: 2, qsel: QSel::Empty, tc: false },
        Shape { rcode: 3, qsel: QSel::OtherName, tc: false },
    ]
}

/// Shapes sent under a WRONG id: every rcode with the request's question and
/// with an empty question (the header-only form), TC=0.
fn wrong_id_shapes() -> Vec<Shape> {
    let mut v = Vec::new();
    for rcode in RCODES {
        for qsel in [QSel::Same, QSel::Empty] {
            if !(rcode == 0 && qsel == QSel::Same) {
                v.push(Shape { rcode, qsel, tc: false });
            }
        }
    }
    v
}

/// A reply of the given shape to a request for question `q`. NOERROR replies
/// that carry a question also carry one A record (10.<owner>.<serial>).
fn mk_shape(id: u16, q: usize, sh: Shape, owner: usize, serial: u16) -> Vec<u8> {
    let mut v = Vec::new();
    v.extend_from_slice(&id.to_be_bytes());
    let flags: u16 = 0x8180 | sh.rcode as u16 | if sh.tc { 0x0200 } else { 0 };
    let question: Option<Vec<u8>> = match sh.qsel {
        QSel::Same => Some(qwire(q)),
        QSel::OtherName => Some(qwire(2)),
        QSel::OtherType => {
            let mut w = QNAMES[q].to_vec();
            w.extend_from_slice(&[0, 28, 0, 1]);
            Some(w)
        }
        QSel::Empty | QSel::EmptyExtra => None,
    };
    let an: u16 = if (sh.rcode == 0 && question.is_some()) || sh.qsel == QSel::EmptyExtra { 1 } else { 0 };
    v.extend_from_slice(&flags.to_be_bytes());
    v.extend_from_slice(&(question.is_some() as u16).to_be_bytes());
    v.extend_from_slice(&an.to_be_bytes());
    v.extend_from_slice(&[0, 0, 0, 0]);
    if let Some(qs) = &question {
        v.extend_from_slice(qs);
    }
    if an == 1 {
        if question.is_some() {
            v.extend_from_slice(&[0xC0, 0x0C]);
        } else {
            v.extend_from_slice(QNAMES[q]);
        }
        v.extend_from_slice(&[0, 1, 0, 1, 0, 0, 0, 60, 0, 4, 10, owner as u8]);
        v.extend_from_slice(&serial.to_be_bytes());
    }
    v
}

/// Shapes used on top of dgram_stream / multi_stream: an error RCODE with a
/// question that is not the request's, or none, TC 0/1.
fn multi_shapes() -> Vec<Shape> {
    let mut v = Vec::new();
    for qsel in [QSel::OtherName, QSel::Empty, QSel::EmptyExtra] {
        for tc in [false, true] {
            v.push(Shape { rcode: 3, qsel, tc });
        }
    }
    v
}

// ---------------------------------------------------------------------------
// stray replies: right ID, yet not the answer (and one that is)
// ---------------------------------------------------------------------------

/// Records of a reply that has no question section, as (ancount, nscount,
/// arcount): simplest first.
#[derive(Clone, Copy, Debug, PartialEq, Eq)]
enum Recs {
    /// (0,0,1): an OPT record
    ArOpt,
    /// (0,0,1): an A record
    ArRec,
    /// (1,0,0)
    An,
    /// (0,1,0): an NS record
    Ns,
    /// (1,0,1): an A record and an OPT record
    AnAr,
}

/// A reply that carries the request's ID. All but `QCase` are NOT the answer
/// by the property text (same ID and same question; only a reply whose four
/// counts are all zero and whose RCODE is not NOERROR matches on the ID
/// alone); `QCase` IS the answer (RFC 1035 2.3.3: names compare
/// case-insensitively; RFC 1035 7.3 asks for a question section that
/// "corresponds"); `Opcode` keeps ID, QR and question and differs only in the
/// opcode, which the property text does not mention: see OPCODE_MISMATCH_IS_STRAY.
#[derive(Clone, Copy, Debug, PartialEq, Eq)]
enum Stray {
    /// QR set, no question section, not header-only: RCODE x records
    NoQ(u8, Recs),
    /// the request itself echoed back: right question, QR clear, no records
    Echo,
    /// the request's question except for the type (AAAA), with an answer
    QType,
    /// the request's question except for the class (CH), with an answer
    QClass,
    /// the request's question with the name in upper case, with an answer: a legitimate answer
    QCase,
    /// two questions, the first being the request's, with an answer
    TwoQ,
    /// the request's question and an answer, QR set, but this OPCODE (4 = NOTIFY)
    Opcode(u8),
}

/// RCODEs of the question-less family: NOERROR, FORMERR, SERVFAIL, REFUSED.
const STRAY_RCODES: [u8; 4] = [0, 1, 2, 5];
const STRAY_RECS: [Recs; 5] = [Recs::ArOpt, Recs::ArRec, Recs::An, Recs::Ns, Recs::AnAr];

/// The property text ("same ID and same question") and RFC 1035 7.3 (match
/// on the ID, then verify the question section) do not mention the opcode.
/// With `false` a reply that differs from the genuine answer only in its
/// opcode is offered by the environment, but the oracle demands neither that
/// it is handed to the caller nor that it is discarded (what happens is
/// counted); everything else (exactly-once, other callers unaffected) still
/// applies. With `true` it is a stray reply like the others.
const OPCODE_MISMATCH_IS_STRAY: bool = false;

/// The whole alphabet, simplest first: 20 question-less shapes, then the
/// six single shapes.
fn all_strays() -> Vec<Stray> {
    let mut v = Vec::new();
    for rc in STRAY_RCODES {
        for r in STRAY_RECS {
            v.push(Stray::NoQ(rc, r));
        }
    }
    v.extend_from_slice(&[Stray::Echo, Stray::QType, Stray::QClass, Stray::QCase, Stray::TwoQ, Stray::Opcode(4)]);
    v
}

/// Offered once an execution already contains a reply from the full alphabet.
fn rep_strays() -> Vec<Stray> {
    vec![Stray::NoQ(2, Recs::ArOpt), Stray::NoQ(0, Recs::An), Stray::Echo, Stray::QCase, Stray::TwoQ]
}

impl Stray {
    /// Class name used in violation signatures and counters.
    fn family(&self) -> &'static str {
        match self {
            Stray::NoQ(0, _) => "no-question-noerror",
            Stray::NoQ(_, Recs::ArOpt) => "no-question-error-with-opt-record",
            Stray::NoQ(_, _) => "no-question-error-with-records",
            Stray::Echo => "query-echoed-back",
            Stray::QType => "question-type-differs",
            Stray::QClass => "question-class-differs",
            Stray::QCase => "question-name-case-differs",
            Stray::TwoQ => "two-questions",
            Stray::Opcode(_) => "opcode-differs",
        }
    }
    fn label(&self) -> String {
        match self {
            Stray::NoQ(rc, r) => format!("no question, rcode {rc}, records {r:?}"),
            o => format!("{o:?}"),
        }
    }
}

const A_REC_TAIL: [u8; 10] = [0, 1, 0, 1, 0, 0, 0, 60, 0, 4];

/// Build the stray reply `s` for a request (caller `owner`, question `q`)
/// under `id`. Every message ends in the marker 10.<owner>.<serial> like the
/// genuine answers (except Echo, which is the request as written by
/// `request_bytes`, and the NS-only shape, whose TTL carries the marker).
fn mk_stray(id: u16, q: usize, s: Stray, owner: usize, serial: u16) -> Vec<u8> {
    let marker = |v: &mut Vec<u8>| {
        v.extend_from_slice(&[10, owner as u8]);
        v.extend_from_slice(&serial.to_be_bytes());
    };
    let a_rec = |v: &mut Vec<u8>, name: &[u8]| {
        v.extend_from_slice(name);
        v.extend_from_slice(&A_REC_TAIL);
        marker(v);
    };
    let opt_rec = |v: &mut Vec<u8>| {
        // root, OPT, payload size 1232, ttl 0, rdlen 8: option 65001, length 4, marker
        v.extend_from_slice(&[0, 0, 41, 0x04, 0xD0, 0, 0, 0, 0, 0, 8, 0xFD, 0xE9, 0, 4]);
        marker(v);
    };
    let mut v = Vec::new();
    v.extend_from_slice(&id.to_be_bytes());
    match s {
        Stray::Echo => {
            let mut r = request_bytes(owner, q);
            r[0..2].copy_from_slice(&id.to_be_bytes());
            return r;
        }
        Stray::NoQ(rc, recs) => {
            let (an, ns, ar): (u16, u16, u16) = match recs {
                Recs::ArOpt | Recs::ArRec => (0, 0, 1),
                Recs::An => (1, 0, 0),
                Recs::Ns => (0, 1, 0),
                Recs::AnAr => (1, 0, 1),
            };
            v.extend_from_slice(&(0x8180u16 | rc as u16).to_be_bytes());
            for c in [0, an, ns, ar] {
                v.extend_from_slice(&c.to_be_bytes());
            }
            match recs {
                Recs::ArOpt => opt_rec(&mut v),
                Recs::ArRec | Recs::An => a_rec(&mut v, QNAMES[q]),
                Recs::Ns => {
                    v.extend_from_slice(b"\x07example\x00");
                    v.extend_from_slice(&[0, 2, 0, 1, 0, owner as u8]);
                    v.extend_from_slice(&serial.to_be_bytes());
                    v.extend_from_slice(&[0, 12]);
                    v.extend_from_slice(b"\x02ns\x07example\x00");
                }
                Recs::AnAr => {
                    a_rec(&mut v, QNAMES[q]);
                    opt_rec(&mut v);
                }
            }
        }
        Stray::QType | Stray::QClass | Stray::QCase | Stray::TwoQ | Stray::Opcode(_) => {
            let flags: u16 = match s {
                Stray::Opcode(op) => 0x8180 | ((op as u16 & 0xF) << 11),
                _ => 0x8180,
            };
            v.extend_from_slice(&flags.to_be_bytes());
            let qd: u16 = if s == Stray::TwoQ { 2 } else { 1 };
            for c in [qd, 1, 0, 0] {
                v.extend_from_slice(&c.to_be_bytes());
            }
            let name: Vec<u8> = if s == Stray::QCase { QNAMES[q].to_ascii_uppercase() } else { QNAMES[q].to_vec() };
            v.extend_from_slice(&name);
            v.extend_from_slice(&match s {
                Stray::QType => [0, 28, 0, 1],
                Stray::QClass => [0, 1, 0, 3],
                _ => [0, 1, 0, 1],
            });
            if s == Stray::TwoQ {
                v.extend_from_slice(&qwire(2));
            }
            a_rec(&mut v, &[0xC0, 0x0C]);
        }
    }
    v
}

/// A reply whose handling the oracle leaves open (see OPCODE_MISMATCH_IS_STRAY).
fn neutral(bytes: &[u8]) -> bool {
    !OPCODE_MISMATCH_IS_STRAY && bytes.len() >= 12 && bytes[2] & 0x78 != 0
}

fn framed(msg: &[u8]) -> Vec<u8> {
    let mut v = (msg.len() as u16).to_be_bytes().to_vec();
    v.extend_from_slice(msg);
    v
}

/// Independent "is this message an answer to (id, question q)" — the property
/// text: same ID and same question; a header-only error needs only the ID.
/// Returns Err(reason) when not.
fn answers(bytes: &[u8], ids: &[u16], q: usize) -> Result<(), &'static str> {
    answers_opt(bytes, ids, q, true)
}

fn answers_opt(bytes: &[u8], ids: &[u16], q: usize, require_qr: bool) -> Result<(), &'static str> {
    let m = match wire::read_message(bytes) {
        Ok(m) => m,
        Err(_) => return Err("unparseable"),
    };
    if !ids.contains(&m.id) {
        return Err("id-mismatch");
    }
    if require_qr && m.flags & 0x8000 == 0 {
        return Err("qr-clear");
    }
    if OPCODE_MISMATCH_IS_STRAY && m.flags & 0x7800 != 0 {
        return Err("opcode-mismatch");
    }
    if m.flags & 0x000F != 0 && m.counts == [0, 0, 0, 0] {
        return Ok(());
    }
    let mut p = Vec::new();
    let want = wire::read_name(QNAMES[q], 0, &mut p).unwrap().0;
    if m.questions.len() != 1
        || !wire::labels_eq_ci(&m.questions[0].qname, &want)
        || m.questions[0].qtype != 1
        || m.questions[0].qclass != 1
    {
        return Err("question-mismatch");
    }
    Ok(())
}

/// The run's context, for the one violation that is found where no context is at hand: a request
/// the subject put on the wire that is not a well-formed DNS message carrying one of the harness's
/// requests. Such octets cannot be attributed to a caller, so the execution cannot go on; the
/// violation is recorded and the run ends with its verdict lines at once.
static CTX: std::sync::OnceLock<Arc<Ctx>> = std::sync::OnceLock::new();

fn wire_violation(what: &str, cause: &str, detail: &str, bytes: &[u8]) -> ! {
    match CTX.get() {
        Some(ctx) => {
            ctx.violation(
                &format!("C15|{what}|request-on-the-wire|{cause}"),
                &format!("the {what} transport put octets on the wire that are not the request a caller handed to it ({cause}: {detail}): {}", hex(bytes)),
                json!({"part": "wire", "transport": what, "cause": cause, "octets": hex(bytes)}),
            );
            ctx.finish_quiet()
        }
        None => {
            eprintln!("MACHINERY: {what}: request written by the subject is damaged ({cause}) and no context is registered");
            std::process::exit(2)
        }
    }
}

/// (caller index, id, question index) of a request message written by the
/// subject. Every request the harness hands to a transport is a query with one of two known
/// questions and the caller's index in the Z/AD/CD bits; octets that do not parse, or parse to
/// something else, mean the transport damaged the request on its way to the wire (the peer cannot
/// answer *that caller's request* any more): a C15 violation, reported at once.
fn parse_request(bytes: &[u8], what: &str) -> (usize, u16, usize) {
    let m = match wire::read_message(bytes) {
        Ok(m) => m,
        Err(e) => wire_violation(what, "does-not-parse", &e.to_string(), bytes),
    };
    let idx = ((m.flags >> 4) & 7) as usize;
    let q = (0..2).find(|q| {
        let mut p = Vec::new();
        let want = wire::read_name(QNAMES[*q], 0, &mut p).unwrap().0;
        m.questions.len() == 1 && m.questions[0].qname == want && m.questions[0].qtype == 1
    });
    match q {
        Some(q) if m.flags & 0x8000 == 0 => (idx, m.id, q),
        _ => wire_violation(what, "is-not-a-request-of-this-run", "question or QR bit differ from every request handed to the transport", bytes),
    }
}

// ---------------------------------------------------------------------------
// hand-driven tasks
// ---------------------------------------------------------------------------

struct Flag(AtomicBool);
impl Wake for Flag {
    fn wake(self: Arc<Self>) {
        self.0.store(true, Ordering::SeqCst);
    }
    fn wake_by_ref(self: &Arc<Self>) {
        self.0.store(true, Ordering::SeqCst);
    }
}

struct Slot<T> {
    fut: Option<Pin<Box<dyn Future<Output = T>>>>,
    flag: Arc<Flag>,
    waker: Waker,
}

impl<T: 'static> Slot<T> {
    fn new<F: Future<Output = T> + 'static>(f: F) -> Self {
        let flag = Arc::new(Flag(AtomicBool::new(true)));
        let waker = Waker::from(flag.clone());
        Slot { fut: Some(Box::pin(tokio::task::unconstrained(f))), flag, waker }
    }
    fn alive(&self) -> bool {
        self.fut.is_some()
    }
    /// Poll once if woken. Ok((polled, Some(output) if finished)); Err(panic).
    fn step(&mut self) -> Result<(bool, Option<T>), String> {
        if self.fut.is_none() || !self.flag.0.swap(false, Ordering::SeqCst) {
            return Ok((false, None));
        }
        let mut cx = Context::from_waker(&self.waker);
        let fut = self.fut.as_mut().unwrap();
        match guard(|| fut.as_mut().poll(&mut cx)) {
            Ok(Poll::Ready(v)) => {
                let f = self.fut.take();
                match guard(move || drop(f)) {
                    Ok(()) => Ok((true, Some(v))),
                    Err(p) => Err(p),
                }
            }
            Ok(Poll::Pending) => Ok((true, None)),
            Err(p) => {
                let f = self.fut.take();
                let _ = guard(move || drop(f));
                Err(p)
            }
        }
    }
    fn cancel(&mut self) -> Result<(), String> {
        let f = self.fut.take();
        guard(move || drop(f))
    }
}

// ---------------------------------------------------------------------------
// mock stream socket
// ---------------------------------------------------------------------------

#[derive(Default)]
struct StreamState {
    inbox: VecDeque<Vec<u8>>,
    eof: bool,
    read_err: bool,
    read_waker: Option<Waker>,
    written: Vec<u8>,
    parsed: usize,
    wblocked: bool,
    wreleased: bool,
    write_waker: Option<Waker>,
    werr: bool,
    shutdown: bool,
    dropped: bool,
}

#[derive(Clone, Copy, Debug)]
struct WFaults {
    enabled: bool,
    all_cuts: bool,
}

struct MockStream {
    st: Arc<Mutex<StreamState>>,
    ch: Arc<Mutex<Chooser>>,
    wf: WFaults,
}

impl Drop for MockStream {
    fn drop(&mut self) {
        self.st.lock().unwrap().dropped = true;
    }
}

fn cuts(len: usize, all: bool) -> Vec<usize> {
    // cut points 1..len-1
    if len < 2 {
        return vec![];
    }
    if all {
        (1..len).collect()
    } else {
        let mut v: Vec<usize> = [1usize, 2, 3, 13, 14, len - 1].iter().copied().filter(|k| *k >= 1 && *k < len).collect();
        v.sort();
        v.dedup();
        v
    }
}

impl AsyncRead for MockStream {
    fn poll_read(self: Pin<&mut Self>, cx: &mut Context<'_>, buf: &mut ReadBuf<'_>) -> Poll<io::Result<()>> {
        let mut st = self.st.lock().unwrap();
        if let Some(front) = st.inbox.front_mut() {
            let n = front.len().min(buf.remaining());
            buf.put_slice(&front[..n]);
            front.drain(..n);
            if front.is_empty() {
                st.inbox.pop_front();
            }
            return Poll::Ready(Ok(()));
        }
        if st.read_err {
            st.read_err = false;
            st.eof = true;
            return Poll::Ready(Err(io::Error::new(io::ErrorKind::ConnectionReset, "mock read error")));
        }
        if st.eof {
            return Poll::Ready(Ok(()));
        }
        st.read_waker = Some(cx.waker().clone());
        Poll::Pending
    }
}

impl AsyncWrite for MockStream {
    fn poll_write(self: Pin<&mut Self>, cx: &mut Context<'_>, buf: &[u8]) -> Poll<io::Result<usize>> {
        {
            let mut st = self.st.lock().unwrap();
            if st.wblocked {
                if st.wreleased {
                    st.wblocked = false;
                    st.wreleased = false;
                    st.written.extend_from_slice(buf);
                    return Poll::Ready(Ok(buf.len()));
                }
                st.write_waker = Some(cx.waker().clone());
                return Poll::Pending;
            }
            if st.werr {
                return Poll::Ready(Err(io::Error::new(io::ErrorKind::BrokenPipe, "mock write error")));
            }
        }
        let mut accept = buf.len();
        let mut pend = false;
        let mut fail = false;
        if self.wf.enabled && !buf.is_empty() {
            let cs = cuts(buf.len(), self.wf.all_cuts);
            let n = 1 + cs.len() + 2;
            let c = self.ch.lock().unwrap().choose(n, "stream-write");
            if c == 0 {
            } else if c <= cs.len() {
                accept = cs[c - 1];
            } else if c == cs.len() + 1 {
                pend = true;
            } else {
                fail = true;
            }
        }
        let mut st = self.st.lock().unwrap();
        if pend {
            st.wblocked = true;
            st.wreleased = false;
            st.write_waker = Some(cx.waker().clone());
            return Poll::Pending;
        }
        if fail {
            st.werr = true;
            return Poll::Ready(Err(io::Error::new(io::ErrorKind::BrokenPipe, "mock write error")));
        }
        st.written.extend_from_slice(&buf[..accept]);
        Poll::Ready(Ok(accept))
    }
    fn poll_flush(self: Pin<&mut Self>, _cx: &mut Context<'_>) -> Poll<io::Result<()>> {
        Poll::Ready(Ok(()))
    }
    fn poll_shutdown(self: Pin<&mut Self>, _cx: &mut Context<'_>) -> Poll<io::Result<()>> {
        self.st.lock().unwrap().shutdown = true;
        Poll::Ready(Ok(()))
    }
}

fn feed(st: &Arc<Mutex<StreamState>>, bytes: Vec<u8>) {
    let w = {
        let mut s = st.lock().unwrap();
        if !bytes.is_empty() {
            s.inbox.push_back(bytes);
        }
        s.read_waker.take()
    };
    if let Some(w) = w {
        w.wake();
    }
}
fn feed_eof(st: &Arc<Mutex<StreamState>>, err: bool) {
    let w = {
        let mut s = st.lock().unwrap();
        if err {
            s.read_err = true;
        } else {
            s.eof = true;
        }
        s.read_waker.take()
    };
    if let Some(w) = w {
        w.wake();
    }
}
/// Release a write that the mock left pending. Returns true if there was one.
fn release_write(st: &Arc<Mutex<StreamState>>) -> bool {
    let w = {
        let mut s = st.lock().unwrap();
        if !s.wblocked || s.wreleased {
            return false;
        }
        s.wreleased = true;
        s.write_waker.take()
    };
    if let Some(w) = w {
        w.wake();
    }
    true
}
fn take_frames(st: &Arc<Mutex<StreamState>>) -> Vec<Vec<u8>> {
    let mut s = st.lock().unwrap();
    let mut out = Vec::new();
    loop {
        let rest = &s.written[s.parsed..];
        if rest.len() < 2 {
            break;
        }
        let l = u16::from_be_bytes([rest[0], rest[1]]) as usize;
        if rest.len() < 2 + l {
            break;
        }
        out.push(rest[2..2 + l].to_vec());
        s.parsed += 2 + l;
    }
    out
}

// ---------------------------------------------------------------------------
// per-execution core: requests, oracle, bookkeeping
// ---------------------------------------------------------------------------

struct Global {
    ctx: Arc<Ctx>,
    thorough: bool,
    /// offer every cut point of a frame (otherwise a fixed handful)
    all_cuts: AtomicBool,
    /// offer the full reply grammar (otherwise the three classic non-answers)
    full_shapes: AtomicBool,
    /// the stray-reply pass: the menus offer the stray alphabet at every
    /// delivery point next to a reduced set of the classic deviations
    stray_mode: AtomicBool,
    stats: Stats,       // counters + samples + distinct non-trivial cases
    states: Stats,      // distinct quiescent states
    transitions: AtomicU64,
    outcomes: Stats,    // distinct per-execution outcome vectors
    verbose: bool,
    /// the 8 executions (>= 2 deviations) with the smallest case hash
    samples: Mutex<BTreeMap<u64, Value>>,
    /// largest key in `samples` once it holds 8 entries
    sample_threshold: AtomicU64,
    wd: Watchdog,
}

std::thread_local! {
    /// Counters of the executions run on this thread since the last flush
    /// (merging into the global map per execution serialises the workers).
    static LOCAL_COUNTS: std::cell::RefCell<BTreeMap<String, u64>> = const { std::cell::RefCell::new(BTreeMap::new()) };
}

fn flush_local_counts(g: &Global) {
    let m = LOCAL_COUNTS.with(|c| std::mem::take(&mut *c.borrow_mut()));
    if !m.is_empty() {
        g.stats.merge_counts(&m);
    }
}

#[derive(Clone, Debug, PartialEq, Eq)]
enum Res {
    Ok(Vec<u8>),
    Err(String),
}

struct Req {
    q: usize,
    slot: Option<Slot<RespResult>>,
    submitted: bool,
    cancelled: bool,
    result: Option<Res>,
    /// every ID the subject put on the wire for this caller
    ids: Vec<u16>,
    /// virtual time from which the timeout/retry budget runs
    start: Option<Instant>,
}

struct Delivered {
    bytes: Vec<u8>,
    udp: bool,
}

struct Core<'a> {
    g: &'a Global,
    tname: &'static str,
    cfg: Value,
    /// `cfg` serialised (used in hash keys)
    cfg_str: String,
    ch: Arc<Mutex<Chooser>>,
    current: Arc<Mutex<Option<usize>>>,
    log: Vec<String>,
    reqs: Vec<Req>,
    delivered: Vec<Delivered>,
    handed: Vec<Vec<u8>>,
    /// (caller, message) that must be the caller's Ok result at the next quiescence
    expect: Vec<(usize, Vec<u8>)>,
    counters: BTreeMap<String, u64>,
    states: Vec<u64>,
    transitions: u64,
    serial: u16,
    aborted: bool,
    budget: Option<Duration>,
    /// (caller, id of the message it was handed) when the caller's request had
    /// not yet reached the wire at completion: checked when it does
    deferred_id: Vec<(usize, u16)>,
    /// Err completions not yet examined for an environmental cause
    err_unexamined: Vec<(usize, String)>,
    /// the environment has done something that may fail any request
    excuse_all: bool,
    /// ... or this particular request
    excused: Vec<bool>,
    /// callers build their requests in the EDNS form (see build_request_edns)
    edns: bool,
    /// an additional hand-driven task (the multi-response caller)
    extra: Option<Slot<()>>,
    /// when the last complete message reached the client since this request's start
    last_traffic: Vec<Option<Instant>>,
    /// 0 = within budget, 1 = known-class lateness reported, 2 = lateness reported
    budget_stage: Vec<u8>,
    /// every stray reply produced so far: (bytes, family, description)
    stray_msgs: Vec<(Vec<u8>, &'static str, String)>,
    /// replies taken from the full stray alphabet so far in this execution
    strays_sent: usize,
    /// (caller, what arrived) a datagram that is not the answer has been
    /// delivered to this caller's socket: at the next quiescence the request
    /// must still be pending (it is neither completed nor failed by it)
    still_pending: Vec<(usize, String)>,
    /// (caller, virtual time) of every reply the transport made up itself
    /// (not a message any peer delivered) and handed to that caller; examined
    /// by the harness of the transport (run_combo)
    synth: Vec<(usize, Instant)>,
}

fn err_class(e: &Error) -> String {
    if let Error::Dgram(q) = e {
        return format!("Dgram:{:?}", q.kind());
    }
    let s = format!("{e:?}");
    s.split(|c: char| !c.is_alphanumeric()).next().unwrap_or("").to_string()
}

impl<'a> Core<'a> {
    fn new(g: &'a Global, tname: &'static str, cfg: Value, ch: Arc<Mutex<Chooser>>, plan: &[usize]) -> Self {
        Core {
            g,
            tname,
            cfg_str: cfg.to_string(),
            cfg,
            ch,
            current: Arc::new(Mutex::new(None)),
            log: Vec::new(),
            reqs: plan
                .iter()
                .map(|q| Req { q: *q, slot: None, submitted: false, cancelled: false, result: None, ids: Vec::new(), start: None })
                .collect(),
            delivered: Vec::new(),
            handed: Vec::new(),
            expect: Vec::new(),
            counters: BTreeMap::new(),
            states: Vec::new(),
            transitions: 0,
            serial: 0,
            aborted: false,
            budget: None,
            deferred_id: Vec::new(),
            err_unexamined: Vec::new(),
            excuse_all: false,
            excused: vec![false; plan.len()],
            edns: false,
            extra: None,
            last_traffic: vec![None; plan.len()],
            budget_stage: vec![0; plan.len()],
            stray_msgs: Vec::new(),
            strays_sent: 0,
            still_pending: Vec::new(),
            synth: Vec::new(),
        }
    }
    fn stray_mode(&self) -> bool {
        self.g.stray_mode.load(Ordering::Relaxed)
    }
    /// The stray replies on offer at this point of the execution: the full
    /// alphabet until one of them has been sent, then the representatives.
    fn stray_menu(&self) -> Vec<Stray> {
        if self.strays_sent == 0 {
            all_strays()
        } else {
            rep_strays()
        }
    }
    /// Build stray reply `s` and remember it.
    fn stray(&mut self, id: u16, q: usize, s: Stray, owner: usize) -> Vec<u8> {
        let sn = self.next_serial();
        let msg = mk_stray(id, q, s, owner, sn);
        self.strays_sent += 1;
        self.stray_msgs.push((msg.clone(), s.family(), s.label()));
        let k = format!("stray.sent.{}", s.family());
        self.count(&k);
        msg
    }
    fn choose(&self, n: usize, label: &'static str) -> usize {
        self.ch.lock().unwrap().choose(n, label)
    }
    fn count(&mut self, k: &str) {
        *self.counters.entry(k.to_string()).or_insert(0) += 1;
    }
    fn note(&mut self, s: String) {
        if self.g.verbose {
            println!("  {s}");
        }
        self.log.push(s);
    }
    fn next_serial(&mut self) -> u16 {
        self.serial += 1;
        self.serial
    }
    fn violate(&mut self, sig: String, what: String) {
        let choices = self.ch.lock().unwrap().choices();
        let case = json!({"transport": self.tname, "cfg": self.cfg, "choices": choices, "all_cuts": self.g.all_cuts.load(Ordering::Relaxed), "full_shapes": self.g.full_shapes.load(Ordering::Relaxed), "stray_mode": self.stray_mode(), "log": self.log});
        if self.g.verbose {
            println!("  !! {sig}: {what}");
        }
        self.g.ctx.violation(&sig, &what, case);
    }
    fn panic(&mut self, who: &str, msg: String) {
        self.aborted = true;
        self.violate(format!("C15|{}|{}|panic|{}", self.tname, who, panic_class(&msg)), format!("{who} panicked: {msg}"));
    }

    /// Safety oracle on a completed request.
    fn complete(&mut self, i: usize, r: RespResult) {
        let res = match &r {
            Ok(m) => Res::Ok(m.as_slice().to_vec()),
            Err(e) => Res::Err(err_class(e)),
        };
        let _ = guard(move || drop(r));
        if self.reqs[i].result.is_some() {
            self.violate(format!("C15|{}|completion|twice", self.tname), format!("request {i} completed twice"));
        }
        match &res {
            Res::Ok(b) => {
                self.note(format!("request {i} -> Ok({})", hex(b)));
                self.count("result.Ok");
                let n_del = self.delivered.iter().filter(|d| &d.bytes == b).count();
                self.handed.push(b.clone());
                let n_handed = self.handed.iter().filter(|h| *h == b).count();
                let owner = if b.len() > 12 { b[b.len() - 3] as usize } else { 99 };
                if owner != 99 && owner != i {
                    self.count("result.Ok.message-produced-for-another-caller(same id+question)");
                }
                // The load balancer answers with a SERVFAIL of its own making
                // when no upstream is available (all over their burst limit).
                let synthesized = self.tname == "load_balancer" && n_del == 0 && b.len() >= 12 && b[3] & 0x0F == 2;
                if synthesized {
                    self.count("lb.synthesized-servfail");
                    if b[2] & 0x80 == 0 {
                        self.violate(
                            "C15|load_balancer|synthesized-servfail|qr-clear".into(),
                            format!("request {i} was handed a locally made SERVFAIL whose QR bit is clear (it is a query, not a response): {}", hex(b)),
                        );
                    }
                } else if n_del == 0 {
                    self.violate(format!("C15|{}|ok-response|not-a-delivered-message", self.tname), format!("request {i} got a message the peer never sent: {}", hex(b)));
                } else if n_handed > n_del {
                    self.violate(format!("C15|{}|ok-response|one-message-handed-to-several-callers", self.tname), format!("message delivered {n_del}x handed to {n_handed} callers: {}", hex(b)));
                }
                let mut ids = self.reqs[i].ids.clone();
                if synthesized {
                    // A reply made up by the transport answers the request as
                    // its caller composed it: that ID (or one the transport
                    // put on the wire for this caller), never taken on trust.
                    self.synth.push((i, Instant::now()));
                    ids.push(caller_id(i));
                    if b[..2] != caller_id(i).to_be_bytes() {
                        self.count("lb.synthesized-servfail.under-a-wire-id-or-foreign-id");
                    }
                } else if ids.is_empty() && b.len() >= 2 {
                    // The subject assigned an ID but has not written the
                    // request yet (write pending): take the ID on trust now,
                    // verify it when the request reaches the wire.
                    let id = u16::from_be_bytes([b[0], b[1]]);
                    ids.push(id);
                    self.deferred_id.push((i, id));
                    self.count("ok-before-request-on-wire(id check deferred)");
                }
                let stray = self.stray_msgs.iter().find(|(m, _, _)| m == b).map(|(_, f, l)| (*f, l.clone()));
                if let Some((fam, _)) = &stray {
                    let k = format!("stray.handed-to-caller.{fam}");
                    self.count(&k);
                }
                if let Err(why) = answers_opt(b, &ids, self.reqs[i].q, !synthesized) {
                    match stray {
                        Some((fam, label)) => self.violate(
                            format!("C15|{}|stray-reply-accepted|{fam}|{why}", self.tname),
                            format!("request {i} (question {}, wire ids {:?}) was handed the stray reply [{label}] {} as its answer: {why}", self.reqs[i].q, ids, hex(b)),
                        ),
                        None if synthesized => self.violate(
                            format!("C15|{}|synthesized-reply|{}", self.tname, why),
                            format!(
                                "request {i} (question {}, composed with id {:#06x}, wire ids {:?}) was handed the reply {} that the transport made up itself (no peer sent it): {why}",
                                self.reqs[i].q,
                                caller_id(i),
                                self.reqs[i].ids,
                                hex(b)
                            ),
                        ),
                        None => self.violate(
                            format!("C15|{}|ok-response|{}", self.tname, why),
                            format!("request {i} (question {}, wire ids {:?}) was handed {} (produced for caller {owner}): {why}", self.reqs[i].q, ids, hex(b)),
                        ),
                    }
                }
                if self.tname == "dgram_stream" {
                    let udp = self.delivered.iter().any(|d| &d.bytes == b && d.udp);
                    if udp && b.len() >= 4 && b[2] & 0x02 != 0 {
                        self.violate("C15|dgram_stream|ok-response|truncated-datagram-handed-to-caller".into(), format!("request {i} got the TC datagram instead of a stream retry: {}", hex(b)));
                    }
                }
            }
            Res::Err(e) => {
                self.note(format!("request {i} -> Err({e})"));
                let k = format!("result.Err.{e}");
                self.count(&k);
                self.err_unexamined.push((i, e.clone()));
            }
        }
        self.reqs[i].result = Some(res);
    }

    /// Run transport + requests until nothing is woken.
    fn quiesce(&mut self, tr: &mut Option<Slot<()>>) {
        if self.aborted {
            return;
        }
        for _ in 0..20_000 {
            let mut any = false;
            if let Some(t) = tr.as_mut() {
                *self.current.lock().unwrap() = None;
                match t.step() {
                    Ok((p, done)) => {
                        any |= p;
                        if done.is_some() {
                            self.note("transport task finished".into());
                            self.count("transport.finished");
                        }
                    }
                    Err(pm) => {
                        self.panic("transport-task", pm);
                        return;
                    }
                }
            }
            for i in 0..self.reqs.len() {
                *self.current.lock().unwrap() = Some(i);
                let r = match self.reqs[i].slot.as_mut() {
                    Some(s) => s.step(),
                    None => continue,
                };
                match r {
                    Ok((p, out)) => {
                        any |= p;
                        if let Some(res) = out {
                            self.reqs[i].slot = None;
                            self.complete(i, res);
                        }
                    }
                    Err(pm) => {
                        self.reqs[i].slot = None;
                        self.panic("request-future", pm);
                        return;
                    }
                }
            }
            *self.current.lock().unwrap() = None;
            if let Some(x) = self.extra.as_mut() {
                match x.step() {
                    Ok((p, done)) => {
                        any |= p;
                        if done.is_some() {
                            self.extra = None;
                        }
                    }
                    Err(pm) => {
                        self.extra = None;
                        self.panic("multi-response-request-future", pm);
                        return;
                    }
                }
            }
            if !any {
                self.check_expect();
                self.check_budget();
                return;
            }
        }
        self.aborted = true;
        self.violate(format!("C15|{}|livelock", self.tname), "futures keep waking each other without the environment acting (20000 rounds)".into());
    }

    fn check_expect(&mut self) {
        for (i, what) in std::mem::take(&mut self.still_pending) {
            if self.reqs[i].cancelled {
                continue;
            }
            match self.reqs[i].result.clone() {
                None => self.count("stray-datagram.request-still-pending"),
                // an Ok is judged by complete()
                Some(Res::Ok(_)) => self.count("stray-datagram.request-completed-ok"),
                Some(Res::Err(e)) => self.violate(
                    format!("C15|{}|stray-datagram|request-failed-instead-of-listening-on|{e}", self.tname),
                    format!("request {i}: a datagram that is not its answer ({what}) arrived before the read timeout and the request failed with Err({e}) instead of waiting for the answer"),
                ),
            }
        }
        let ex = std::mem::take(&mut self.expect);
        for (i, bytes) in ex {
            if self.reqs[i].cancelled {
                continue;
            }
            match self.reqs[i].result.clone() {
                Some(Res::Ok(b)) if b == bytes => {
                    self.count("expect.met");
                }
                Some(Res::Ok(b)) => self.violate(
                    format!("C15|{}|matching-answer-delivered|completed-with-other-message", self.tname),
                    format!("request {i}: its answer {} was delivered but it completed with {}", hex(&bytes), hex(&b)),
                ),
                Some(Res::Err(e)) => self.violate(
                    format!("C15|{}|matching-answer-delivered|completed-with-error|{e}", self.tname),
                    format!("request {i}: its answer {} was delivered on a healthy connection but it completed with Err({e})", hex(&bytes)),
                ),
                None => self.violate(
                    format!("C15|{}|matching-answer-delivered|request-not-completed", self.tname),
                    format!("request {i}: its answer {} was delivered on a healthy connection but the request is still pending", hex(&bytes)),
                ),
            }
        }
    }

    /// An Err needs a cause in what the environment did (fault, close,
    /// non-matching message under the request's ID, elapsed time). Called by
    /// the harness after it has updated the excuse flags.
    fn check_spurious(&mut self) {
        for (i, e) in std::mem::take(&mut self.err_unexamined) {
            if self.excuse_all || self.excused[i] {
                self.count("err.has-environmental-cause");
            } else {
                self.violate(
                    format!("C15|{}|spurious-error|{e}", self.tname),
                    format!("request {i} completed with Err({e}) although the peer, the sockets and the clock gave no cause"),
                );
            }
        }
    }

    fn check_budget(&mut self) {
        let Some(b) = self.budget else { return };
        let now = Instant::now();
        for i in 0..self.reqs.len() {
            let r = &self.reqs[i];
            let (Some(s), None, false) = (r.start, &r.result, r.cancelled) else { continue };
            if now.duration_since(s) < b || r.slot.is_none() {
                continue;
            }
            let el = now.duration_since(s);
            if self.tname != "stream" {
                if self.budget_stage[i] == 0 {
                    self.budget_stage[i] = 2;
                    self.violate(
                        format!("C15|{}|budget|request-pending-after-timeout-and-retry-budget", self.tname),
                        format!("request {i} still pending {el:?} after its start; budget {b:?}"),
                    );
                }
                continue;
            }
            // stream: messages that arrived LATER than the request's start
            // restart the connection-wide timer (known finding); apart from
            // that the request must be gone once the connection has been
            // silent for the response timeout.
            let later = self.last_traffic[i].filter(|t| *t > s);
            let (stage, sig, why): (u8, String, String) = match (self.last_traffic[i], later) {
                (None, _) => {
                    if self.cfg["response_timeout_ms"].as_u64() != Some(ST_RT_MS) {
                        (2, "C15|stream|budget|request-pending-after-response-timeout|no-traffic|configured-timeout-differs-from-default".into(), " (nothing arrived on the connection; Config::set_response_timeout was called with a non-default value)".into())
                    } else {
                        (2, "C15|stream|budget|request-pending-after-response-timeout|no-traffic".into(), " (nothing arrived on the connection)".into())
                    }
                }
                (Some(t), Some(_)) if now.duration_since(t) < b => (
                    1,
                    "C15|stream|budget|request-pending-after-response-timeout|timer-restarted-by-another-message".into(),
                    " (another message arrived on the connection after the request started)".into(),
                ),
                (Some(t), _) => (
                    2,
                    "C15|stream|budget|request-pending-after-response-timeout|connection-silent-for-response-timeout".into(),
                    format!(" (and the last message on the connection arrived {:?} ago)", now.duration_since(t)),
                ),
            };
            if stage > self.budget_stage[i] {
                self.budget_stage[i] = stage;
                self.violate(sig, format!("request {i} still pending {el:?} after its start; budget {b:?}{why}"));
            }
        }
    }

    /// The request bytes the subject wrote for an EDNS-form request.
    fn check_wire_request(&mut self, bytes: &[u8], want_size: u16) {
        if !self.edns {
            return;
        }
        match check_edns_request(bytes, want_size) {
            Ok(()) => self.count("edns-request-on-wire.ok"),
            Err(why) => {
                let class: String = why.chars().take_while(|c| *c != ':').collect();
                self.violate(format!("C15|{}|request-on-wire|{class}", self.tname), format!("request written as {}: {why}", hex(bytes)));
            }
        }
    }

    /// The subject put a request of caller `i` with `id` on the wire.
    fn learn_id(&mut self, i: usize, id: u16) {
        self.reqs[i].ids.push(id);
        let d = std::mem::take(&mut self.deferred_id);
        for (c, got) in d {
            if c != i {
                self.deferred_id.push((c, got));
            } else if got != id {
                self.violate(
                    format!("C15|{}|ok-response|id-mismatch", self.tname),
                    format!("request {i} was handed a message with id {got} before its request was written; the request then went out with id {id}"),
                );
            } else {
                self.count("deferred-id-check.ok");
            }
        }
    }

    fn submit<S: SendRequest<Rq>>(&mut self, conn: &S, i: usize) {
        let q = self.reqs[i].q;
        let msg = if self.edns { build_request_edns(i, q) } else { build_request(i, q) };
        match guard(|| conn.send_request(msg)) {
            Ok(r) => {
                let fut = async move {
                    let mut r = r;
                    r.get_response().await
                };
                self.reqs[i].slot = Some(Slot::new(fut));
                self.reqs[i].submitted = true;
                self.note(format!("submit request {i} (question {q})"));
            }
            Err(pm) => self.panic("send_request", pm),
        }
    }

    fn cancel(&mut self, i: usize) {
        self.note(format!("cancel (drop) request {i}"));
        self.count("action.cancel");
        self.reqs[i].cancelled = true;
        if let Some(mut s) = self.reqs[i].slot.take() {
            if let Err(pm) = s.cancel() {
                self.panic("request-drop", pm);
            }
        }
    }

    fn pending(&self, i: usize) -> bool {
        let r = &self.reqs[i];
        r.submitted && !r.cancelled && r.result.is_none()
    }

    fn req_status(&self) -> String {
        self.reqs
            .iter()
            .map(|r| {
                if !r.submitted {
                    "u".to_string()
                } else if r.cancelled {
                    "c".to_string()
                } else {
                    match &r.result {
                        None => "p".to_string(),
                        Some(Res::Ok(b)) => format!("ok{}", if b.len() > 12 { b[b.len() - 3] } else { 255 }),
                        Some(Res::Err(e)) => format!("e:{e}"),
                    }
                }
            })
            .collect::<Vec<_>>()
            .join(",")
    }

    fn state(&mut self, extra: &str) {
        let s = format!("{}|{}|{}|{}", self.tname, self.cfg_str, self.req_status(), extra);
        self.states.push(fnv(s.as_bytes()));
    }

    /// End of execution: exactly-once completion, bookkeeping.
    fn finish(&mut self) {
        if !self.deferred_id.is_empty() {
            self.count("deferred-id-check.request-never-reached-the-wire");
        }
        if !self.aborted {
            for i in 0..self.reqs.len() {
                if self.pending(i) {
                    self.violate(
                        format!("C15|{}|completion|request-never-completes", self.tname),
                        format!("request {i} is still pending after the peer closed / all timers of the budget fired"),
                    );
                }
            }
        }
        let g = self.g;
        g.stats.eval();
        g.transitions.fetch_add(self.transitions, Ordering::Relaxed);
        g.states.distinct_many(self.states.iter().copied());
        let ch = self.ch.lock().unwrap();
        let dev = ch.deviations();
        let outcome = format!("{}|{}|{}", self.tname, self.cfg_str, self.req_status());
        g.outcomes.distinct(fnv(outcome.as_bytes()));
        if dev > 0 {
            g.stats.distinct(fnv(format!("{}|{}|{}|{}|{}|{:?}", self.tname, self.cfg_str, g.all_cuts.load(Ordering::Relaxed), g.full_shapes.load(Ordering::Relaxed), g.stray_mode.load(Ordering::Relaxed), ch.choices()).as_bytes()));
        }
        self.counters.insert(format!("{}.executions", self.tname), 1);
        *self.counters.entry(format!("{}.deviations.{dev}", self.tname)).or_insert(0) += 1;
        LOCAL_COUNTS.with(|c| {
            let mut c = c.borrow_mut();
            for (k, v) in &self.counters {
                match c.get_mut(k) {
                    Some(x) => *x += *v,
                    None => {
                        c.insert(k.clone(), *v);
                    }
                }
            }
        });
        if dev >= 2 {
            let key = fnv(format!("{}|{}|{:?}|{}|{}|{}", self.tname, self.cfg_str, ch.choices(), g.all_cuts.load(Ordering::Relaxed), g.full_shapes.load(Ordering::Relaxed), g.stray_mode.load(Ordering::Relaxed)).as_bytes());
            // (the threshold keeps the global lock off the common path)
            if key < g.sample_threshold.load(Ordering::Relaxed) {
            let mut sm = g.samples.lock().unwrap();
            if sm.len() < 8 || sm.keys().next_back().map(|k| key < *k).unwrap_or(true) {
                // logs of the datagram transports contain the random request IDs: leave them out
                let log = if self.tname == "stream" || self.tname == "multi_stream" { json!(self.log) } else { json!("(omitted: contains random IDs; use --replay)") };
                sm.insert(key, json!({"transport": self.tname, "cfg": self.cfg, "choices": ch.describe(), "log": log, "outcome": self.req_status()}));
                while sm.len() > 8 {
                    let last = *sm.keys().next_back().unwrap();
                    sm.remove(&last);
                }
                if sm.len() == 8 {
                    g.sample_threshold.store(*sm.keys().next_back().unwrap(), Ordering::Relaxed);
                }
            }
            }
        }
    }
}

// ---------------------------------------------------------------------------
// stream harness
// ---------------------------------------------------------------------------

#[derive(Clone, Debug)]
struct StreamCfg {
    plan: Vec<usize>,
    /// idle timeout in ms (0 = close as soon as idle)
    idle_ms: u64,
    /// response timeout in ms
    rt_ms: u64,
    /// the peer does not answer by default: time passes instead
    silent: bool,
    /// by default, this much time passes between the first wave having been
    /// answered completely and the second wave (0 = no gap, second wave starts
    /// when at most one request is open)
    gap_ms: u64,
    /// by default this caller is never answered
    never_answer: Option<usize>,
    /// requests carry EDNS data set through the ComposeRequest interface
    edns: bool,
    /// size of the first wave of submissions; the rest is submitted (by
    /// default) once at most one request is still open at the peer
    wave1: usize,
}
impl StreamCfg {
    fn json(&self) -> Value {
        json!({"plan": self.plan, "idle_timeout_ms": self.idle_ms, "response_timeout_ms": self.rt_ms, "peer_silent_by_default": self.silent, "first_wave": self.wave1, "gap_before_second_wave_ms": self.gap_ms, "never_answered_by_default": self.never_answer, "edns_requests": self.edns})
    }
}

#[derive(Clone, Debug)]
struct Entry {
    conn: usize,
    req: usize,
    id: u16,
    q: usize,
    open: bool,
}

#[derive(Clone, Debug)]
enum SAct {
    Submit,
    Deliver(usize, RKind),    // entry index
    /// entry index, reply shape under the entry's ID
    Shaped(usize, Shape),
    /// entry index (content), other ID, shape
    ShapedWrongId(usize, u16, Shape),
    /// closed entry: late / re-sent ERROR reply (given rcode) with its ID and question
    StaleErr(usize, u8),
    WrongId(usize, u16),      // content of entry, other ID
    Stale(usize),             // closed entry: re-sent / late answer with its ID
    /// open entry: a stray reply under its ID (before the genuine answer)
    Stray(usize, Stray),
    /// closed entry: a stray reply under its ID (after the genuine answer; the
    /// slot is free or has been recycled for another request)
    StaleStray(usize, Stray),
    Short(usize),             // frame of this many octets (<12)
    Split(usize, usize),      // oldest open entry's answer, first k octets now, rest later
    Split2(usize, usize, usize), // two answers back to back, cut at k
    Eof,
    ReadErr,
    Cancel(usize),
    /// virtual time advances by this many ms
    Tick(u64),
    Finish,
}

/// Everything the mock peer knows about one stream connection.
struct PeerConn {
    st: Arc<Mutex<StreamState>>,
    fatal: bool,
    tail: Option<(Vec<u8>, Vec<Vec<u8>>)>, // bytes still to send, frames completed by them
}

/// A complete frame reaches the client: account for it, close the entry with
/// that ID, and set the expectation if it is that entry's matching answer.
fn account_frame(core: &mut Core, entries: &mut [Entry], conn: usize, healthy: bool, msg: &[u8], udp: bool) {
    core.delivered.push(Delivered { bytes: msg.to_vec(), udp });
    if msg.len() < 12 {
        return;
    }
    for i in 0..core.reqs.len() {
        if core.pending(i) {
            core.last_traffic[i] = Some(Instant::now());
        }
    }
    let id = u16::from_be_bytes([msg[0], msg[1]]);
    if let Some(e) = entries.iter_mut().find(|e| e.open && e.conn == conn && e.id == id) {
        e.open = false;
        let r = e.req;
        if answers(msg, &[id], e.q).is_err() || neutral(msg) {
            core.excused[r] = true; // a non-answer under its ID (or one the oracle leaves open)
        } else if healthy && core.pending(r) {
            core.expect.push((r, msg.to_vec()));
        }
    } else {
        // unsolicited message: a transport may treat the connection as broken
        core.excuse_all = true;
    }
}


/// Every limit the harness configures lies inside the documented range of that limit (dgram:
/// read timeout 1 ms..=60 s, retries 0..=100, parallel 1..=1000; stream: response 1 ms..=10 min,
/// idle 0..=1 h). A configuration that reports another value than the one set would make the
/// transport answer or fail by a budget the caller did not configure: the time budgets of the
/// property are stated relative to the CONFIGURED timeouts. Reported as a violation at once.
fn config_kept(ctx: &Arc<Ctx>, transport: &str, field: &str, want: String, got: String) {
    if want != got {
        ctx.violation(
            &format!("C15|{transport}|config|setter-does-not-keep-an-in-range-value|{field}"),
            &format!("{transport}::Config: {field} set to {want} (inside the documented range) reads back as {got}"),
            json!({"part": "config", "transport": transport, "field": field, "set": want, "read_back": got}),
        );
        ctx.finish_quiet()
    }
}

async fn run_stream(g: &Global, cfg: &StreamCfg, ch: Arc<Mutex<Chooser>>) {
    let mut core = Core::new(g, "stream", cfg.json(), ch.clone(), &cfg.plan);
    core.edns = cfg.edns;
    let st = Arc::new(Mutex::new(StreamState::default()));
    let stray_mode = core.stray_mode();
    let mock = MockStream { st: st.clone(), ch: ch.clone(), wf: WFaults { enabled: !stray_mode, all_cuts: g.all_cuts.load(Ordering::Relaxed) } };
    let mut sc = stream::Config::new();
    let rt = Duration::from_millis(cfg.rt_ms);
    let idle = Duration::from_millis(cfg.idle_ms);
    sc.set_idle_timeout(idle);
    sc.set_response_timeout(rt);
    if sc.idle_timeout() != idle || sc.response_timeout() != rt {
        // Every timeout the harness configures lies inside the documented range of its limit
        // (it is a machinery error of the harness if not: checked against the documented ranges
        // here, stream idle 1 ms..=1 h with 0 = unset allowed, response 1 ms..=10 min). A setter
        // that does not keep such a value makes every time budget of the property meaningless
        // (the transport answers or fails by a budget the caller did not configure).
        let in_range = rt >= Duration::from_millis(1) && rt <= Duration::from_secs(600) && idle <= Duration::from_secs(3600);
        if !in_range {
            eprintln!("MACHINERY: the harness configured a stream timeout outside the documented range ({idle:?}, {rt:?})");
            std::process::exit(2);
        }
        g.ctx.violation(
            "C15|stream|config|setter-does-not-keep-an-in-range-timeout",
            &format!("stream::Config: set_idle_timeout({idle:?}) / set_response_timeout({rt:?}) read back as {:?} / {:?}; both values are inside the documented ranges", sc.idle_timeout(), sc.response_timeout()),
            json!({"part": "config", "transport": "stream", "idle_ms": cfg.idle_ms, "rt_ms": cfg.rt_ms}),
        );
        g.ctx.finish_quiet()
    }
    // Budget of a stream request: response_timeout from its submission, plus
    // 1 ms: tokio timers have 1 ms resolution and the transport's test is the
    // strict `elapsed > response_timeout`, so expiry is first observable at
    // the first clock value above the deadline, which the harness reaches
    // with its "+1 ms" steps.
    core.budget = Some(rt + Duration::from_millis(1));
    let t_begin = Instant::now();
    let mut gap_done = false;
    let (conn, transport) = stream::Connection::<Rq, RqM>::with_config(mock, sc);
    let mut conn = Some(conn);
    let mut tr = Some(Slot::new(transport.run()));
    let mut peer = PeerConn { st: st.clone(), fatal: false, tail: None };
    let mut entries: Vec<Entry> = Vec::new();
    let all = g.all_cuts.load(Ordering::Relaxed);
    let full = g.full_shapes.load(Ordering::Relaxed);

    for _step in 0..64 {
        core.quiesce(&mut tr);
        if core.aborted {
            break;
        }
        // learn the requests written so far
        for f in take_frames(&st) {
            let (idx, id, q) = parse_request(&f, "stream");
            if idx >= core.reqs.len() || core.reqs[idx].q != q {
                eprintln!("MACHINERY: stream: frame does not belong to any caller");
                std::process::exit(2);
            }
            core.learn_id(idx, id);
            core.check_wire_request(&f, 1400);
            entries.push(Entry { conn: 0, req: idx, id, q, open: !peer.fatal });
            core.note(format!("peer sees request of caller {idx} with id {id}"));
        }
        let tr_alive = tr.as_ref().map(|t| t.alive()).unwrap_or(false);
        if !tr_alive {
            for e in entries.iter_mut() {
                e.open = false;
            }
        }
        let healthy = !peer.fatal && tr_alive;
        if !healthy || st.lock().unwrap().werr {
            core.excuse_all = true;
        }
        // no timeout of the transport can have fired before this much time has passed
        let earliest_timeout = if cfg.idle_ms == 0 { rt } else { rt.min(idle) };
        if Instant::now().duration_since(t_begin) >= earliest_timeout {
            core.excuse_all = true;
        }
        core.check_spurious();
        {
            let s = st.lock().unwrap();
            let ex = format!(
                "{:?}|f{}|a{}|wb{}|sd{}|t{}",
                entries.iter().map(|e| (e.req, e.id, e.open)).collect::<Vec<_>>(),
                peer.fatal,
                tr_alive,
                s.wblocked,
                s.shutdown,
                peer.tail.is_some()
            );
            drop(s);
            core.state(&ex);
        }

        // ---- menu
        let open: Vec<usize> = (0..entries.len()).filter(|i| entries[*i].open).collect();
        let next_unsub = (0..core.reqs.len()).find(|i| !core.reqs[*i].submitted);
        let mut menu: Vec<SAct> = Vec::new();
        let at_wave_boundary = next_unsub == Some(cfg.wave1) && healthy;
        let keep_open = if cfg.gap_ms > 0 { 0 } else { 1 };
        let gap_now = at_wave_boundary && cfg.gap_ms > 0 && open.is_empty() && !gap_done;
        let submit_now = match next_unsub {
            Some(_) => !(at_wave_boundary && (open.len() > keep_open || gap_now)),
            None => false,
        };
        let answerable: Vec<usize> = open.iter().copied().filter(|e| Some(entries[*e].req) != cfg.never_answer).collect();
        let silent_now = (cfg.silent || answerable.is_empty()) && next_unsub.is_none() && healthy && !open.is_empty();
        let deliver_default = !submit_now && !gap_now && !silent_now && healthy && !answerable.is_empty();
        let default_target = answerable.first().copied();
        let default_tick: Option<u64> = if gap_now {
            Some(cfg.gap_ms)
        } else if silent_now {
            // first just past the configured timeout, then (if the request is
            // still there) in steps just longer than the library default; step
            // lengths are fixed so that no sum of steps equals the default
            let el = Instant::now().duration_since(t_begin).as_millis() as u64;
            if el < cfg.rt_ms + 1 {
                Some(cfg.rt_ms + 1)
            } else {
                Some(ST_RT_MS + 1)
            }
        } else {
            None
        };
        if submit_now {
            menu.push(SAct::Submit);
        } else if let Some(d) = default_tick {
            menu.push(SAct::Tick(d));
        } else if deliver_default {
            menu.push(SAct::Deliver(default_target.unwrap(), RKind::Answer));
        } else {
            menu.push(SAct::Finish);
        }
        if next_unsub.is_some() && !submit_now {
            menu.push(SAct::Submit);
        }
        if healthy && stray_mode {
            // The stray-reply pass: reordering, the legitimate header-only
            // error, EOF, time and cancellation stay; every stray reply is
            // offered under the ID of every open request (before its genuine
            // answer; three or more callers: the oldest open one) and under
            // the ID of the most recently closed ones (after their genuine
            // answer: the slot is free, or already recycled for a later
            // request, which it then meets).
            for &e in &open {
                if !(deliver_default && Some(e) == default_target) {
                    menu.push(SAct::Deliver(e, RKind::Answer));
                }
            }
            let strays = core.stray_menu();
            let offered_for = |e: usize| cfg.plan.len() <= 2 || e == open[0];
            for &e in &open {
                menu.push(SAct::Deliver(e, RKind::HdrErr));
                if offered_for(e) {
                    for s in &strays {
                        menu.push(SAct::Stray(e, *s));
                    }
                }
            }
            let n_closed = if cfg.plan.len() <= 2 { 2 } else { 1 };
            let closed: Vec<usize> = (0..entries.len()).rev().filter(|i| !entries[*i].open).take(n_closed).collect();
            for c in closed {
                // same ID and same question as an open request that gets the strays anyway
                if open.iter().any(|o| entries[*o].id == entries[c].id && entries[*o].q == entries[c].q && offered_for(*o)) {
                    continue;
                }
                for s in &strays {
                    menu.push(SAct::StaleStray(c, *s));
                }
            }
            menu.push(SAct::Eof);
            let mut ds: Vec<u64> = vec![cfg.rt_ms - 1, cfg.rt_ms + 1];
            if cfg.idle_ms > 1 {
                ds.extend_from_slice(&[cfg.idle_ms - 1, cfg.idle_ms + 1]);
            }
            ds.sort();
            ds.dedup();
            for d in ds {
                if default_tick != Some(d) && d != TICK_SKIP && d != cfg.rt_ms {
                    menu.push(SAct::Tick(d));
                }
            }
        } else if healthy {
            for &e in &open {
                if !(deliver_default && Some(e) == default_target) {
                    menu.push(SAct::Deliver(e, RKind::Answer));
                }
            }
            for &e in &open {
                menu.push(SAct::Deliver(e, RKind::Qr0));
                // answers that carry an edns-tcp-keepalive option: idle timeout 0 and 2 s
                if cfg.plan.len() <= 2 {
                    menu.push(SAct::Deliver(e, RKind::AnswerKeepalive(0)));
                    menu.push(SAct::Deliver(e, RKind::AnswerKeepalive(20)));
                }
                // the reply grammar: for every open request with up to two
                // callers, for the oldest open request with three, and only
                // the three classic shapes in the six-caller slot-recycling case
                let offered = if full && (cfg.plan.len() <= 2 || (cfg.plan.len() == 3 && e == open[0])) { all_shapes() } else { classic_shapes() };
                for shp in offered {
                    menu.push(SAct::Shaped(e, shp));
                }
            }
            // wrong IDs: other open IDs, the most recently closed free ID, a never used ID
            let open_ids: Vec<u16> = open.iter().map(|e| entries[*e].id).collect();
            let freed: Option<u16> = entries.iter().rev().find(|e| !e.open && !open_ids.contains(&e.id)).map(|e| e.id);
            for &e in &open {
                let mut targets: Vec<u16> = open_ids.iter().copied().filter(|t| *t != entries[e].id).collect();
                if let Some(f) = freed {
                    targets.push(f);
                }
                targets.push(9);
                targets.sort();
                targets.dedup();
                for t in targets {
                    menu.push(SAct::WrongId(e, t));
                }
            }
            // error replies under an ID nobody (or somebody else) is waiting on
            if let Some(&e0) = open.first().filter(|_| full && cfg.plan.len() <= 3) {
                let mut targets: Vec<u16> = open_ids.iter().copied().filter(|t| *t != entries[e0].id).collect();
                if let Some(f) = freed {
                    targets.push(f);
                }
                targets.push(9);
                targets.sort();
                targets.dedup();
                for t in targets {
                    for shp in wrong_id_shapes() {
                        if shp.rcode != 0 {
                            menu.push(SAct::ShapedWrongId(e0, t, shp));
                        }
                    }
                }
            }
            // late / re-sent answers and error replies for the two most recently closed entries
            let closed: Vec<usize> = (0..entries.len()).rev().filter(|i| !entries[*i].open).take(2).collect();
            for c in closed {
                menu.push(SAct::Stale(c));
                for rc in RCODES {
                    if rc == 3 || (full && rc != 0) {
                        menu.push(SAct::StaleErr(c, rc));
                    }
                }
            }
            menu.push(SAct::Short(0));
            menu.push(SAct::Short(11));
            if peer.tail.is_none() {
                if let Some(&e0) = open.first() {
                    let l = 2 + mk_resp(0, entries[e0].q, RKind::Answer, 0, 0).len();
                    for k in cuts(l, all) {
                        menu.push(SAct::Split(e0, k));
                    }
                    if open.len() >= 2 {
                        let l2 = 2 + mk_resp(0, entries[open[1]].q, RKind::Answer, 0, 0).len();
                        for k in cuts(l2, all) {
                            menu.push(SAct::Split2(e0, open[1], l + k));
                        }
                    }
                }
            }
            menu.push(SAct::Eof);
            menu.push(SAct::ReadErr);
            // time passes: to just below / exactly / just above either timeout
            let mut ds: Vec<u64> = vec![cfg.rt_ms - 1, cfg.rt_ms, cfg.rt_ms + 1];
            if cfg.idle_ms > 1 {
                ds.extend_from_slice(&[cfg.idle_ms - 1, cfg.idle_ms, cfg.idle_ms + 1]);
            }
            ds.sort();
            ds.dedup();
            for d in ds {
                if default_tick != Some(d) && d != TICK_SKIP && d != cfg.rt_ms {
                    menu.push(SAct::Tick(d));
                }
            }
        }
        for i in 0..core.reqs.len() {
            if core.pending(i) {
                menu.push(SAct::Cancel(i));
            }
        }
        let c = core.choose(menu.len(), "stream-step");
        let act = menu[c].clone();
        core.transitions += 1;
        // a write left pending by the mock stays pending during this action
        let was_blocked = st.lock().unwrap().wblocked;

        // bytes of a split frame still in flight go out first (stream order)
        let flush_tail = |core: &mut Core, peer: &mut PeerConn, entries: &mut Vec<Entry>, healthy: bool| {
            if let Some((bytes, frames)) = peer.tail.take() {
                core.note(format!("peer sends the rest of the split frame ({} octets)", bytes.len()));
                feed(&peer.st, bytes);
                for f in frames {
                    account_frame(core, entries, 0, healthy, &f, false);
                }
            }
        };

        match act {
            SAct::Submit => {
                let i = next_unsub.unwrap();
                core.count("action.submit");
                core.reqs[i].start = Some(Instant::now());
                if let Some(c) = conn.as_ref() {
                    core.submit(c, i);
                }
            }
            SAct::Deliver(e, kind) => {
                flush_tail(&mut core, &mut peer, &mut entries, healthy);
                let en = entries[e].clone();
                let s = core.next_serial();
                let msg = mk_resp(en.id, en.q, kind, en.req, s);
                core.note(format!("peer answers caller {} id {} with {kind:?}", en.req, en.id));
                core.count(&format!("action.deliver.{kind:?}"));
                feed(&st, framed(&msg));
                account_frame(&mut core, &mut entries, 0, healthy, &msg, false);
            }
            SAct::Shaped(e, shp) => {
                flush_tail(&mut core, &mut peer, &mut entries, healthy);
                let en = entries[e].clone();
                let sn = core.next_serial();
                let msg = mk_shape(en.id, en.q, shp, en.req, sn);
                core.note(format!("peer answers caller {} id {} with rcode {} question {:?} tc {}", en.req, en.id, shp.rcode, shp.qsel, shp.tc));
                core.count(&format!("action.deliver.shape.rcode{}.{:?}.tc{}", shp.rcode, shp.qsel, shp.tc as u8));
                feed(&st, framed(&msg));
                account_frame(&mut core, &mut entries, 0, healthy, &msg, false);
            }
            SAct::ShapedWrongId(e, t, shp) => {
                flush_tail(&mut core, &mut peer, &mut entries, healthy);
                let en = entries[e].clone();
                let sn = core.next_serial();
                let msg = mk_shape(t, en.q, shp, en.req, sn);
                core.note(format!("peer sends rcode {} question {:?} for caller {} under id {t} (its id is {})", shp.rcode, shp.qsel, en.req, en.id));
                core.count("action.deliver.ShapedWrongId");
                feed(&st, framed(&msg));
                account_frame(&mut core, &mut entries, 0, healthy, &msg, false);
            }
            SAct::StaleErr(e, rc) => {
                flush_tail(&mut core, &mut peer, &mut entries, healthy);
                let en = entries[e].clone();
                let sn = core.next_serial();
                let msg = mk_shape(en.id, en.q, Shape { rcode: rc, qsel: QSel::Same, tc: false }, en.req, sn);
                core.note(format!("peer re-sends / sends late an error reply (rcode {rc}) for closed caller {} id {}", en.req, en.id));
                core.count("action.deliver.StaleErr");
                feed(&st, framed(&msg));
                account_frame(&mut core, &mut entries, 0, healthy, &msg, false);
            }
            SAct::WrongId(e, t) => {
                flush_tail(&mut core, &mut peer, &mut entries, healthy);
                let en = entries[e].clone();
                let s = core.next_serial();
                let msg = mk_resp(t, en.q, RKind::Answer, en.req, s);
                core.note(format!("peer sends caller {}'s answer under id {t} (its id is {})", en.req, en.id));
                core.count("action.deliver.WrongId");
                feed(&st, framed(&msg));
                account_frame(&mut core, &mut entries, 0, healthy, &msg, false);
            }
            SAct::Stale(e) => {
                flush_tail(&mut core, &mut peer, &mut entries, healthy);
                let en = entries[e].clone();
                let s = core.next_serial();
                let msg = mk_resp(en.id, en.q, RKind::Answer, en.req, s);
                core.note(format!("peer re-sends / sends late an answer for closed caller {} id {}", en.req, en.id));
                core.count("action.deliver.Stale");
                feed(&st, framed(&msg));
                account_frame(&mut core, &mut entries, 0, healthy, &msg, false);
            }
            SAct::Stray(e, sy) | SAct::StaleStray(e, sy) => {
                flush_tail(&mut core, &mut peer, &mut entries, healthy);
                let en = entries[e].clone();
                let msg = core.stray(en.id, en.q, sy, en.req);
                let stale = matches!(act, SAct::StaleStray(..));
                core.note(format!("peer sends under id {} ({} caller {}) the stray reply [{}]", en.id, if stale { "already answered" } else { "open request of" }, en.req, sy.label()));
                core.count(if stale { "action.deliver.stray.after-the-answer" } else { "action.deliver.stray.before-the-answer" });
                if stale && entries.iter().any(|o| o.open && o.id == en.id) {
                    core.count("action.deliver.stray.meets-recycled-slot");
                }
                feed(&st, framed(&msg));
                account_frame(&mut core, &mut entries, 0, healthy, &msg, false);
            }
            SAct::Short(l) => {
                flush_tail(&mut core, &mut peer, &mut entries, healthy);
                let msg = vec![0xEEu8; l];
                core.note(format!("peer sends a frame of {l} octets"));
                core.count("action.deliver.Short");
                feed(&st, framed(&msg));
                peer.fatal = true;
                for e in entries.iter_mut() {
                    e.open = false;
                }
            }
            SAct::Split(e, k) => {
                let en = entries[e].clone();
                let s = core.next_serial();
                let msg = mk_resp(en.id, en.q, RKind::Answer, en.req, s);
                let fr = framed(&msg);
                core.note(format!("peer answers caller {} id {} but only the first {k} of {} octets arrive now", en.req, en.id, fr.len()));
                core.count("action.deliver.Split");
                feed(&st, fr[..k].to_vec());
                peer.tail = Some((fr[k..].to_vec(), vec![msg]));
            }
            SAct::Split2(e1, e2, k) => {
                let (a, b) = (entries[e1].clone(), entries[e2].clone());
                let s1 = core.next_serial();
                let s2 = core.next_serial();
                let m1 = mk_resp(a.id, a.q, RKind::Answer, a.req, s1);
                let m2 = mk_resp(b.id, b.q, RKind::Answer, b.req, s2);
                let mut fr = framed(&m1);
                fr.extend_from_slice(&framed(&m2));
                core.note(format!("peer answers callers {} and {} back to back, cut at octet {k} of {}", a.req, b.req, fr.len()));
                core.count("action.deliver.Split2");
                feed(&st, fr[..k].to_vec());
                account_frame(&mut core, &mut entries, 0, healthy, &m1, false);
                peer.tail = Some((fr[k..].to_vec(), vec![m2]));
            }
            SAct::Eof | SAct::ReadErr => {
                let err = matches!(act, SAct::ReadErr);
                if peer.tail.take().is_some() {
                    core.note("the rest of the split frame is lost".into());
                    core.count("action.eof-mid-frame");
                }
                core.note(if err { "peer: read error".into() } else { "peer closes (EOF)".into() });
                core.count(if err { "action.read-error" } else { "action.eof" });
                feed_eof(&st, err);
                peer.fatal = true;
                for e in entries.iter_mut() {
                    e.open = false;
                }
            }
            SAct::Cancel(i) => core.cancel(i),
            SAct::Tick(d) => {
                if gap_now {
                    gap_done = true;
                }
                core.count("action.tick");
                core.note(format!("virtual time advances by {d} ms (now +{} ms)", Instant::now().duration_since(t_begin).as_millis() as u64 + d));
                tokio::time::advance(Duration::from_millis(d)).await;
            }
            SAct::Finish => {
                flush_tail(&mut core, &mut peer, &mut entries, healthy);
                core.quiesce(&mut tr);
                if release_write(&st) {
                    core.quiesce(&mut tr);
                }
                let c = conn.take();
                let _ = guard(move || drop(c));
                core.note("all connection handles dropped".into());
                core.excuse_all = true;
                // wake the transport: dropping the last sender wakes the receiver
                core.quiesce(&mut tr);
                for f in take_frames(&st) {
                    let (idx, id, _) = parse_request(&f, "stream");
                    core.learn_id(idx, id);
                }
                if (0..core.reqs.len()).any(|i| core.pending(i)) {
                    core.note("peer closes (EOF) to end the run".into());
                    feed_eof(&st, false);
                    peer.fatal = true;
                    core.quiesce(&mut tr);
                }
                if tr.as_ref().map(|t| t.alive()).unwrap_or(false) {
                    core.count("stream.transport-still-running-at-end");
                }
                break;
            }
        }
        core.quiesce(&mut tr);
        // a write the mock left pending before this action is released after it
        if was_blocked && release_write(&st) {
            core.note("mock accepts the pending write".into());
            core.count("action.write-released");
        }
    }
    core.finish();
    let t = tr.take();
    let _ = guard(move || drop(t));
}


// ---------------------------------------------------------------------------
// mock datagram sockets
// ---------------------------------------------------------------------------

struct DgSock {
    owner: usize,
    sent: Vec<Vec<u8>>,
    inbox: VecDeque<Result<Vec<u8>, ()>>,
    waker: Option<Waker>,
    dropped: bool,
    in_recv: bool,
    sent_at: Option<Instant>,
}

#[derive(Default)]
struct DgShared {
    socks: Vec<DgSock>,
    connects: u32,
    /// callers that met a connect/send fault
    faulted: Vec<usize>,
}

#[derive(Clone)]
struct DgConnect {
    sh: Arc<Mutex<DgShared>>,
    ch: Arc<Mutex<Chooser>>,
    current: Arc<Mutex<Option<usize>>>,
    faults: bool,
}
impl std::fmt::Debug for DgConnect {
    fn fmt(&self, f: &mut std::fmt::Formatter<'_>) -> std::fmt::Result {
        f.write_str("DgConnect")
    }
}

struct DgConn {
    sh: Arc<Mutex<DgShared>>,
    ch: Arc<Mutex<Chooser>>,
    idx: usize,
    faults: bool,
}
impl Drop for DgConn {
    fn drop(&mut self) {
        self.sh.lock().unwrap().socks[self.idx].dropped = true;
    }
}

impl AsyncConnect for DgConnect {
    type Connection = DgConn;
    type Fut = Pin<Box<dyn Future<Output = Result<DgConn, io::Error>> + Send + Sync>>;
    fn connect(&self) -> Self::Fut {
        let owner = self.current.lock().unwrap().unwrap_or(usize::MAX);
        if owner == usize::MAX {
            eprintln!("MACHINERY: dgram connect() outside a request poll");
            std::process::exit(2);
        }
        let fail = self.faults && self.ch.lock().unwrap().choose(2, "dgram-connect") == 1;
        let mut sh = self.sh.lock().unwrap();
        sh.connects += 1;
        if fail {
            sh.faulted.push(owner);
            return Box::pin(std::future::ready(Err(io::Error::new(io::ErrorKind::AddrInUse, "mock connect error"))));
        }
        let idx = sh.socks.len();
        sh.socks.push(DgSock { owner, sent: Vec::new(), inbox: VecDeque::new(), waker: None, dropped: false, in_recv: false, sent_at: None });
        let c = DgConn { sh: self.sh.clone(), ch: self.ch.clone(), idx, faults: self.faults };
        Box::pin(std::future::ready(Ok(c)))
    }
}

impl AsyncDgramSend for DgConn {
    fn poll_send(&self, _cx: &mut Context<'_>, buf: &[u8]) -> Poll<Result<usize, io::Error>> {
        let c = if self.faults { self.ch.lock().unwrap().choose(3, "dgram-send") } else { 0 };
        let mut sh = self.sh.lock().unwrap();
        if c != 0 {
            let o = sh.socks[self.idx].owner;
            sh.faulted.push(o);
        }
        if c == 2 {
            return Poll::Ready(Err(io::Error::new(io::ErrorKind::PermissionDenied, "mock send error")));
        }
        let s = &mut sh.socks[self.idx];
        s.sent.push(buf.to_vec());
        s.sent_at = Some(Instant::now());
        Poll::Ready(Ok(if c == 1 { buf.len() - 1 } else { buf.len() }))
    }
}

impl AsyncDgramRecv for DgConn {
    fn poll_recv(&self, cx: &mut Context<'_>, buf: &mut ReadBuf<'_>) -> Poll<Result<(), io::Error>> {
        let mut sh = self.sh.lock().unwrap();
        let s = &mut sh.socks[self.idx];
        match s.inbox.pop_front() {
            Some(Ok(d)) => {
                let n = d.len().min(buf.remaining());
                buf.put_slice(&d[..n]);
                s.in_recv = false;
                Poll::Ready(Ok(()))
            }
            Some(Err(())) => {
                s.in_recv = false;
                Poll::Ready(Err(io::Error::new(io::ErrorKind::ConnectionRefused, "mock recv error")))
            }
            None => {
                s.waker = Some(cx.waker().clone());
                s.in_recv = true;
                Poll::Pending
            }
        }
    }
}

fn dg_feed(sh: &Arc<Mutex<DgShared>>, sock: usize, d: Result<Vec<u8>, ()>) {
    let w = {
        let mut g = sh.lock().unwrap();
        g.socks[sock].inbox.push_back(d);
        g.socks[sock].waker.take()
    };
    if let Some(w) = w {
        w.wake();
    }
}

/// What the mock peer knows about a caller that is waiting for a datagram.
#[derive(Clone, Debug)]
struct DgWait {
    req: usize,
    sock: usize,
    id: u16,
    q: usize,
    prev_id: Option<u16>,
}

/// Callers parked in recv() on a live socket with a request sent, by caller.
fn dg_waiting(sh: &Arc<Mutex<DgShared>>) -> Vec<DgWait> {
    let g = sh.lock().unwrap();
    let mut out = Vec::new();
    for (si, s) in g.socks.iter().enumerate() {
        if s.dropped || s.sent.is_empty() || !s.in_recv || !s.inbox.is_empty() {
            continue;
        }
        let (idx, id, q) = parse_request(&s.sent[0], "dgram");
        let prev_id = g.socks[..si].iter().rev().find(|p| p.owner == idx && !p.sent.is_empty()).map(|p| parse_request(&p.sent[0], "dgram").1);
        out.push(DgWait { req: idx, sock: si, id, q, prev_id });
    }
    out.sort_by_key(|w| w.req);
    out
}

#[derive(Clone, Debug)]
struct DgramCfg {
    plan: Vec<usize>,
    retries: u8,
    silent: bool,
    max_par: usize,
    /// the default "time passes" step is half the read timeout
    half_ticks: bool,
    /// requests carry EDNS data set through the ComposeRequest interface
    edns: bool,
    /// dgram::Config::set_udp_payload_size: Some(default 1232) or None
    udp_size_none: bool,
    /// receive buffer size (None = default 2000)
    recv_size: Option<usize>,
}
impl DgramCfg {
    fn json(&self) -> Value {
        json!({"plan": self.plan, "max_retries": self.retries, "peer_silent_by_default": self.silent, "max_parallel": self.max_par, "default_time_step_is_half_read_timeout": self.half_ticks, "edns_requests": self.edns, "udp_payload_size_none": self.udp_size_none, "recv_size": self.recv_size})
    }
}

#[derive(Clone, Debug)]
enum DAct {
    Submit,
    Reply(usize, RKind), // index into waiting
    WrongId(usize),
    /// reply of the given shape under the right (true) or a wrong (false) ID
    Shaped(usize, Shape, bool),
    /// a stray reply under the ID of the current transmission
    Stray(usize, Stray),
    Garbage(usize, usize), // length
    Late(usize),
    Cross(usize, usize), // to waiting[a]'s socket, the reply for waiting[b]
    RecvErr(usize),
    /// time passes: the read timeout (false) or half of it (true)
    Tick(bool),
    Cancel(usize),
    Finish,
}

/// Tick length not offered: landing exactly on `timer start + effective
/// response timeout` makes Transport::run spin (its test is the strict
/// `elapsed > response_timeout` while it then sleeps for
/// `response_timeout - elapsed` = 0); under the frozen clock that never ends.
/// A real clock moves on, so this is an artefact of the paused clock. The
/// same holds for a step equal to the configured response timeout.
/// The library default (RESPONSE_TIMEOUT.default()). The main timing cases
/// configure exactly this value, because `Config::set_response_timeout` turns
/// out not to influence single requests (finding reported by the separate
/// "configured 1000 ms" cases).
const ST_RT_MS: u64 = 19000;
const TICK_SKIP: u64 = ST_RT_MS;
const ST_IDLE_MS: u64 = 300;

const DG_READ_TIMEOUT: Duration = Duration::from_secs(1);

/// Record every ID a caller has put on the wire and the start of its budget
/// (first datagram). Each socket carries exactly one datagram.
fn dg_learn(core: &mut Core, sh: &Arc<Mutex<DgShared>>, learnt: &mut Vec<bool>, want_size: u16) {
    let g = sh.lock().unwrap();
    let mut news = Vec::new();
    for (si, s) in g.socks.iter().enumerate() {
        if learnt.len() <= si {
            learnt.push(false);
        }
        if !learnt[si] && !s.sent.is_empty() {
            learnt[si] = true;
            let (idx, id, q) = parse_request(&s.sent[0], "dgram");
            if idx != s.owner || core.reqs[idx].q != q {
                eprintln!("MACHINERY: dgram: datagram does not belong to the polling caller");
                std::process::exit(2);
            }
            news.push((idx, id, s.sent_at.unwrap(), s.sent[0].clone()));
        }
    }
    drop(g);
    for (idx, id, at, bytes) in news {
        core.learn_id(idx, id);
        core.check_wire_request(&bytes, want_size);
        if core.reqs[idx].start.is_none() {
            core.reqs[idx].start = Some(at);
        }
        core.note(format!("peer sees datagram of caller {idx} with id {id}"));
    }
}

async fn run_dgram(g: &Global, cfg: &DgramCfg, ch: Arc<Mutex<Chooser>>) {
    let mut core = Core::new(g, "dgram", cfg.json(), ch.clone(), &cfg.plan);
    let sh = Arc::new(Mutex::new(DgShared::default()));
    let stray_mode = core.stray_mode();
    let connect = DgConnect { sh: sh.clone(), ch: ch.clone(), current: core.current.clone(), faults: !stray_mode };
    let mut dc = dgram::Config::new();
    dc.set_read_timeout(DG_READ_TIMEOUT);
    dc.set_max_retries(cfg.retries);
    dc.set_max_parallel(cfg.max_par);
    config_kept(&g.ctx, "dgram", "read_timeout", format!("{:?}", DG_READ_TIMEOUT), format!("{:?}", dc.read_timeout()));
    config_kept(&g.ctx, "dgram", "max_retries", cfg.retries.to_string(), dc.max_retries().to_string());
    if (1..=1000).contains(&cfg.max_par) {
        config_kept(&g.ctx, "dgram", "max_parallel", cfg.max_par.to_string(), dc.max_parallel().to_string());
    }
    if cfg.udp_size_none {
        dc.set_udp_payload_size(None);
    }
    if let Some(n) = cfg.recv_size {
        dc.set_recv_size(n);
    }
    // the budget is computed from what the config reports after clamping
    core.budget = Some(dc.read_timeout() * (1 + dc.max_retries() as u32));
    core.edns = cfg.edns;
    let want_size = dc.udp_payload_size().unwrap_or(1400);
    let conn = dgram::Connection::with_config(connect, dc);
    let mut tr: Option<Slot<()>> = None;
    let mut learnt: Vec<bool> = Vec::new();
    let mut idle_ticks = 0;

    for _step in 0..64 {
        core.quiesce(&mut tr);
        if core.aborted {
            break;
        }
        dg_learn(&mut core, &sh, &mut learnt, want_size);
        for o in sh.lock().unwrap().faulted.clone() {
            core.excused[o] = true;
        }
        core.check_spurious();
        let waiting = dg_waiting(&sh);
        let ex = format!("{:?}|t{:?}", waiting.iter().map(|w| (w.req, w.prev_id.is_some())).collect::<Vec<_>>(), core.reqs.iter().map(|r| r.ids.len()).collect::<Vec<_>>());
        core.state(&ex);

        let next_unsub = (0..core.reqs.len()).find(|i| !core.reqs[*i].submitted);
        let any_pending = (0..core.reqs.len()).any(|i| core.pending(i));
        let mut menu: Vec<DAct> = Vec::new();
        // default
        if next_unsub.is_some() {
            menu.push(DAct::Submit);
        } else if !waiting.is_empty() {
            menu.push(if cfg.silent { DAct::Tick(cfg.half_ticks) } else { DAct::Reply(0, RKind::Answer) });
        } else if any_pending {
            menu.push(DAct::Tick(false));
        } else {
            menu.push(DAct::Finish);
        }
        let default_tick = match menu[0] {
            DAct::Tick(h) => Some(h),
            _ => None,
        };
        // The stray-reply pass: the genuine answer, the legitimate header-only
        // error, a wrong ID, a late answer to the previous transmission, time
        // and cancellation stay; every stray reply is offered on the socket of
        // every waiting caller (three callers: the first waiting one) under the
        // ID of its current transmission: the first one or, after time has
        // passed, a retransmission.
        let strays = if stray_mode { core.stray_menu() } else { Vec::new() };
        for (wi, w) in waiting.iter().enumerate() {
            if !stray_mode {
                break;
            }
            if !(next_unsub.is_none() && !cfg.silent && wi == 0) {
                menu.push(DAct::Reply(wi, RKind::Answer));
            }
            menu.push(DAct::Reply(wi, RKind::HdrErr));
            menu.push(DAct::WrongId(wi));
            if cfg.plan.len() <= 2 || wi == 0 {
                for sy in &strays {
                    menu.push(DAct::Stray(wi, *sy));
                }
            }
            if w.prev_id.is_some() {
                menu.push(DAct::Late(wi));
            }
        }
        for (wi, w) in waiting.iter().enumerate() {
            if stray_mode {
                break;
            }
            if !(next_unsub.is_none() && !cfg.silent && wi == 0) {
                menu.push(DAct::Reply(wi, RKind::Answer));
            }
            menu.push(DAct::Reply(wi, RKind::Tc));
            menu.push(DAct::Reply(wi, RKind::Qr0));
            menu.push(DAct::WrongId(wi));
            // the reply grammar: for every waiting caller with up to two
            // callers, for the first waiting caller with three
            if g.full_shapes.load(Ordering::Relaxed) && (cfg.plan.len() <= 2 || wi == 0) {
                for shp in all_shapes() {
                    menu.push(DAct::Shaped(wi, shp, true));
                }
                for shp in wrong_id_shapes() {
                    menu.push(DAct::Shaped(wi, shp, false));
                }
            } else {
                for shp in classic_shapes() {
                    menu.push(DAct::Shaped(wi, shp, true));
                }
            }
            menu.push(DAct::Garbage(wi, 0));
            menu.push(DAct::Garbage(wi, 11));
            if w.prev_id.is_some() {
                menu.push(DAct::Late(wi));
            }
            for (oi, _) in waiting.iter().enumerate() {
                if oi != wi {
                    menu.push(DAct::Cross(wi, oi));
                }
            }
            menu.push(DAct::RecvErr(wi));
        }
        if !waiting.is_empty() {
            for h in [false, true] {
                if default_tick != Some(h) {
                    menu.push(DAct::Tick(h));
                }
            }
        }
        for i in 0..core.reqs.len() {
            if core.pending(i) {
                menu.push(DAct::Cancel(i));
            }
        }
        let c = core.choose(menu.len(), "dgram-step");
        let act = menu[c].clone();
        core.transitions += 1;

        // deliver a datagram to waiting[wi]; expectation if it is the matching answer
        let deliver = |core: &mut Core, wi: usize, msg: Vec<u8>, what: String| {
            let w = &waiting[wi];
            core.note(format!("peer -> caller {} (id {}): {what}", w.req, w.id));
            core.delivered.push(Delivered { bytes: msg.clone(), udp: true });
            // a datagram longer than the receive buffer arrives cut
            let cut = cfg.recv_size.map(|n| msg.len() > n).unwrap_or(false);
            let is_answer = !cut && msg.len() >= 12 && answers(&msg, &[w.id], w.q).is_ok();
            if neutral(&msg) && is_answer {
                // the oracle leaves open whether this one is accepted
                core.excused[w.req] = true;
            } else if is_answer && core.pending(w.req) {
                core.expect.push((w.req, msg.clone()));
            } else {
                // stray / malformed datagram: it must neither complete nor fail
                // the request, the transport goes on listening (an Err later,
                // when the time is up, is excused)
                core.excused[w.req] = true;
                if core.pending(w.req) {
                    core.still_pending.push((w.req, what.clone()));
                }
            }
            dg_feed(&sh, w.sock, Ok(msg));
        };

        match act {
            DAct::Submit => {
                let i = next_unsub.unwrap();
                core.count("action.submit");
                core.submit(&conn, i);
            }
            DAct::Reply(wi, kind) => {
                let w = waiting[wi].clone();
                let s = core.next_serial();
                core.count(&format!("action.reply.{kind:?}"));
                deliver(&mut core, wi, mk_resp(w.id, w.q, kind, w.req, s), format!("{kind:?}"));
            }
            DAct::WrongId(wi) => {
                let w = waiting[wi].clone();
                let s = core.next_serial();
                core.count("action.reply.WrongId");
                deliver(&mut core, wi, mk_resp(w.id ^ 0x0100, w.q, RKind::Answer, w.req, s), "answer with another id".into());
            }
            DAct::Shaped(wi, shp, right_id) => {
                let w = waiting[wi].clone();
                let sn = core.next_serial();
                let id = if right_id { w.id } else { w.id ^ 0x0100 };
                core.count(&format!("action.reply.shape.{}.rcode{}.{:?}.tc{}", if right_id { "id-ok" } else { "id-wrong" }, shp.rcode, shp.qsel, shp.tc as u8));
                deliver(
                    &mut core,
                    wi,
                    mk_shape(id, w.q, shp, w.req, sn),
                    format!("{} id, rcode {}, question {:?}, tc {}", if right_id { "right" } else { "wrong" }, shp.rcode, shp.qsel, shp.tc),
                );
            }
            DAct::Stray(wi, sy) => {
                let w = waiting[wi].clone();
                let msg = core.stray(w.id, w.q, sy, w.req);
                core.count(if w.prev_id.is_some() { "action.reply.stray.during-a-retransmission" } else { "action.reply.stray.first-transmission" });
                deliver(&mut core, wi, msg, format!("stray reply [{}]", sy.label()));
            }
            DAct::Garbage(wi, l) => {
                core.count("action.reply.Garbage");
                deliver(&mut core, wi, vec![0xEE; l], format!("{l} octets of garbage"));
            }
            DAct::Late(wi) => {
                let w = waiting[wi].clone();
                let mut id = w.prev_id.unwrap();
                if id == w.id {
                    id ^= 1; // keep it a stale ID even if the random IDs coincide
                }
                let s = core.next_serial();
                core.count("action.reply.Late");
                deliver(&mut core, wi, mk_resp(id, w.q, RKind::Answer, w.req, s), "late answer to the previous transmission".into());
            }
            DAct::Cross(wi, oi) => {
                let (w, o) = (waiting[wi].clone(), waiting[oi].clone());
                let mut id = o.id;
                if id == w.id {
                    id ^= 0x0200;
                }
                let s = core.next_serial();
                core.count("action.reply.Cross");
                deliver(&mut core, wi, mk_resp(id, o.q, RKind::Answer, o.req, s), format!("the answer meant for caller {}", o.req));
            }
            DAct::RecvErr(wi) => {
                let w = waiting[wi].clone();
                core.count("action.recv-error");
                core.note(format!("socket of caller {} reports a receive error", w.req));
                core.excused[w.req] = true;
                dg_feed(&sh, w.sock, Err(()));
            }
            DAct::Tick(half) => {
                // Never step across a receive deadline: a coarse step would
                // start the next transmission late and so stretch the
                // request artificially. "Full" = up to the next deadline.
                let now = Instant::now();
                let next_deadline = {
                    let g = sh.lock().unwrap();
                    waiting.iter().filter_map(|w| g.socks[w.sock].sent_at).map(|t| (t + DG_READ_TIMEOUT).duration_since(now)).filter(|d| !d.is_zero()).min()
                };
                let mut d = if half { DG_READ_TIMEOUT / 2 } else { DG_READ_TIMEOUT };
                if let Some(nd) = next_deadline {
                    d = d.min(nd);
                }
                core.count(if half { "action.tick-half" } else { "action.tick" });
                core.note(format!("virtual time advances by {d:?}"));
                core.excuse_all = true;
                if waiting.is_empty() {
                    idle_ticks += 1;
                    if idle_ticks > 4 {
                        break; // finish() reports the stuck request
                    }
                }
                tokio::time::advance(d).await;
            }
            DAct::Cancel(i) => core.cancel(i),
            DAct::Finish => break,
        }
    }
    core.quiesce(&mut tr);
    for o in sh.lock().unwrap().faulted.clone() {
        core.excused[o] = true;
    }
    core.check_spurious();
    core.finish();
    let _ = guard(move || drop(conn));
}

// ---------------------------------------------------------------------------
// multi_stream and dgram_stream harness
// ---------------------------------------------------------------------------

#[derive(Default)]
struct TcpShared {
    conns: Vec<Arc<Mutex<StreamState>>>,
    connect_calls: u32,
    refused: u32,
}

struct TcpConnect {
    sh: Arc<Mutex<TcpShared>>,
    ch: Arc<Mutex<Chooser>>,
    allow_refuse: bool,
    /// refusing is the default answer (accepting is the deviation)
    refuse_default: bool,
}
impl std::fmt::Debug for TcpConnect {
    fn fmt(&self, f: &mut std::fmt::Formatter<'_>) -> std::fmt::Result {
        f.write_str("TcpConnect")
    }
}

impl AsyncConnect for TcpConnect {
    type Connection = MockStream;
    type Fut = Pin<Box<dyn Future<Output = Result<MockStream, io::Error>> + Send + Sync>>;
    fn connect(&self) -> Self::Fut {
        let refuse = self.allow_refuse && ((self.ch.lock().unwrap().choose(2, "tcp-connect") == 1) != self.refuse_default);
        let mut sh = self.sh.lock().unwrap();
        sh.connect_calls += 1;
        if refuse {
            sh.refused += 1;
            return Box::pin(std::future::ready(Err(io::Error::new(io::ErrorKind::ConnectionRefused, "mock connection refused"))));
        }
        let st = Arc::new(Mutex::new(StreamState::default()));
        sh.conns.push(st.clone());
        let m = MockStream { st, ch: self.ch.clone(), wf: WFaults { enabled: false, all_cuts: false } };
        Box::pin(std::future::ready(Ok(m)))
    }
}

#[derive(Clone, Debug)]
struct MultiCfg {
    dgram_first: bool,
    plan: Vec<usize>,
    udp_tc: bool,
    udp_retries: u8,
    allow_refuse: bool,
    /// the stream peer does not answer by default (time passes instead)
    tcp_silent: bool,
    /// by default the second request is submitted only after the first has
    /// been answered and 64 s (> the stream idle timeout) have passed
    gap: bool,
    /// fine-grained time: 1 s steps, datagram read timeout 3 s, response
    /// timeout `rt_s`, reconnect back-off draws are environment choices,
    /// exact per-request deadlines
    fine: bool,
    rt_s: u64,
    /// by default the peer ignores this many datagram transmissions of a request
    udp_lost: usize,
    /// by default a stream connect is refused
    tcp_refuse_default: bool,
    /// by default the stream peer closes the connection once it has read a request
    tcp_close_default: bool,
}
impl MultiCfg {
    fn json(&self) -> Value {
        if self.fine {
            return json!({"fine_time": true, "datagram_first": self.dgram_first, "plan": self.plan, "udp_default_reply_truncated": self.udp_tc, "udp_max_retries": self.udp_retries, "udp_transmissions_lost_by_default": self.udp_lost,
                "response_timeout_s": self.rt_s, "tcp_connect_may_be_refused": self.allow_refuse, "tcp_connect_refused_by_default": self.tcp_refuse_default, "stream_peer_closes_after_request_by_default": self.tcp_close_default,
                "stream_peer_silent_by_default": self.tcp_silent});
        }
        if self.dgram_first {
            json!({"plan": self.plan, "udp_default_reply_truncated": self.udp_tc, "udp_max_retries": self.udp_retries, "tcp_connect_may_be_refused": self.allow_refuse, "stream_peer_silent_by_default": self.tcp_silent, "idle_gap_before_second_request": self.gap})
        } else {
            json!({"plan": self.plan, "tcp_connect_may_be_refused": self.allow_refuse, "stream_peer_silent_by_default": self.tcp_silent, "idle_gap_before_second_request": self.gap})
        }
    }
}

/// Field values of the coarse-time cases (64 s steps).
const MULTI_COARSE: MultiCfg = MultiCfg {
    dgram_first: false,
    plan: Vec::new(),
    udp_tc: false,
    udp_retries: 0,
    allow_refuse: false,
    tcp_silent: false,
    gap: false,
    fine: false,
    rt_s: 200,
    udp_lost: 0,
    tcp_refuse_default: false,
    tcp_close_default: false,
};

const MS_TICK: Duration = Duration::from_secs(64);
const MS_UDP_TIMEOUT: Duration = Duration::from_secs(60);
const MS_RESPONSE_TIMEOUT: Duration = Duration::from_secs(200);

#[derive(Clone, Debug)]
enum MAct {
    Submit,
    Udp(usize, RKind),
    UdpTcWrongId(usize),
    /// error replies under the right ID: other / empty question, TC 0/1
    UdpShaped(usize, Shape),
    TcpShaped(usize, Shape),
    /// stray replies (stray pass): on the datagram socket of a waiting caller,
    /// under the ID of an open stream request, under the ID of a closed one
    UdpStray(usize, Stray),
    TcpStray(usize, Stray),
    TcpStaleStray(usize, Stray),
    UdpGarbage(usize),
    UdpRecvErr(usize),
    Tcp(usize, RKind),
    TcpWrongQ(usize),
    TcpStale(usize),
    TcpEof(usize),
    TcpShort(usize),
    Tick,
    Cancel(usize),
    Finish,
}

async fn run_multi(g: &Global, cfg: &MultiCfg, ch: Arc<Mutex<Chooser>>) {
    let tname = if cfg.dgram_first { "dgram_stream" } else { "multi_stream" };
    let mut core = Core::new(g, tname, cfg.json(), ch.clone(), &cfg.plan);
    let tsh = Arc::new(Mutex::new(TcpShared::default()));
    let tcp = TcpConnect { sh: tsh.clone(), ch: ch.clone(), allow_refuse: cfg.allow_refuse, refuse_default: cfg.tcp_refuse_default };
    let dsh = Arc::new(Mutex::new(DgShared::default()));
    let tick = if cfg.fine { Duration::from_secs(1) } else { MS_TICK };
    let udp_to = if cfg.fine { Duration::from_secs(3) } else { MS_UDP_TIMEOUT };
    let rt = if cfg.fine { Duration::from_secs(cfg.rt_s) } else { MS_RESPONSE_TIMEOUT };
    if cfg.fine {
        // the reconnect back-off draws of this execution are environment choices
        RAND_CH.with(|c| *c.borrow_mut() = Some(ch.clone()));
    }
    let mut msc = multi_stream::Config::default();
    msc.set_response_timeout(rt);
    if msc.response_timeout() != rt {
        eprintln!("MACHINERY: multi_stream response timeout was trimmed");
        std::process::exit(2);
    }
    let conn: Box<dyn SendRequest<Rq>>;
    let transport;
    if cfg.dgram_first {
        let dgc = DgConnect { sh: dsh.clone(), ch: ch.clone(), current: core.current.clone(), faults: false };
        let mut dc = dgram::Config::new();
        dc.set_read_timeout(udp_to);
        dc.set_max_retries(cfg.udp_retries);
        config_kept(&g.ctx, "dgram_stream", "read_timeout", format!("{:?}", udp_to), format!("{:?}", dc.read_timeout()));
        config_kept(&g.ctx, "dgram_stream", "max_retries", cfg.udp_retries.to_string(), dc.max_retries().to_string());
        let (c, t) = dgram_stream::Connection::<DgConnect, Rq>::with_config(dgc, tcp, dgram_stream::Config::from_parts(dc, msc));
        conn = Box::new(c);
        transport = t;
        if !cfg.fine {
            // time moves in 64 s steps, so each 60 s datagram attempt is noticed
            // up to 4 s late: allow for that
            core.budget = Some((MS_UDP_TIMEOUT + (MS_TICK - MS_UDP_TIMEOUT)) * (1 + cfg.udp_retries as u32) + MS_RESPONSE_TIMEOUT);
        }
    } else {
        let (c, t) = multi_stream::Connection::<Rq>::with_config(tcp, msc);
        conn = Box::new(c);
        transport = t;
        if !cfg.fine {
            core.budget = Some(MS_RESPONSE_TIMEOUT);
        }
    }
    // fine time: exact deadline of every request, and when its matching
    // truncated datagram answer arrived
    let mut deadline: Vec<Option<Instant>> = vec![None; cfg.plan.len()];
    let mut tc_time: Vec<Option<Instant>> = vec![None; cfg.plan.len()];
    let mut early_checked: Vec<bool> = vec![false; cfg.plan.len()];
    let mut conn = Some(conn);
    let mut tr = Some(Slot::new(transport.run()));
    let mut learnt: Vec<bool> = Vec::new();
    let mut entries: Vec<Entry> = Vec::new();
    let mut fatal: Vec<bool> = Vec::new();
    // (caller, connect() calls before, TCP frames of the caller before)
    let mut tc_expect: Vec<(usize, u32, usize)> = Vec::new();
    let mut tcp_frames_of: Vec<usize> = vec![0; cfg.plan.len()];
    let mut ticks = 0;
    let mut gap_done = false;

    for _step in 0..(if cfg.fine { 200 } else { 64 }) {
        let mut gap_tick = false;
        core.quiesce(&mut tr);
        if core.aborted {
            break;
        }
        if cfg.dgram_first {
            dg_learn(&mut core, &dsh, &mut learnt, 0);
        }
        if cfg.fine {
            let now = Instant::now();
            for i in 0..core.reqs.len() {
                // datagram phase: (1 + retries) read timeouts from the first transmission
                if cfg.dgram_first && deadline[i].is_none() && tc_time[i].is_none() {
                    if let Some(s0) = core.reqs[i].start {
                        deadline[i] = Some(s0 + udp_to * (1 + cfg.udp_retries as u32));
                    }
                }
                if core.pending(i) {
                    if let Some(d) = deadline[i] {
                        if now >= d {
                            deadline[i] = None;
                            let tname2 = core.tname;
                            core.violate(
                                format!("C15|{tname2}|budget|request-pending-after-timeout-and-retry-budget"),
                                format!("request {i} still pending at its deadline (datagram phase: (1+retries) x read timeout from the first transmission; stream phase: response_timeout {rt:?} from its start)"),
                            );
                        }
                    }
                }
            }
        }
        let conns: Vec<Arc<Mutex<StreamState>>> = tsh.lock().unwrap().conns.clone();
        while fatal.len() < conns.len() {
            fatal.push(false);
            core.note(format!("peer accepts stream connection #{}", fatal.len() - 1));
        }
        for (ci, st) in conns.iter().enumerate() {
            for f in take_frames(st) {
                let (idx, id, q) = parse_request(&f, "tcp");
                if idx >= core.reqs.len() || core.reqs[idx].q != q {
                    eprintln!("MACHINERY: tcp: frame does not belong to any caller");
                    std::process::exit(2);
                }
                core.learn_id(idx, id);
                tcp_frames_of[idx] += 1;
                if !cfg.dgram_first && core.reqs[idx].start.is_none() {
                    // unreachable: start is set at submission
                }
                let dead = fatal[ci] || st.lock().unwrap().dropped;
                entries.push(Entry { conn: ci, req: idx, id, q, open: !dead });
                core.note(format!("peer sees request of caller {idx} with id {id} on stream #{ci}"));
            }
            if st.lock().unwrap().dropped {
                for e in entries.iter_mut().filter(|e| e.conn == ci) {
                    e.open = false;
                }
            }
        }
        // TC over datagram => a stream attempt is observed
        let calls_now = tsh.lock().unwrap().connect_calls;
        for (r, calls, frames) in std::mem::take(&mut tc_expect) {
            if core.reqs[r].cancelled {
                continue;
            }
            if calls_now == calls && tcp_frames_of[r] == frames {
                core.violate(
                    "C15|dgram_stream|truncated-answer|no-stream-attempt".into(),
                    format!("request {r} received a matching TC=1 datagram but neither a stream connect nor a request on a stream followed; status {}", core.req_status()),
                );
            } else {
                core.count("tc.stream-attempt-observed");
            }
        }
        let live = |ci: usize| -> bool { !fatal[ci] && !conns[ci].lock().unwrap().dropped };
        // A stream attempt that follows a truncated answer has the full response timeout: while the
        // request is on a live stream connection on which the peer may still answer, the transport
        // must not give up with a read timeout before `rt` has passed since the truncated answer.
        // (Giving up early while NO connection carries the request - e.g. a retry back-off that
        // cannot end before the deadline - loses nothing and is left to the implementation.)
        if cfg.fine {
            let now = Instant::now();
            for i in 0..core.reqs.len() {
                if let (Some(t), Some(Res::Err(e)), false) = (tc_time[i], core.reqs[i].result.clone(), early_checked[i]) {
                    early_checked[i] = true;
                    let on_live_stream = entries.iter().any(|en| en.req == i && en.open && live(en.conn));
                    if e == "StreamReadTimeout" && now < t + rt && on_live_stream {
                        core.violate(
                            "C15|dgram_stream|truncated-answer|stream-attempt-timed-out-before-its-own-budget".into(),
                            format!("request {i}: truncated datagram answer at +{:?}, Err(StreamReadTimeout) {:?} later although the stream response timeout is {rt:?} and the request is on a live stream", t.duration_since(core.reqs[i].start.unwrap_or(t)), now.duration_since(t)),
                        );
                    } else if e == "StreamReadTimeout" && now < t + rt {
                        core.count("tc.stream-phase-gave-up-early-without-a-live-connection");
                    } else {
                        core.count("tc.stream-phase-error-not-early");
                    }
                }
            }
        }
        let waiting = if cfg.dgram_first { dg_waiting(&dsh) } else { Vec::new() };
        let open: Vec<usize> = (0..entries.len()).filter(|i| entries[*i].open && live(entries[*i].conn)).collect();
        let ex = format!(
            "{:?}|{:?}|{:?}|c{}",
            waiting.iter().map(|w| w.req).collect::<Vec<_>>(),
            entries.iter().map(|e| (e.conn, e.req, e.id, e.open)).collect::<Vec<_>>(),
            (0..conns.len()).map(|c| live(c)).collect::<Vec<_>>(),
            calls_now
        );
        core.state(&ex);

        let next_unsub = (0..core.reqs.len()).find(|i| !core.reqs[*i].submitted);
        let any_pending = (0..core.reqs.len()).any(|i| core.pending(i));
        let udp_default = if cfg.udp_tc { RKind::Tc } else { RKind::Answer };
        let strays = if core.stray_mode() { core.stray_menu() } else { Vec::new() };
        let mut menu: Vec<MAct> = Vec::new();
        let default_kind: u8;
        let hold_submit = cfg.gap && next_unsub == Some(1) && (!waiting.is_empty() || !open.is_empty() || !gap_done);
        if next_unsub.is_some() && !hold_submit {
            menu.push(MAct::Submit);
            default_kind = 0;
        } else if !waiting.is_empty() && cfg.fine && {
            let gd = dsh.lock().unwrap();
            let r = waiting[0].req;
            gd.socks.iter().filter(|s| s.owner == r && !s.sent.is_empty()).count() <= cfg.udp_lost
        } {
            // this transmission is lost: time passes
            menu.push(MAct::Tick);
            default_kind = 3;
        } else if !waiting.is_empty() {
            menu.push(MAct::Udp(0, udp_default));
            default_kind = 1;
        } else if !open.is_empty() && cfg.tcp_close_default {
            menu.push(MAct::TcpEof(entries[open[0]].conn));
            default_kind = 5;
        } else if !open.is_empty() && !cfg.tcp_silent {
            menu.push(MAct::Tcp(open[0], RKind::Answer));
            default_kind = 2;
        } else if any_pending || hold_submit {
            menu.push(MAct::Tick);
            default_kind = 3;
            if hold_submit {
                gap_tick = true;
            }
        } else {
            menu.push(MAct::Finish);
            default_kind = 4;
        }
        for (wi, _) in waiting.iter().enumerate() {
            for k in [RKind::Answer, RKind::Tc] {
                if !(default_kind == 1 && wi == 0 && k == udp_default) {
                    menu.push(MAct::Udp(wi, k));
                }
            }
            menu.push(MAct::UdpTcWrongId(wi));
            for shp in multi_shapes() {
                menu.push(MAct::UdpShaped(wi, shp));
            }
            menu.push(MAct::UdpGarbage(wi));
            menu.push(MAct::UdpRecvErr(wi));
            for sy in &strays {
                menu.push(MAct::UdpStray(wi, *sy));
            }
        }
        for &e in &open {
            if !(default_kind == 2 && e == open[0]) {
                menu.push(MAct::Tcp(e, RKind::Answer));
            }
            menu.push(MAct::TcpWrongQ(e));
            for shp in multi_shapes() {
                if !shp.tc {
                    menu.push(MAct::TcpShaped(e, shp));
                }
            }
            menu.push(MAct::Tcp(e, RKind::HdrErr));
            menu.push(MAct::Tcp(e, RKind::AnswerTc));
            for sy in &strays {
                menu.push(MAct::TcpStray(e, *sy));
            }
        }
        if let Some(c) = (0..entries.len()).rev().find(|i| !entries[*i].open && live(entries[*i].conn)) {
            menu.push(MAct::TcpStale(c));
            if !open.iter().any(|o| entries[*o].conn == entries[c].conn && entries[*o].id == entries[c].id && entries[*o].q == entries[c].q) {
                for sy in &strays {
                    menu.push(MAct::TcpStaleStray(c, *sy));
                }
            }
        }
        for ci in 0..conns.len() {
            if live(ci) {
                if !(default_kind == 5 && ci == entries[open[0]].conn) {
                    menu.push(MAct::TcpEof(ci));
                }
                menu.push(MAct::TcpShort(ci));
            }
        }
        if any_pending && default_kind != 3 {
            menu.push(MAct::Tick);
        }
        if hold_submit {
            menu.push(MAct::Submit);
        }
        for i in 0..core.reqs.len() {
            if core.pending(i) {
                menu.push(MAct::Cancel(i));
            }
        }
        let c = core.choose(menu.len(), "ms-step");
        let act = menu[c].clone();
        core.transitions += 1;
        let tr_alive = tr.as_ref().map(|t| t.alive()).unwrap_or(false);

        match act {
            MAct::Submit => {
                let i = next_unsub.unwrap();
                core.count("action.submit");
                if !cfg.dgram_first {
                    core.reqs[i].start = Some(Instant::now());
                    if cfg.fine {
                        deadline[i] = Some(Instant::now() + rt);
                    }
                }
                if let Some(c) = conn.as_ref() {
                    core.submit(c, i);
                }
            }
            MAct::Udp(wi, kind) => {
                let w = waiting[wi].clone();
                let s = core.next_serial();
                let msg = mk_resp(w.id, w.q, kind, w.req, s);
                core.note(format!("peer -> caller {} over datagram: {kind:?}", w.req));
                core.count(&format!("action.udp.{kind:?}"));
                core.delivered.push(Delivered { bytes: msg.clone(), udp: true });
                if core.pending(w.req) {
                    if kind == RKind::Tc {
                        tc_time[w.req] = Some(Instant::now());
                        deadline[w.req] = Some(Instant::now() + rt);
                        tc_expect.push((w.req, calls_now, tcp_frames_of[w.req]));
                    } else {
                        core.expect.push((w.req, msg.clone()));
                    }
                }
                dg_feed(&dsh, w.sock, Ok(msg));
            }
            MAct::UdpShaped(wi, shp) => {
                let w = waiting[wi].clone();
                let sn = core.next_serial();
                let msg = mk_shape(w.id, w.q, shp, w.req, sn);
                core.note(format!("peer -> caller {} over datagram: rcode {} question {:?} tc {}", w.req, shp.rcode, shp.qsel, shp.tc));
                core.count("action.udp.Shaped");
                core.delivered.push(Delivered { bytes: msg.clone(), udp: true });
                if core.pending(w.req) && answers(&msg, &[w.id], w.q).is_ok() {
                    if shp.tc {
                        tc_time[w.req] = Some(Instant::now());
                        deadline[w.req] = Some(Instant::now() + rt);
                        tc_expect.push((w.req, calls_now, tcp_frames_of[w.req]));
                    } else {
                        core.expect.push((w.req, msg.clone()));
                    }
                }
                dg_feed(&dsh, w.sock, Ok(msg));
            }
            MAct::TcpShaped(e, shp) => {
                let en = entries[e].clone();
                let sn = core.next_serial();
                let msg = mk_shape(en.id, en.q, shp, en.req, sn);
                core.note(format!("peer answers caller {} id {} on stream #{} with rcode {} question {:?}", en.req, en.id, en.conn, shp.rcode, shp.qsel));
                core.count("action.tcp.Shaped");
                feed(&conns[en.conn], framed(&msg));
                account_frame(&mut core, &mut entries, en.conn, tr_alive, &msg, false);
            }
            MAct::UdpStray(wi, sy) => {
                let w = waiting[wi].clone();
                let msg = core.stray(w.id, w.q, sy, w.req);
                core.note(format!("peer -> caller {} over datagram: stray reply [{}]", w.req, sy.label()));
                core.count(if w.prev_id.is_some() { "action.udp.stray.during-a-retransmission" } else { "action.udp.stray.first-transmission" });
                core.delivered.push(Delivered { bytes: msg.clone(), udp: true });
                if neutral(&msg) {
                    // left open by the oracle
                } else if answers(&msg, &[w.id], w.q).is_ok() {
                    if core.pending(w.req) {
                        core.expect.push((w.req, msg.clone()));
                    }
                } else if core.pending(w.req) {
                    core.still_pending.push((w.req, format!("stray reply [{}]", sy.label())));
                }
                dg_feed(&dsh, w.sock, Ok(msg));
            }
            MAct::TcpStray(e, sy) | MAct::TcpStaleStray(e, sy) => {
                let en = entries[e].clone();
                let msg = core.stray(en.id, en.q, sy, en.req);
                let stale = matches!(act, MAct::TcpStaleStray(..));
                core.note(format!("peer sends on stream #{} under id {} ({} caller {}) the stray reply [{}]", en.conn, en.id, if stale { "already answered" } else { "open request of" }, en.req, sy.label()));
                core.count(if stale { "action.tcp.stray.after-the-answer" } else { "action.tcp.stray.before-the-answer" });
                feed(&conns[en.conn], framed(&msg));
                account_frame(&mut core, &mut entries, en.conn, tr_alive, &msg, false);
            }
            MAct::UdpTcWrongId(wi) => {
                let w = waiting[wi].clone();
                let s = core.next_serial();
                let msg = mk_resp(w.id ^ 0x0100, w.q, RKind::Tc, w.req, s);
                core.note(format!("peer -> caller {} over datagram: TC with another id", w.req));
                core.count("action.udp.TcWrongId");
                core.delivered.push(Delivered { bytes: msg.clone(), udp: true });
                dg_feed(&dsh, w.sock, Ok(msg));
            }
            MAct::UdpGarbage(wi) => {
                let w = waiting[wi].clone();
                core.note(format!("peer -> caller {} over datagram: garbage", w.req));
                core.count("action.udp.Garbage");
                core.delivered.push(Delivered { bytes: vec![0xEE; 11], udp: true });
                dg_feed(&dsh, w.sock, Ok(vec![0xEE; 11]));
            }
            MAct::UdpRecvErr(wi) => {
                let w = waiting[wi].clone();
                core.note(format!("datagram socket of caller {} reports an error", w.req));
                core.count("action.udp.RecvErr");
                dg_feed(&dsh, w.sock, Err(()));
            }
            MAct::Tcp(e, kind) => {
                let en = entries[e].clone();
                let s = core.next_serial();
                let msg = mk_resp(en.id, en.q, kind, en.req, s);
                core.note(format!("peer answers caller {} id {} on stream #{} with {kind:?}", en.req, en.id, en.conn));
                core.count(&format!("action.tcp.{kind:?}"));
                feed(&conns[en.conn], framed(&msg));
                account_frame(&mut core, &mut entries, en.conn, tr_alive, &msg, false);
            }
            MAct::TcpWrongQ(e) => {
                let en = entries[e].clone();
                let s = core.next_serial();
                let msg = mk_resp(en.id, 2, RKind::Answer, en.req, s);
                core.note(format!("peer answers id {} on stream #{} with another question", en.id, en.conn));
                core.count("action.tcp.WrongQ");
                feed(&conns[en.conn], framed(&msg));
                account_frame(&mut core, &mut entries, en.conn, tr_alive, &msg, false);
            }
            MAct::TcpStale(e) => {
                let en = entries[e].clone();
                let s = core.next_serial();
                let msg = mk_resp(en.id, en.q, RKind::Answer, en.req, s);
                core.note(format!("peer re-sends an answer for closed caller {} id {} on stream #{}", en.req, en.id, en.conn));
                core.count("action.tcp.Stale");
                feed(&conns[en.conn], framed(&msg));
                account_frame(&mut core, &mut entries, en.conn, tr_alive, &msg, false);
            }
            MAct::TcpEof(ci) | MAct::TcpShort(ci) => {
                if matches!(act, MAct::TcpShort(_)) {
                    core.note(format!("peer sends an 11-octet frame on stream #{ci}"));
                    core.count("action.tcp.Short");
                    feed(&conns[ci], framed(&[0xEE; 11]));
                } else {
                    core.note(format!("peer closes stream #{ci}"));
                    core.count("action.tcp.Eof");
                    feed_eof(&conns[ci], false);
                }
                fatal[ci] = true;
                for e in entries.iter_mut().filter(|e| e.conn == ci) {
                    e.open = false;
                }
            }
            MAct::Tick => {
                if gap_tick && c == 0 {
                    gap_done = true;
                }
                core.count("action.tick");
                core.note(format!("virtual time advances by {tick:?}"));
                ticks += 1;
                if ticks > (if cfg.fine { 60 } else { 16 }) {
                    break;
                }
                tokio::time::advance(tick).await;
            }
            MAct::Cancel(i) => core.cancel(i),
            MAct::Finish => {
                let c = conn.take();
                let _ = guard(move || drop(c));
                core.quiesce(&mut tr);
                break;
            }
        }
    }
    core.quiesce(&mut tr);
    let refused = tsh.lock().unwrap().refused;
    if refused > 0 {
        core.count("tcp.connect-refused-executions");
    }
    if tsh.lock().unwrap().conns.len() > 1 {
        core.count("tcp.reconnect-executions");
    }
    core.finish();
    let t = tr.take();
    let _ = guard(move || drop(t));
    let _ = guard(move || drop(conn));
}

// ---------------------------------------------------------------------------
// redundant and load_balancer harness
// ---------------------------------------------------------------------------

std::thread_local! {
    /// The chooser of the execution running on this thread, if its random
    /// draws are environment choices.
    static RAND_CH: std::cell::RefCell<Option<Arc<Mutex<Chooser>>>> = const { std::cell::RefCell::new(None) };
}

/// Backend of the library's verification seam for random draws. Menu:
/// 0.5 (default: no probe / middle index), 0.0 (probe, first index), 0.999
/// (no probe, last index). Executions that do not register a chooser
/// (multi_stream's reconnect jitter) always get 0.5.
fn rand_backend(label: &'static str) -> f64 {
    RAND_CH.with(|c| match &*c.borrow() {
        Some(ch) => {
            let k = ch.lock().unwrap().choose(3, if label == "random" { "rand-probe" } else { "rand-index" });
            [0.5, 0.0, 0.999][k]
        }
        None => 0.5,
    })
}

/// One request handed to a mock upstream by the transport under test.
struct UpCall {
    upstream: usize,
    caller: usize,
    id: u16,
    q: usize,
    at: Instant,
    result: Option<Result<Vec<u8>, bool>>, // Err(true) = upstream's own timeout
    taken: bool,
    answered: bool,
    failed: bool,
    dropped: bool,
    waker: Option<Waker>,
}

#[derive(Default)]
struct UpShared {
    calls: Vec<UpCall>,
}

struct MockUp {
    idx: usize,
    sh: Arc<Mutex<UpShared>>,
}

struct UpReq {
    sh: Arc<Mutex<UpShared>>,
    call: usize,
}
impl std::fmt::Debug for UpReq {
    fn fmt(&self, f: &mut std::fmt::Formatter<'_>) -> std::fmt::Result {
        write!(f, "UpReq({})", self.call)
    }
}
impl Drop for UpReq {
    fn drop(&mut self) {
        self.sh.lock().unwrap().calls[self.call].dropped = true;
    }
}

impl SendRequest<Rq> for MockUp {
    fn send_request(&self, request_msg: Rq) -> Box<dyn domain::net::client::request::GetResponse + Send + Sync> {
        use domain::net::client::request::ComposeRequest;
        let bytes = request_msg.to_vec().expect("request composes");
        let (caller, id, q) = parse_request(&bytes, "upstream");
        let mut g = self.sh.lock().unwrap();
        let call = g.calls.len();
        g.calls.push(UpCall { upstream: self.idx, caller, id, q, at: Instant::now(), result: None, taken: false, answered: false, failed: false, dropped: false, waker: None });
        Box::new(UpReq { sh: self.sh.clone(), call })
    }
}

struct UpFut<'a> {
    r: &'a UpReq,
}
impl Future for UpFut<'_> {
    type Output = RespResult;
    fn poll(self: Pin<&mut Self>, cx: &mut Context<'_>) -> Poll<RespResult> {
        let mut g = self.r.sh.lock().unwrap();
        let c = &mut g.calls[self.r.call];
        match c.result.take() {
            Some(Ok(b)) => {
                c.taken = true;
                Poll::Ready(Ok(Message::from_octets(Bytes::from(b)).expect("mock answer")))
            }
            Some(Err(timeout)) => {
                c.taken = true;
                Poll::Ready(Err(if timeout { Error::StreamReadTimeout } else { Error::ConnectionClosed }))
            }
            None => {
                c.waker = Some(cx.waker().clone());
                Poll::Pending
            }
        }
    }
}
impl domain::net::client::request::GetResponse for UpReq {
    fn get_response(&mut self) -> Pin<Box<dyn Future<Output = RespResult> + Send + Sync + '_>> {
        Box::pin(UpFut { r: self })
    }
}

fn up_resolve(sh: &Arc<Mutex<UpShared>>, call: usize, r: Result<Vec<u8>, bool>) {
    let w = {
        let mut g = sh.lock().unwrap();
        let c = &mut g.calls[call];
        match &r {
            Ok(_) => c.answered = true,
            Err(_) => c.failed = true,
        }
        c.result = Some(r);
        c.waker.take()
    };
    if let Some(w) = w {
        w.wake();
    }
}

#[derive(Clone, Copy, Debug, PartialEq, Eq)]
enum UpMode {
    Answer,
    Error,
    /// never answers: after UP_TIMEOUT the upstream's own timeout fails the call
    Silent,
    /// answers REFUSED / SERVFAIL (with the question)
    Refused,
    ServFail,
}

#[derive(Clone, Debug)]
struct ComboCfg {
    lb: bool,
    plan: Vec<usize>,
    ups: Vec<UpMode>,
    defer: bool,
    /// load balancer only: max_burst of each upstream (empty = None for all)
    bursts: Vec<Option<u64>>,
    /// load balancer only: burst_interval of every upstream in ms (0 = the default is left alone)
    interval_ms: u64,
    /// (request, n): by default n time steps pass before this request is submitted
    pre_ticks: Vec<(usize, u32)>,
    /// by default the next request is submitted only when nothing is open
    sequential: bool,
    /// defer_refused and defer_servfail
    defer_rcode: bool,
    /// requests in their EDNS form (see build_request_edns)
    edns: bool,
}
impl ComboCfg {
    fn json(&self) -> Value {
        json!({"plan": self.plan, "upstreams_default": self.ups.iter().map(|u| format!("{u:?}")).collect::<Vec<_>>(), "defer_transport_error": self.defer, "max_burst": self.bursts, "burst_interval_ms": self.interval_ms, "time_steps_before_request": self.pre_ticks, "sequential": self.sequential, "defer_refused_and_servfail": self.defer_rcode, "edns": self.edns})
    }
    /// A case of the burst-limit family (some upstream has a max_burst).
    fn is_burst(&self) -> bool {
        self.bursts.iter().any(|b| b.is_some())
    }
    fn burst(&self, u: usize) -> Option<u64> {
        self.bursts.get(u).copied().flatten()
    }
    /// The burst interval in force (the documented default is one second).
    fn interval(&self) -> Duration {
        Duration::from_millis(if self.interval_ms == 0 { 1000 } else { self.interval_ms })
    }
}

const UP_TICK: Duration = Duration::from_millis(400);
const UP_TIMEOUT: Duration = Duration::from_millis(2000);

#[derive(Clone, Debug)]
enum CAct {
    Submit,
    Answer(usize),
    /// answer with this RCODE (5 REFUSED, 2 SERVFAIL) and the question
    AnswerRcode(usize, u8),
    Fail(usize),
    Timeout(usize),
    Tick,
    Cancel(usize),
    Finish,
}

/// Poll `fut` (and the transport) until it is done.
fn drive_setup(core: &mut Core, tr: &mut Option<Slot<()>>, fut: impl Future<Output = Result<(), Error>> + 'static) {
    let mut s = Slot::new(fut);
    for _ in 0..1000 {
        let mut any = false;
        if let Some(t) = tr.as_mut() {
            match t.step() {
                Ok((p, _)) => any |= p,
                Err(pm) => {
                    core.panic("transport-task", pm);
                    return;
                }
            }
        }
        match s.step() {
            Ok((p, Some(r))) => {
                let _ = p;
                if r.is_err() {
                    eprintln!("MACHINERY: adding an upstream failed");
                    std::process::exit(2);
                }
                return;
            }
            Ok((p, None)) => any |= p,
            Err(pm) => {
                core.panic("add", pm);
                return;
            }
        }
        if !any {
            break;
        }
    }
    eprintln!("MACHINERY: adding an upstream did not finish");
    std::process::exit(2);
}

/// A reply the load balancer made up itself (its SERVFAIL for "no
/// upstream may take this request now") needs a cause, like an Err:
/// every upstream has a burst limit, and every upstream was handed at
/// least max_burst requests within the burst interval that ends at the
/// reply ("once the burst length has been exceeded, the upstream
/// receives no new requests until the burst interval has completed").
/// Necessary condition only: how the interval is anchored is the
/// transport's business.
fn check_synth(core: &mut Core, cfg: &ComboCfg, sh: &Arc<Mutex<UpShared>>, synth_seen: &mut usize) {
    let tname = core.tname;
    let n_up = cfg.ups.len();
    while *synth_seen < core.synth.len() {
        let (i, at) = core.synth[*synth_seen];
        *synth_seen += 1;
        let gsh = sh.lock().unwrap();
        let mine = gsh.calls.iter().filter(|c| c.caller == i).count();
        let mut short: Option<(usize, Option<u64>, usize)> = None;
        for u in 0..n_up {
            let recent = gsh.calls.iter().filter(|c| c.upstream == u && c.at + cfg.interval() >= at).count();
            match cfg.burst(u) {
                Some(m) if recent as u64 >= m => {}
                lim => {
                    short = Some((u, lim, recent));
                    break;
                }
            }
        }
        drop(gsh);
        if let Some((u, lim, recent)) = short {
            let cause = if lim.is_none() { "upstream-without-burst-limit" } else { "upstream-below-its-burst-limit" };
            core.violate(
                format!("C15|{tname}|synthesized-reply|without-cause|{cause}"),
                format!("request {i} was answered by the transport itself (SERVFAIL, no upstream asked) although upstream {u} (max_burst {lim:?}, burst interval {:?}) had been handed only {recent} request(s) within the last burst interval", cfg.interval()),
            );
        } else {
            core.count("lb.synthesized-servfail.every-upstream-at-its-burst-limit");
        }
        if mine > 0 {
            core.count("lb.synthesized-servfail.after-an-upstream-call-for-the-same-request");
        }
        core.count(&format!("lb.synthesized-servfail.for-request-number.{}", i + 1));
    }
}

async fn run_combo(g: &Global, cfg: &ComboCfg, ch: Arc<Mutex<Chooser>>) {
    use domain::net::client::{load_balancer, redundant};
    let tname = if cfg.lb { "load_balancer" } else { "redundant" };
    let mut core = Core::new(g, tname, cfg.json(), ch.clone(), &cfg.plan);
    core.excuse_all = true; // Err causes are checked below, per upstream call
    core.edns = cfg.edns;
    let sh = Arc::new(Mutex::new(UpShared::default()));
    let conn: Box<dyn SendRequest<Rq>>;
    let mut tr: Option<Slot<()>>;
    if cfg.lb {
        let mut c = load_balancer::Config::default();
        c.set_defer_transport_error(cfg.defer);
        c.set_defer_refused(cfg.defer_rcode);
        c.set_defer_servfail(cfg.defer_rcode);
        let (cn, t) = load_balancer::Connection::<Rq>::with_config(c);
        tr = Some(Slot::new(t.run()));
        for idx in 0..cfg.ups.len() {
            let c2 = cn.clone();
            let up = MockUp { idx, sh: sh.clone() };
            let mb = cfg.burst(idx);
            let iv = cfg.interval_ms;
            drive_setup(&mut core, &mut tr, async move {
                let mut cc = load_balancer::ConnConfig::new();
                cc.set_max_burst(mb);
                if iv != 0 {
                    cc.set_burst_interval(Duration::from_millis(iv));
                }
                c2.add("up", &cc, Box::new(up)).await
            });
        }
        conn = Box::new(cn);
    } else {
        let mut c = redundant::Config::default();
        c.set_defer_transport_error(cfg.defer);
        c.set_defer_refused(cfg.defer_rcode);
        c.set_defer_servfail(cfg.defer_rcode);
        let (cn, t) = redundant::Connection::<Rq>::with_config(c);
        tr = Some(Slot::new(t.run()));
        for idx in 0..cfg.ups.len() {
            let c2 = cn.clone();
            let up = MockUp { idx, sh: sh.clone() };
            drive_setup(&mut core, &mut tr, async move { c2.add(Box::new(up)).await });
        }
        conn = Box::new(cn);
    }
    let mut conn = Some(conn);
    let mut learnt = 0usize;
    let mut ticks = 0;
    let n_up = cfg.ups.len();
    // REFUSED / SERVFAIL answers given while such answers are deferred: (caller, message)
    let mut deferred_replies: Vec<(usize, Vec<u8>)> = Vec::new();
    let mut deferred_checked: Vec<bool> = vec![false; cfg.plan.len()];
    // time steps already taken in front of each request (see ComboCfg::pre_ticks)
    let mut pre_done: Vec<u32> = vec![0; cfg.plan.len()];
    let mut synth_seen = 0usize;

    for _step in 0..64 {
        core.quiesce(&mut tr);
        if core.aborted {
            break;
        }
        // learn new upstream calls
        let news: Vec<(usize, usize, u16, usize)> = {
            let gsh = sh.lock().unwrap();
            gsh.calls[learnt..].iter().map(|c| (c.upstream, c.caller, c.id, c.q)).collect()
        };
        for (u, caller, id, q) in news {
            if caller >= core.reqs.len() || core.reqs[caller].q != q {
                eprintln!("MACHINERY: upstream call does not belong to any caller");
                std::process::exit(2);
            }
            core.learn_id(caller, id);
            core.note(format!("upstream {u} receives the request of caller {caller}"));
            core.count(&format!("upstream-call.{u}"));
            learnt += 1;
        }
        // Err needs a cause: an upstream call of this caller failed; with
        // deferred transport errors every upstream must have been tried and
        // have failed
        for (i, e) in std::mem::take(&mut core.err_unexamined) {
            let gsh = sh.lock().unwrap();
            let mine: Vec<&UpCall> = gsh.calls.iter().filter(|c| c.caller == i).collect();
            let failed = mine.iter().filter(|c| c.failed).count();
            let answered = mine.iter().filter(|c| c.answered).count();
            let tried: std::collections::BTreeSet<usize> = mine.iter().map(|c| c.upstream).collect();
            drop(gsh);
            if failed == 0 {
                core.violate(format!("C15|{tname}|spurious-error|{e}"), format!("request {i} completed with Err({e}) although no upstream call made for it failed"));
            } else if cfg.defer && !cfg.defer_rcode && !cfg.is_burst() && (answered > 0 || tried.len() < n_up || failed < tried.len()) {
                core.violate(
                    format!("C15|{tname}|deferred-error|returned-before-every-upstream-failed"),
                    format!("request {i} completed with Err({e}) with defer_transport_error set: {} of {n_up} upstreams tried, {failed} calls failed, {answered} answered", tried.len()),
                );
            } else {
                core.count("err.has-upstream-cause");
            }
        }
        check_synth(&mut core, cfg, &sh, &mut synth_seen);
        // a deferred REFUSED / SERVFAIL may only be the result when every
        // upstream has been tried and none of the caller's calls is still open
        for i in 0..core.reqs.len() {
            if deferred_checked[i] {
                continue;
            }
            if let Some(Res::Ok(b)) = core.reqs[i].result.clone() {
                deferred_checked[i] = true;
                if deferred_replies.iter().any(|(c, m)| *c == i && *m == b) {
                    let gsh = sh.lock().unwrap();
                    let mine: Vec<&UpCall> = gsh.calls.iter().filter(|c| c.caller == i).collect();
                    let tried: std::collections::BTreeSet<usize> = mine.iter().map(|c| c.upstream).collect();
                    let unfinished = mine.iter().filter(|c| !c.answered && !c.failed).count();
                    drop(gsh);
                    if tried.len() < n_up || unfinished > 0 {
                        core.violate(
                            format!("C15|{tname}|deferred-reply|returned-before-every-upstream-answered"),
                            format!("request {i} got the deferred REFUSED/SERVFAIL reply while {} of {n_up} upstreams had been tried and {unfinished} call(s) were unfinished", tried.len()),
                        );
                    } else {
                        core.count("deferred-reply.returned-after-all-upstreams");
                    }
                }
            }
        }
        let (open, ex): (Vec<usize>, String) = {
            let gsh = sh.lock().unwrap();
            let open = (0..gsh.calls.len()).filter(|c| !gsh.calls[*c].dropped && !gsh.calls[*c].taken && gsh.calls[*c].result.is_none()).collect();
            let ex = format!("{:?}", gsh.calls.iter().map(|c| (c.upstream, c.caller, c.answered, c.failed, c.dropped)).collect::<Vec<_>>());
            (open, ex)
        };
        core.state(&ex);
        let now = Instant::now();
        let next_unsub = (0..core.reqs.len()).find(|i| !core.reqs[*i].submitted);
        let any_pending = (0..core.reqs.len()).any(|i| core.pending(i));
        let mut menu: Vec<CAct> = Vec::new();
        // default
        let mut default_call: Option<usize> = None;
        // time passes by default in front of this request
        let pre_wait = match next_unsub {
            Some(i) if !any_pending => pre_done[i] < cfg.pre_ticks.iter().filter(|(k, _)| *k == i).map(|(_, n)| *n).sum::<u32>(),
            _ => false,
        };
        if pre_wait {
            menu.push(CAct::Tick);
        } else if next_unsub.is_some() && !(cfg.sequential && any_pending) {
            menu.push(CAct::Submit);
        } else {
            let mut d = None;
            for &c in &open {
                let gsh = sh.lock().unwrap();
                let (u, age) = (gsh.calls[c].upstream, now.duration_since(gsh.calls[c].at));
                drop(gsh);
                match cfg.ups[u] {
                    UpMode::Answer => d = Some(CAct::Answer(c)),
                    UpMode::Error => d = Some(CAct::Fail(c)),
                    UpMode::Refused => d = Some(CAct::AnswerRcode(c, 5)),
                    UpMode::ServFail => d = Some(CAct::AnswerRcode(c, 2)),
                    UpMode::Silent if age >= UP_TIMEOUT => d = Some(CAct::Timeout(c)),
                    UpMode::Silent => {}
                }
                if d.is_some() {
                    default_call = Some(c);
                    break;
                }
            }
            menu.push(match d {
                Some(a) => a,
                None if any_pending => CAct::Tick,
                None if next_unsub.is_some() => CAct::Submit,
                None => CAct::Finish,
            });
        }
        let default_is_tick = matches!(menu[0], CAct::Tick);
        if next_unsub.is_some() && !matches!(menu[0], CAct::Submit) {
            menu.push(CAct::Submit);
        }
        for &c in &open {
            if !(default_call == Some(c) && matches!(menu[0], CAct::Answer(_))) {
                menu.push(CAct::Answer(c));
            }
            if !(default_call == Some(c) && matches!(menu[0], CAct::Fail(_))) {
                menu.push(CAct::Fail(c));
            }
            if cfg.ups.iter().any(|u| matches!(u, UpMode::Refused | UpMode::ServFail)) {
                for rc in [5u8, 2] {
                    if !(default_call == Some(c) && matches!(menu[0], CAct::AnswerRcode(_, r) if r == rc)) {
                        menu.push(CAct::AnswerRcode(c, rc));
                    }
                }
            }
        }
        // burst-limit cases: time may also pass between two requests
        if (any_pending || (cfg.is_burst() && next_unsub.is_some())) && !default_is_tick {
            menu.push(CAct::Tick);
        }
        for i in 0..core.reqs.len() {
            if core.pending(i) {
                menu.push(CAct::Cancel(i));
            }
        }
        let k = core.choose(menu.len(), "combo-step");
        let act = menu[k].clone();
        core.transitions += 1;
        match act {
            CAct::Submit => {
                let i = next_unsub.unwrap();
                core.count("action.submit");
                // the random draws of this request's Query are environment choices
                RAND_CH.with(|c| *c.borrow_mut() = Some(ch.clone()));
                if let Some(c) = conn.as_ref() {
                    core.submit(c, i);
                }
                core.quiesce(&mut tr);
                RAND_CH.with(|c| *c.borrow_mut() = None);
            }
            CAct::Answer(c) => {
                let (u, caller, id, q) = {
                    let gsh = sh.lock().unwrap();
                    (gsh.calls[c].upstream, gsh.calls[c].caller, gsh.calls[c].id, gsh.calls[c].q)
                };
                let s = core.next_serial();
                let msg = mk_resp(id, q, RKind::Answer, caller, s);
                core.note(format!("upstream {u} answers caller {caller}"));
                core.count("action.upstream.answer");
                core.delivered.push(Delivered { bytes: msg.clone(), udp: false });
                if core.pending(caller) {
                    core.expect.push((caller, msg.clone()));
                }
                up_resolve(&sh, c, Ok(msg));
            }
            CAct::AnswerRcode(c, rc) => {
                let (u, caller, id, q) = {
                    let gsh = sh.lock().unwrap();
                    (gsh.calls[c].upstream, gsh.calls[c].caller, gsh.calls[c].id, gsh.calls[c].q)
                };
                let s = core.next_serial();
                // unique per call: the serial goes into an (ignored) additional A record
                let mut msg = mk_shape(id, q, Shape { rcode: rc, qsel: QSel::Same, tc: false }, caller, s);
                msg[11] = 1;
                msg.extend_from_slice(&[0xC0, 0x0C, 0, 1, 0, 1, 0, 0, 0, 60, 0, 4, 10, caller as u8]);
                msg.extend_from_slice(&s.to_be_bytes());
                core.note(format!("upstream {u} answers caller {caller} with rcode {rc}"));
                core.count("action.upstream.answer-rcode");
                core.delivered.push(Delivered { bytes: msg.clone(), udp: false });
                if core.pending(caller) {
                    if cfg.defer_rcode {
                        deferred_replies.push((caller, msg.clone()));
                    } else {
                        core.expect.push((caller, msg.clone()));
                    }
                }
                up_resolve(&sh, c, Ok(msg));
            }
            CAct::Fail(c) | CAct::Timeout(c) => {
                let timeout = matches!(act, CAct::Timeout(_));
                let (u, caller) = {
                    let gsh = sh.lock().unwrap();
                    (gsh.calls[c].upstream, gsh.calls[c].caller)
                };
                core.note(format!("upstream {u} fails caller {caller}'s request ({})", if timeout { "its own timeout" } else { "transport error" }));
                core.count(if timeout { "action.upstream.timeout" } else { "action.upstream.error" });
                up_resolve(&sh, c, Err(timeout));
            }
            CAct::Tick => {
                core.count("action.tick");
                core.note(format!("virtual time advances by {UP_TICK:?}"));
                ticks += 1;
                if ticks > 24 {
                    break;
                }
                if let (Some(i), false) = (next_unsub, any_pending) {
                    pre_done[i] += 1;
                }
                tokio::time::advance(UP_TICK).await;
            }
            CAct::Cancel(i) => core.cancel(i),
            CAct::Finish => {
                let c = conn.take();
                let _ = guard(move || drop(c));
                core.quiesce(&mut tr);
                break;
            }
        }
    }
    core.quiesce(&mut tr);
    check_synth(&mut core, cfg, &sh, &mut synth_seen);
    if cfg.is_burst() {
        // coverage: how the requests of this execution were served
        let synth: Vec<usize> = core.synth.iter().map(|(i, _)| *i).collect();
        let up_ok = (0..core.reqs.len()).filter(|i| !synth.contains(i) && matches!(core.reqs[*i].result, Some(Res::Ok(_)))).count();
        let k = format!("lb.burst.executions.{}-served-upstream.{}-answered-by-the-transport", up_ok, synth.len());
        core.counters.insert(k, 1);
        if let Some(first) = synth.first() {
            if (first + 1..core.reqs.len()).any(|i| !synth.contains(&i) && matches!(core.reqs[i].result, Some(Res::Ok(_)))) {
                core.counters.insert("lb.burst.executions.served-upstream-again-after-a-made-up-reply".into(), 1);
            }
        }
    }
    {
        let gsh = sh.lock().unwrap();
        let mut per: BTreeMap<usize, std::collections::BTreeSet<usize>> = BTreeMap::new();
        for c in gsh.calls.iter() {
            per.entry(c.caller).or_default().insert(c.upstream);
        }
        if per.values().any(|s| s.len() > 1) {
            core.counters.insert("combo.executions-with-a-second-upstream-tried".into(), 1);
        }
        if gsh.calls.first().map(|c| c.upstream != 0).unwrap_or(false) {
            core.counters.insert("combo.executions-first-call-not-on-upstream-0(probe)".into(), 1);
        }
    }
    core.err_unexamined.clear();
    core.finish();
    let t = tr.take();
    let _ = guard(move || drop(t));
    let _ = guard(move || drop(conn));
}

// ---------------------------------------------------------------------------
// redundant and load_balancer over REAL datagram / stream transports
// ---------------------------------------------------------------------------

/// redundant / load_balancer with two upstreams that are real
/// `dgram::Connection`s (each on its own mock sockets) or real
/// `stream::Connection`s (each on its own mock stream): what the mock peers
/// send travels through the lower transport's matching and then through the
/// upper transport to the caller. Run in the stray-reply pass only.
#[derive(Clone, Debug)]
struct RealCfg {
    lb: bool,
    plan: Vec<usize>,
    stream_ups: bool,
    defer: bool,
    udp_retries: u8,
    /// the peers do not answer by default: time passes instead (retransmissions,
    /// the second upstream, the timeouts of the lower transports all happen by default)
    silent: bool,
}
impl RealCfg {
    fn json(&self) -> Value {
        json!({"real_upstreams": if self.stream_ups { "2 x stream::Connection" } else { "2 x dgram::Connection" }, "plan": self.plan, "defer_transport_error": self.defer, "udp_max_retries": self.udp_retries, "peers_silent_by_default": self.silent})
    }
}

const REAL_STREAM_RT: Duration = Duration::from_millis(2100);

#[derive(Clone, Debug)]
enum RAct {
    Submit,
    /// upstream, index into its waiting callers, reply
    Udp(usize, usize, RKind),
    UdpStray(usize, usize, Stray),
    /// index into entries, reply
    Tcp(usize, RKind),
    TcpStray(usize, Stray),
    TcpStaleStray(usize, Stray),
    Tick,
    Cancel(usize),
    Finish,
}

async fn run_real(g: &Global, cfg: &RealCfg, ch: Arc<Mutex<Chooser>>) {
    use domain::net::client::{load_balancer, redundant};
    let tname = if cfg.lb { "load_balancer" } else { "redundant" };
    let mut core = Core::new(g, tname, cfg.json(), ch.clone(), &cfg.plan);
    const N_UP: usize = 2;
    let dsh: Vec<Arc<Mutex<DgShared>>> = (0..N_UP).map(|_| Arc::new(Mutex::new(DgShared::default()))).collect();
    let sst: Vec<Arc<Mutex<StreamState>>> = (0..N_UP).map(|_| Arc::new(Mutex::new(StreamState::default()))).collect();
    let s_alive: Vec<Arc<AtomicBool>> = (0..N_UP).map(|_| Arc::new(AtomicBool::new(true))).collect();
    let mut runs: Vec<Pin<Box<dyn Future<Output = ()>>>> = Vec::new();
    let mut ups: Vec<Box<dyn SendRequest<Rq> + Send + Sync>> = Vec::new();
    for u in 0..N_UP {
        if cfg.stream_ups {
            let mock = MockStream { st: sst[u].clone(), ch: ch.clone(), wf: WFaults { enabled: false, all_cuts: false } };
            let mut sc = stream::Config::new();
            sc.set_response_timeout(REAL_STREAM_RT);
            sc.set_idle_timeout(Duration::from_secs(600));
            let (c, t) = stream::Connection::<Rq, RqM>::with_config(mock, sc);
            let fl = s_alive[u].clone();
            runs.push(Box::pin(async move {
                t.run().await;
                fl.store(false, Ordering::SeqCst);
            }));
            ups.push(Box::new(c));
        } else {
            let dgc = DgConnect { sh: dsh[u].clone(), ch: ch.clone(), current: core.current.clone(), faults: false };
            let mut dc = dgram::Config::new();
            dc.set_read_timeout(DG_READ_TIMEOUT);
            dc.set_max_retries(cfg.udp_retries);
            config_kept(&g.ctx, "dgram", "read_timeout", format!("{:?}", DG_READ_TIMEOUT), format!("{:?}", dc.read_timeout()));
            config_kept(&g.ctx, "dgram", "max_retries", cfg.udp_retries.to_string(), dc.max_retries().to_string());
            ups.push(Box::new(dgram::Connection::with_config(dgc, dc)));
        }
    }
    let conn: Box<dyn SendRequest<Rq>>;
    let mut tr: Option<Slot<()>>;
    if cfg.lb {
        let mut c = load_balancer::Config::default();
        c.set_defer_transport_error(cfg.defer);
        let (cn, t) = load_balancer::Connection::<Rq>::with_config(c);
        runs.push(Box::pin(t.run()));
        tr = Some(Slot::new(async move {
            futures_util::future::join_all(runs).await;
        }));
        for up in ups {
            let c2 = cn.clone();
            drive_setup(&mut core, &mut tr, async move { c2.add("up", &load_balancer::ConnConfig::new(), up).await });
        }
        conn = Box::new(cn);
    } else {
        let mut c = redundant::Config::default();
        c.set_defer_transport_error(cfg.defer);
        let (cn, t) = redundant::Connection::<Rq>::with_config(c);
        runs.push(Box::pin(t.run()));
        tr = Some(Slot::new(async move {
            futures_util::future::join_all(runs).await;
        }));
        for up in ups {
            let c2 = cn.clone();
            drive_setup(&mut core, &mut tr, async move { c2.add(up).await });
        }
        conn = Box::new(cn);
    }
    let mut conn = Some(conn);
    let mut learnt: Vec<Vec<bool>> = vec![Vec::new(); N_UP];
    let mut entries: Vec<Entry> = Vec::new();
    let mut ticks = 0;

    for _step in 0..64 {
        core.quiesce(&mut tr);
        if core.aborted {
            break;
        }
        for u in 0..N_UP {
            if cfg.stream_ups {
                for f in take_frames(&sst[u]) {
                    let (idx, id, q) = parse_request(&f, "real-upstream stream");
                    if idx >= core.reqs.len() || core.reqs[idx].q != q {
                        eprintln!("MACHINERY: real upstream: frame does not belong to any caller");
                        std::process::exit(2);
                    }
                    core.learn_id(idx, id);
                    let alive = s_alive[u].load(Ordering::SeqCst);
                    entries.push(Entry { conn: u, req: idx, id, q, open: alive });
                    core.note(format!("upstream {u} (stream) sees the request of caller {idx} with id {id}"));
                    core.count(&format!("upstream-call.{u}"));
                }
                if !s_alive[u].load(Ordering::SeqCst) {
                    for e in entries.iter_mut().filter(|e| e.conn == u) {
                        e.open = false;
                    }
                    core.excuse_all = true;
                }
            } else {
                let before = core.reqs.iter().map(|r| r.ids.len()).sum::<usize>();
                dg_learn(&mut core, &dsh[u], &mut learnt[u], 0);
                let after = core.reqs.iter().map(|r| r.ids.len()).sum::<usize>();
                for _ in before..after {
                    core.count(&format!("upstream-call.{u}"));
                }
            }
        }
        // a request whose caller is gone is closed for the peer as well
        for e in entries.iter_mut() {
            if e.open && !core.pending(e.req) {
                e.open = false;
            }
        }
        core.check_spurious();
        let waiting: Vec<Vec<DgWait>> = (0..N_UP).map(|u| if cfg.stream_ups { Vec::new() } else { dg_waiting(&dsh[u]) }).collect();
        let open: Vec<usize> = (0..entries.len()).filter(|i| entries[*i].open).collect();
        let ex = format!(
            "{:?}|{:?}",
            waiting.iter().map(|w| w.iter().map(|x| (x.req, x.prev_id.is_some())).collect::<Vec<_>>()).collect::<Vec<_>>(),
            entries.iter().map(|e| (e.conn, e.req, e.id, e.open)).collect::<Vec<_>>()
        );
        core.state(&ex);

        let next_unsub = (0..core.reqs.len()).find(|i| !core.reqs[*i].submitted);
        let any_pending = (0..core.reqs.len()).any(|i| core.pending(i));
        let first_wait: Option<(usize, usize)> = (0..N_UP).find(|u| !waiting[*u].is_empty()).map(|u| (u, 0));
        let mut menu: Vec<RAct> = Vec::new();
        if next_unsub.is_some() {
            menu.push(RAct::Submit);
        } else if cfg.silent && any_pending {
            menu.push(RAct::Tick);
        } else if let Some((u, k)) = first_wait {
            menu.push(RAct::Udp(u, k, RKind::Answer));
        } else if let Some(&e) = open.first() {
            menu.push(RAct::Tcp(e, RKind::Answer));
        } else if any_pending {
            menu.push(RAct::Tick);
        } else {
            menu.push(RAct::Finish);
        }
        let default_is_tick = matches!(menu[0], RAct::Tick);
        let strays = core.stray_menu();
        for u in 0..N_UP {
            for k in 0..waiting[u].len() {
                if !(matches!(menu[0], RAct::Udp(..)) && first_wait == Some((u, k))) {
                    menu.push(RAct::Udp(u, k, RKind::Answer));
                }
                menu.push(RAct::Udp(u, k, RKind::HdrErr));
                for sy in &strays {
                    menu.push(RAct::UdpStray(u, k, *sy));
                }
            }
        }
        for &e in &open {
            if !(matches!(menu[0], RAct::Tcp(..)) && e == open[0]) {
                menu.push(RAct::Tcp(e, RKind::Answer));
            }
            menu.push(RAct::Tcp(e, RKind::HdrErr));
            for sy in &strays {
                menu.push(RAct::TcpStray(e, *sy));
            }
        }
        for u in 0..N_UP {
            if !cfg.stream_ups || !s_alive[u].load(Ordering::SeqCst) {
                continue;
            }
            // after the genuine answer: the most recently closed request of this connection
            if let Some(c) = (0..entries.len()).rev().find(|i| !entries[*i].open && entries[*i].conn == u) {
                if !open.iter().any(|o| entries[*o].conn == u && entries[*o].id == entries[c].id && entries[*o].q == entries[c].q) {
                    for sy in &strays {
                        menu.push(RAct::TcpStaleStray(c, *sy));
                    }
                }
            }
        }
        if any_pending && !default_is_tick {
            menu.push(RAct::Tick);
        }
        for i in 0..core.reqs.len() {
            if core.pending(i) {
                menu.push(RAct::Cancel(i));
            }
        }
        let k = core.choose(menu.len(), "real-step");
        let act = menu[k].clone();
        core.transitions += 1;
        match act {
            RAct::Submit => {
                let i = next_unsub.unwrap();
                core.count("action.submit");
                // the random draws of this request's Query are environment choices
                RAND_CH.with(|c| *c.borrow_mut() = Some(ch.clone()));
                if let Some(c) = conn.as_ref() {
                    core.submit(c, i);
                }
                core.quiesce(&mut tr);
                RAND_CH.with(|c| *c.borrow_mut() = None);
            }
            RAct::Udp(u, k, kind) => {
                let w = waiting[u][k].clone();
                let sn = core.next_serial();
                let msg = mk_resp(w.id, w.q, kind, w.req, sn);
                core.note(format!("upstream {u} -> caller {} over datagram: {kind:?}", w.req));
                core.count(&format!("action.upstream.udp.{kind:?}"));
                core.delivered.push(Delivered { bytes: msg.clone(), udp: true });
                if core.pending(w.req) {
                    core.expect.push((w.req, msg.clone()));
                }
                dg_feed(&dsh[u], w.sock, Ok(msg));
            }
            RAct::UdpStray(u, k, sy) => {
                let w = waiting[u][k].clone();
                let msg = core.stray(w.id, w.q, sy, w.req);
                core.note(format!("upstream {u} -> caller {} over datagram: stray reply [{}]", w.req, sy.label()));
                core.count(if w.prev_id.is_some() { "action.upstream.udp.stray.during-a-retransmission" } else { "action.upstream.udp.stray.first-transmission" });
                core.delivered.push(Delivered { bytes: msg.clone(), udp: true });
                if neutral(&msg) {
                    // left open by the oracle
                } else if answers(&msg, &[w.id], w.q).is_ok() {
                    if core.pending(w.req) {
                        core.expect.push((w.req, msg.clone()));
                    }
                } else if core.pending(w.req) {
                    core.still_pending.push((w.req, format!("stray reply [{}]", sy.label())));
                }
                dg_feed(&dsh[u], w.sock, Ok(msg));
            }
            RAct::Tcp(e, kind) => {
                let en = entries[e].clone();
                let sn = core.next_serial();
                let msg = mk_resp(en.id, en.q, kind, en.req, sn);
                core.note(format!("upstream {} answers caller {} id {} on its stream with {kind:?}", en.conn, en.req, en.id));
                core.count(&format!("action.upstream.tcp.{kind:?}"));
                feed(&sst[en.conn], framed(&msg));
                let healthy = s_alive[en.conn].load(Ordering::SeqCst);
                account_frame(&mut core, &mut entries, en.conn, healthy, &msg, false);
            }
            RAct::TcpStray(e, sy) | RAct::TcpStaleStray(e, sy) => {
                let en = entries[e].clone();
                let msg = core.stray(en.id, en.q, sy, en.req);
                let stale = matches!(act, RAct::TcpStaleStray(..));
                core.note(format!("upstream {} sends on its stream under id {} ({} caller {}) the stray reply [{}]", en.conn, en.id, if stale { "already answered" } else { "open request of" }, en.req, sy.label()));
                core.count(if stale { "action.upstream.tcp.stray.after-the-answer" } else { "action.upstream.tcp.stray.before-the-answer" });
                feed(&sst[en.conn], framed(&msg));
                let healthy = s_alive[en.conn].load(Ordering::SeqCst);
                account_frame(&mut core, &mut entries, en.conn, healthy, &msg, false);
            }
            RAct::Tick => {
                core.count("action.tick");
                core.note(format!("virtual time advances by {UP_TICK:?}"));
                core.excuse_all = true;
                ticks += 1;
                if ticks > 40 {
                    break;
                }
                tokio::time::advance(UP_TICK).await;
            }
            RAct::Cancel(i) => core.cancel(i),
            RAct::Finish => {
                let c = conn.take();
                let _ = guard(move || drop(c));
                core.quiesce(&mut tr);
                break;
            }
        }
    }
    core.quiesce(&mut tr);
    core.check_spurious();
    core.finish();
    let t = tr.take();
    let _ = guard(move || drop(t));
    let _ = guard(move || drop(conn));
}

// ---------------------------------------------------------------------------
// multi-response (AXFR / IXFR) requests on the stream transport
// ---------------------------------------------------------------------------

const ZONE: &[u8] = b"\x07example\x00";

#[derive(Clone, Copy, Debug, PartialEq, Eq)]
enum XRec {
    Soa(u32),
    A,
}

#[derive(Clone, Debug)]
struct XfrCfg {
    /// 0 AXFR (SOA 7, A, SOA 7); 1 IXFR answered with the single current SOA;
    /// 2 IXFR answered AXFR style; 3 IXFR incremental (SOA 7, SOA 5, A, SOA 7, A, SOA 7)
    shape: u8,
    /// an ordinary single-response request shares the connection
    with_single: bool,
    /// IXFR: serial of the SOA in the request's authority section (None = no
    /// SOA in the request). The server's serial is 7.
    client_serial: Option<u32>,
}
impl XfrCfg {
    fn json(&self) -> Value {
        let name = ["AXFR", "IXFR-single-SOA", "IXFR-as-AXFR", "IXFR-incremental"][self.shape as usize];
        json!({"transfer": name, "with_ordinary_request": self.with_single, "request_soa_serial": self.client_serial})
    }
    /// RFC 1995 section 4 with RFC 1982 comparison: a response that consists
    /// of the server's SOA alone is complete unless the server's serial (7)
    /// is newer than the requester's; without a SOA in the request a lone
    /// SOA is taken as the complete response.
    fn lone_soa_is_complete(&self) -> bool {
        match self.client_serial {
            None => true,
            Some(ours) => (7u32.wrapping_sub(ours) as i32) <= 0,
        }
    }
    fn qtype(&self) -> u16 {
        if self.shape == 0 {
            252
        } else {
            251
        }
    }
    fn script(&self) -> Vec<XRec> {
        match self.shape {
            0 | 2 => vec![XRec::Soa(7), XRec::A, XRec::Soa(7)],
            1 => vec![XRec::Soa(7)],
            _ => vec![XRec::Soa(7), XRec::Soa(5), XRec::A, XRec::Soa(7), XRec::A, XRec::Soa(7)],
        }
    }
}

const XFR_CALLER: usize = 7;

fn soa_rdata(serial: u32) -> Vec<u8> {
    let mut v = b"\x02ns\x07example\x00\x01h\x07example\x00".to_vec();
    v.extend_from_slice(&serial.to_be_bytes());
    for x in [3600u32, 600, 86400, 60] {
        v.extend_from_slice(&x.to_be_bytes());
    }
    v
}

fn xfr_request_bytes(cfg: &XfrCfg) -> Vec<u8> {
    let ns: u16 = cfg.client_serial.is_some() as u16;
    let mut v = vec![0, 0, 0x00, (XFR_CALLER as u8) << 4, 0, 1, 0, 0];
    v.extend_from_slice(&ns.to_be_bytes());
    v.extend_from_slice(&[0, 0]);
    v.extend_from_slice(ZONE);
    v.extend_from_slice(&cfg.qtype().to_be_bytes());
    v.extend_from_slice(&[0, 1]);
    if ns == 1 {
        // IXFR: the client's current SOA in the authority section
        v.extend_from_slice(ZONE);
        v.extend_from_slice(&[0, 6, 0, 1, 0, 0, 0, 60]);
        let rd = soa_rdata(cfg.client_serial.unwrap());
        v.extend_from_slice(&(rd.len() as u16).to_be_bytes());
        v.extend_from_slice(&rd);
    }
    v
}

/// One response message of a transfer. `ttl` makes every message unique.
fn mk_xfr_msg(id: u16, question: Option<(&[u8], u16)>, rcode: u8, recs: &[XRec], ttl: u32) -> Vec<u8> {
    let mut v = Vec::new();
    v.extend_from_slice(&id.to_be_bytes());
    v.extend_from_slice(&(0x8400u16 | rcode as u16).to_be_bytes());
    v.extend_from_slice(&(question.is_some() as u16).to_be_bytes());
    v.extend_from_slice(&(recs.len() as u16).to_be_bytes());
    v.extend_from_slice(&[0, 0, 0, 0]);
    if let Some((name, qt)) = question {
        v.extend_from_slice(name);
        v.extend_from_slice(&qt.to_be_bytes());
        v.extend_from_slice(&[0, 1]);
    }
    for r in recs {
        match r {
            XRec::Soa(serial) => {
                v.extend_from_slice(ZONE);
                v.extend_from_slice(&[0, 6, 0, 1]);
                v.extend_from_slice(&ttl.to_be_bytes());
                let rd = soa_rdata(*serial);
                v.extend_from_slice(&(rd.len() as u16).to_be_bytes());
                v.extend_from_slice(&rd);
            }
            XRec::A => {
                v.extend_from_slice(b"\x01a\x07example\x00");
                v.extend_from_slice(&[0, 1, 0, 1]);
                v.extend_from_slice(&ttl.to_be_bytes());
                v.extend_from_slice(&[0, 4, 10, 9, 9, 9]);
            }
        }
    }
    v
}

#[derive(Clone, Debug, PartialEq, Eq)]
enum XRes {
    Msg(Vec<u8>),
    End,
    Err(String),
}

#[derive(Clone, Debug)]
enum XAct {
    SubmitXfr,
    SubmitSingle,
    /// next k records of the transfer, with (true) or without the question
    Segment(usize, bool),
    AnswerSingle,
    /// faults aimed at the transfer
    XWrongQuestion,
    XRefused,
    XHdrErr,
    XNonSoa,
    XBadSoa,
    XUnknownId,
    /// the ordinary request's answer under the transfer's ID / a transfer segment under the ordinary request's ID
    SingleUnderXfrId,
    SegmentUnderSingleId,
    /// one more message under the transfer's ID after it has ended
    XStale,
    /// a question-less stray reply under the transfer's ID (stray pass)
    XStray(Stray),
    /// the peer stays silent for just over the response timeout
    Tick,
    Eof,
    Short,
    CancelXfr,
    CancelSingle,
    Finish,
}

/// A message under the transfer's ID reaches the client.
fn xfr_send(core: &mut Core, entries: &mut [Entry], xfr_delivered: &mut Vec<Vec<u8>>, st: &Arc<Mutex<StreamState>>, msg: Vec<u8>, what: &str) {
    core.note(format!("peer sends under the transfer's id: {what}"));
    core.delivered.push(Delivered { bytes: msg.clone(), udp: false });
    xfr_delivered.push(msg.clone());
    for i in 0..core.reqs.len() {
        if core.pending(i) {
            core.last_traffic[i] = Some(Instant::now());
        }
    }
    // the transfer's slot may meanwhile belong to the ordinary request
    if msg.len() >= 2 {
        let id = u16::from_be_bytes([msg[0], msg[1]]);
        if let Some(e) = entries.iter_mut().find(|e| e.open && e.id == id) {
            e.open = false;
            core.excused[e.req] = true;
        }
    }
    feed(st, framed(&msg));
}

async fn run_xfr(g: &Global, cfg: &XfrCfg, ch: Arc<Mutex<Chooser>>) {
    use domain::net::client::request::SendRequestMulti;
    let plan: Vec<usize> = if cfg.with_single { vec![0] } else { vec![] };
    let mut core = Core::new(g, "stream_xfr", cfg.json(), ch.clone(), &plan);
    let st = Arc::new(Mutex::new(StreamState::default()));
    let mock = MockStream { st: st.clone(), ch: ch.clone(), wf: WFaults { enabled: false, all_cuts: false } };
    let mut sc = stream::Config::new();
    sc.set_response_timeout(Duration::from_secs(2)); // also the streaming response timeout
    let (conn, transport) = stream::Connection::<Rq, RqM>::with_config(mock, sc);
    let mut conn = Some(conn);
    let mut tr = Some(Slot::new(transport.run()));
    let mut model_done = false; // the transfer is over by the reference reading
    let mut timeout_due = false; // the connection has been silent for more than the response timeout
    let mut entries: Vec<Entry> = Vec::new(); // the ordinary request only
    let seen: Arc<Mutex<Vec<XRes>>> = Arc::new(Mutex::new(Vec::new()));
    let script = cfg.script();
    let qt = cfg.qtype();
    let mut xfr_submitted = false;
    let mut xfr_cancelled = false;
    let mut xfr_id: Option<u16> = None;
    let mut sent_recs = 0usize; // records of the script delivered so far
    let mut clean = true; // no fault aimed at the transfer so far
    let mut xfr_delivered: Vec<Vec<u8>> = Vec::new(); // every complete message sent under the transfer's ID
    let mut expect_seen: Vec<XRes> = Vec::new(); // what the caller must have seen (clean transfers)
    let mut checked = 0usize; // observed results already checked against xfr_delivered
    let mut dptr = 0usize;
    let mut fatal = false;
    let mut ttl = 100u32;

    for _step in 0..64 {
        core.quiesce(&mut tr);
        if core.aborted {
            break;
        }
        for f in take_frames(&st) {
            let m = match wire::read_message(&f) {
                Ok(m) => m,
                Err(e) => wire_violation("xfr", "does-not-parse", &e.to_string(), &f),
            };
            let idx = ((m.flags >> 4) & 7) as usize;
            if idx == XFR_CALLER {
                let mut p = Vec::new();
                let want = wire::read_name(ZONE, 0, &mut p).unwrap().0;
                if m.questions.len() != 1 || m.questions[0].qname != want || m.questions[0].qtype != qt {
                    core.violate("C15|stream_xfr|request-on-wire|question-changed".into(), format!("the transfer request went out as {}", hex(&f)));
                }
                xfr_id = Some(m.id);
                core.note(format!("peer sees the transfer request with id {}", m.id));
            } else {
                let (i2, id, q) = parse_request(&f, "xfr-single");
                core.learn_id(i2, id);
                entries.push(Entry { conn: 0, req: i2, id, q, open: !fatal });
                core.note(format!("peer sees the ordinary request with id {id}"));
            }
        }
        let tr_alive = tr.as_ref().map(|t| t.alive()).unwrap_or(false);
        let healthy = !fatal && tr_alive;
        if !healthy {
            core.excuse_all = true;
            for e in entries.iter_mut() {
                e.open = false;
            }
        }
        core.check_spurious();
        // ---- oracle on what the transfer's caller has been handed
        let obs: Vec<XRes> = seen.lock().unwrap().clone();
        for r in &obs[checked..] {
            match r {
                XRes::Msg(b) => {
                    // handed messages are the delivered ones, in order, none twice
                    match xfr_delivered[dptr..].iter().position(|d| d == b) {
                        Some(k) => dptr += k + 1,
                        None => core.violate(
                            "C15|stream_xfr|handed-message|not-delivered-under-its-id-or-out-of-order".into(),
                            format!("the transfer's caller was handed {} which the peer did not send under id {xfr_id:?} after the previously handed message", hex(b)),
                        ),
                    }
                    if checked == 0 {
                        let m = wire::read_message(b).ok();
                        let mut p = Vec::new();
                        let want = wire::read_name(ZONE, 0, &mut p).unwrap().0;
                        let okq = m.map(|m| (m.questions.len() == 1 && m.questions[0].qname == want && m.questions[0].qtype == qt) || (m.flags & 0xF != 0 && m.counts == [0, 0, 0, 0])).unwrap_or(false);
                        if !okq {
                            match core.stray_msgs.iter().find(|(m, _, _)| m == b).map(|(_, f, l)| (*f, l.clone())) {
                                Some((fam, label)) => core.violate(
                                    format!("C15|stream_xfr|stray-reply-accepted|{fam}|first-message-question-mismatch"),
                                    format!("the stray reply [{label}] was handed to the transfer's caller as its first response: {}", hex(b)),
                                ),
                                None => core.violate("C15|stream_xfr|handed-message|first-message-question-mismatch".into(), format!("first message handed to the transfer's caller: {}", hex(b))),
                            }
                        }
                    }
                }
                XRes::End => core.count("xfr.end-of-stream"),
                XRes::Err(e) => {
                    let k = format!("xfr.err.{e}");
                    core.count(&k);
                    if clean && healthy {
                        core.violate(format!("C15|stream_xfr|spurious-error|{e}"), format!("the transfer's caller got Err({e}) although the peer sent a well-formed transfer on a healthy connection"));
                    }
                }
            }
            checked += 1;
        }
        if clean && healthy && !xfr_cancelled && obs != expect_seen {
            core.violate(
                "C15|stream_xfr|well-formed-transfer|caller-view-differs".into(),
                format!("peer sent {} well-formed message(s) (transfer {}complete); caller saw {:?}", expect_seen.iter().filter(|x| matches!(x, XRes::Msg(_))).count(), if expect_seen.last() == Some(&XRes::End) { "" } else { "in" }, obs.iter().map(|x| match x { XRes::Msg(b) => format!("msg[{}]", b.len()), o => format!("{o:?}") }).collect::<Vec<_>>()),
            );
            clean = false; // report once
        }
        let xfr_done = matches!(obs.last(), Some(XRes::End) | Some(XRes::Err(_)));
        if timeout_due && healthy && xfr_submitted && !xfr_cancelled && !xfr_done && xfr_id.is_some() {
            core.violate(
                "C15|stream_xfr|budget|transfer-pending-after-response-timeout".into(),
                format!("the transfer's caller is still waiting although the connection has been silent for more than the response timeout; it saw {} item(s)", obs.len()),
            );
        }
        timeout_due = false;
        let ex = format!("x{}{}{}|s{}|c{}|o{}|e{:?}", xfr_submitted as u8, xfr_id.is_some() as u8, xfr_done as u8, sent_recs, clean as u8, obs.len(), entries.iter().map(|e| e.open).collect::<Vec<_>>());
        core.state(&ex);

        // ---- menu
        let single_unsub = cfg.with_single && !core.reqs[0].submitted;
        let single_open: Option<usize> = (0..entries.len()).find(|i| entries[*i].open);
        let remaining = script.len() - sent_recs;
        let xfr_active = xfr_id.is_some() && healthy;
        let mut menu: Vec<XAct> = Vec::new();
        let default = if !xfr_submitted {
            XAct::SubmitXfr
        } else if single_unsub {
            XAct::SubmitSingle
        } else if xfr_active && remaining > 0 && !xfr_done && !model_done {
            XAct::Segment(remaining, true)
        } else if xfr_active && !xfr_done && !model_done && !xfr_cancelled {
            // everything sent, yet the transfer is not complete: the peer falls silent
            XAct::Tick
        } else if healthy && single_open.is_some() {
            XAct::AnswerSingle
        } else {
            XAct::Finish
        };
        menu.push(default.clone());
        if healthy {
            if xfr_active && remaining > 0 {
                for k in 1..=remaining {
                    for q in [true, false] {
                        if !(k == remaining && q && !xfr_done && !model_done) {
                            menu.push(XAct::Segment(k, q));
                        }
                    }
                }
            }
            if single_open.is_some() && !matches!(default, XAct::AnswerSingle) {
                menu.push(XAct::AnswerSingle);
            }
            if xfr_active {
                if remaining > 0 {
                    menu.push(XAct::XWrongQuestion);
                    menu.push(XAct::XRefused);
                    menu.push(XAct::XHdrErr);
                    menu.push(XAct::XBadSoa);
                    if sent_recs == 0 {
                        menu.push(XAct::XNonSoa);
                    }
                    if single_open.is_some() {
                        menu.push(XAct::SingleUnderXfrId);
                        menu.push(XAct::SegmentUnderSingleId);
                    }
                } else {
                    menu.push(XAct::XStale);
                }
                menu.push(XAct::XUnknownId);
                if core.stray_mode() {
                    // the question-less family, as the first message, between
                    // segments, and after the end
                    for sy in core.stray_menu() {
                        if matches!(sy, Stray::NoQ(..)) {
                            menu.push(XAct::XStray(sy));
                        }
                    }
                }
                if !xfr_done && !matches!(default, XAct::Tick) {
                    menu.push(XAct::Tick);
                }
            }
            menu.push(XAct::Eof);
            menu.push(XAct::Short);
        }
        if xfr_submitted && !xfr_cancelled && !xfr_done {
            menu.push(XAct::CancelXfr);
        }
        if cfg.with_single && core.pending(0) {
            menu.push(XAct::CancelSingle);
        }
        let k = core.choose(menu.len(), "xfr-step");
        let act = menu[k].clone();
        core.transitions += 1;
        ttl += 1;
        let xid = xfr_id.unwrap_or(0);
        match act {
            XAct::SubmitXfr => {
                xfr_submitted = true;
                core.count("action.submit-transfer");
                core.note(format!("submit the {} request", if qt == 252 { "AXFR" } else { "IXFR" }));
                let msg = Message::from_octets(xfr_request_bytes(cfg)).expect("xfr request");
                let rq = match RequestMessageMulti::new(msg) {
                    Ok(r) => r,
                    Err(_) => {
                        eprintln!("MACHINERY: RequestMessageMulti::new refused the transfer request");
                        std::process::exit(2);
                    }
                };
                if let Some(c) = conn.as_ref() {
                    match guard(|| SendRequestMulti::send_request(c, rq)) {
                        Ok(r) => {
                            let seen2 = seen.clone();
                            core.extra = Some(Slot::new(async move {
                                let mut r = r;
                                loop {
                                    let x = r.get_response().await;
                                    let (item, stop) = match x {
                                        Ok(Some(m)) => (XRes::Msg(m.as_slice().to_vec()), false),
                                        Ok(None) => (XRes::End, true),
                                        Err(e) => (XRes::Err(err_class(&e)), true),
                                    };
                                    seen2.lock().unwrap().push(item);
                                    if stop {
                                        break;
                                    }
                                }
                            }));
                        }
                        Err(pm) => core.panic("send_request-multi", pm),
                    }
                }
            }
            XAct::SubmitSingle => {
                core.count("action.submit");
                if let Some(c) = conn.as_ref() {
                    core.submit(c, 0);
                }
            }
            XAct::Segment(k, q) => {
                let recs = &script[sent_recs..sent_recs + k];
                let first = sent_recs == 0;
                let msg = mk_xfr_msg(xid, if q { Some((ZONE, qt)) } else { None }, 0, recs, ttl);
                core.count(&format!("action.segment.{}records.q{}", k, q as u8));
                sent_recs += k;
                // RFC 5936 2.2: the first message must carry the question, later ones may omit it (AXFR).
                // The library accepts an omitted question in later messages for AXFR only.
                let well_formed = q || (!first && cfg.shape == 0);
                if !well_formed || (cfg.shape != 0 && !q) {
                    clean = false;
                }
                // after the end (by the reference reading) anything more is a stray message
                if model_done {
                    clean = false;
                }
                // IXFR: a first message holding nothing but the server's SOA
                // is the complete answer unless the server's serial is newer
                // than the one in the request (then the rest is still to come)
                let lone = cfg.shape >= 1 && first && k == 1;
                let lone_complete = lone && cfg.lone_soa_is_complete();
                if lone {
                    core.count(if lone_complete { "xfr.ixfr-lone-soa.complete" } else { "xfr.ixfr-lone-soa.more-to-come" });
                }
                if clean {
                    expect_seen.push(XRes::Msg(msg.clone()));
                    if lone_complete || (sent_recs == script.len() && !lone) {
                        expect_seen.push(XRes::End);
                        model_done = true;
                    }
                }
                xfr_send(&mut core, &mut entries, &mut xfr_delivered, &st, msg, &format!("{k} record(s) {:?}, question {}", recs, if q { "present" } else { "omitted" }));
            }
            XAct::AnswerSingle => {
                let en = entries[single_open.unwrap()].clone();
                let sn = core.next_serial();
                let msg = mk_resp(en.id, en.q, RKind::Answer, en.req, sn);
                core.note(format!("peer answers the ordinary request id {}", en.id));
                core.count("action.deliver.Answer");
                feed(&st, framed(&msg));
                account_frame(&mut core, &mut entries, 0, healthy, &msg, false);
            }
            XAct::XWrongQuestion => {
                clean = false;
                core.count("action.xfr-fault.wrong-question");
                let msg = mk_xfr_msg(xid, Some((b"\x05other\x00", qt)), 0, &script[sent_recs..sent_recs + 1], ttl);
                xfr_send(&mut core, &mut entries, &mut xfr_delivered, &st, msg, "a message with another question");
            }
            XAct::XRefused => {
                clean = false;
                core.count("action.xfr-fault.refused");
                let msg = mk_xfr_msg(xid, Some((ZONE, qt)), 5, &[], ttl);
                xfr_send(&mut core, &mut entries, &mut xfr_delivered, &st, msg, "REFUSED with the question");
            }
            XAct::XHdrErr => {
                clean = false;
                core.count("action.xfr-fault.header-only-error");
                let msg = mk_xfr_msg(xid, None, 2, &[], ttl);
                xfr_send(&mut core, &mut entries, &mut xfr_delivered, &st, msg, "a header-only SERVFAIL");
            }
            XAct::XNonSoa => {
                clean = false;
                core.count("action.xfr-fault.non-soa-first");
                let msg = mk_xfr_msg(xid, Some((ZONE, qt)), 0, &[XRec::A], ttl);
                xfr_send(&mut core, &mut entries, &mut xfr_delivered, &st, msg, "a first message that does not start with a SOA");
            }
            XAct::XBadSoa => {
                clean = false;
                core.count("action.xfr-fault.bad-soa");
                let msg = mk_xfr_msg(xid, Some((ZONE, qt)), 0, &[XRec::Soa(99)], ttl);
                xfr_send(&mut core, &mut entries, &mut xfr_delivered, &st, msg, "a SOA with an unrelated serial");
            }
            XAct::XUnknownId => {
                core.count("action.xfr-fault.unknown-id");
                let msg = mk_xfr_msg(9, Some((ZONE, qt)), 0, &[XRec::Soa(7)], ttl);
                core.note("peer sends a transfer message under an id nobody uses".into());
                core.delivered.push(Delivered { bytes: msg.clone(), udp: false });
                core.excuse_all = true;
                feed(&st, framed(&msg));
            }
            XAct::SingleUnderXfrId => {
                clean = false;
                core.count("action.xfr-fault.single-answer-under-transfer-id");
                let en = entries[single_open.unwrap()].clone();
                let sn = core.next_serial();
                let msg = mk_resp(xid, en.q, RKind::Answer, en.req, sn);
                xfr_send(&mut core, &mut entries, &mut xfr_delivered, &st, msg, "the ordinary request's answer");
            }
            XAct::SegmentUnderSingleId => {
                core.count("action.xfr-fault.segment-under-single-id");
                let en = entries[single_open.unwrap()].clone();
                let msg = mk_xfr_msg(en.id, Some((ZONE, qt)), 0, &script[sent_recs..sent_recs + 1], ttl);
                core.note("peer sends a transfer message under the ordinary request's id".into());
                feed(&st, framed(&msg));
                account_frame(&mut core, &mut entries, 0, healthy, &msg, false);
            }
            XAct::XStray(sy) => {
                clean = false;
                core.excuse_all = true;
                core.count(if sent_recs == 0 { "action.xfr-fault.stray.as-first-message" } else if remaining > 0 { "action.xfr-fault.stray.between-segments" } else { "action.xfr-fault.stray.after-the-last-segment" });
                let msg = core.stray(xid, 0, sy, XFR_CALLER);
                xfr_send(&mut core, &mut entries, &mut xfr_delivered, &st, msg, &format!("the stray reply [{}]", sy.label()));
            }
            XAct::XStale => {
                core.count("action.xfr-fault.message-after-end");
                clean = false; // (it is a continuation if the transfer is still open)
                let msg = mk_xfr_msg(xid, Some((ZONE, qt)), 0, &[XRec::A], ttl);
                core.excuse_all = true;
                xfr_send(&mut core, &mut entries, &mut xfr_delivered, &st, msg, "one more message after the transfer has ended");
            }
            XAct::Tick => {
                core.count("action.tick");
                core.note("the peer is silent for 2001 ms".into());
                clean = false; // from here on only the timeout rule applies
                core.excuse_all = true;
                timeout_due = true;
                tokio::time::advance(Duration::from_millis(2001)).await;
            }
            XAct::Eof | XAct::Short => {
                if matches!(act, XAct::Short) {
                    core.note("peer sends an 11-octet frame".into());
                    core.count("action.deliver.Short");
                    feed(&st, framed(&[0xEE; 11]));
                } else {
                    core.note("peer closes (EOF)".into());
                    core.count("action.eof");
                    feed_eof(&st, false);
                }
                fatal = true;
                for e in entries.iter_mut() {
                    e.open = false;
                }
            }
            XAct::CancelXfr => {
                xfr_cancelled = true;
                core.note("cancel (drop) the transfer request".into());
                core.count("action.cancel");
                if let Some(mut x) = core.extra.take() {
                    if let Err(pm) = x.cancel() {
                        core.panic("multi-response-request-drop", pm);
                    }
                }
            }
            XAct::CancelSingle => core.cancel(0),
            XAct::Finish => {
                let c = conn.take();
                let _ = guard(move || drop(c));
                core.excuse_all = true;
                core.quiesce(&mut tr);
                let done = matches!(seen.lock().unwrap().last(), Some(XRes::End) | Some(XRes::Err(_)));
                if (cfg.with_single && core.pending(0)) || (xfr_submitted && !xfr_cancelled && !done) {
                    core.note("peer closes (EOF) to end the run".into());
                    feed_eof(&st, false);
                    core.quiesce(&mut tr);
                }
                break;
            }
        }
    }
    core.quiesce(&mut tr);
    core.err_unexamined.clear();
    let obs = seen.lock().unwrap().clone();
    if xfr_submitted && !xfr_cancelled && !core.aborted && !matches!(obs.last(), Some(XRes::End) | Some(XRes::Err(_))) {
        core.violate("C15|stream_xfr|completion|transfer-never-ends".into(), format!("the transfer's caller is still waiting after the peer closed; it saw {} item(s)", obs.len()));
    }
    let nmsg = obs.iter().filter(|x| matches!(x, XRes::Msg(_))).count();
    core.counters.insert(format!("xfr.caller-saw-{nmsg}-messages"), 1);
    core.finish();
    let x = core.extra.take();
    let _ = guard(move || drop(x));
    let t = tr.take();
    let _ = guard(move || drop(t));
}

// ---------------------------------------------------------------------------
// driver
// ---------------------------------------------------------------------------

#[derive(Clone, Debug)]
enum Case {
    Stream(StreamCfg),
    Dgram(DgramCfg),
    Multi(MultiCfg),
    Combo(ComboCfg),
    Real(RealCfg),
    Xfr(XfrCfg),
}

impl Case {
    fn callers(&self) -> usize {
        match self {
            Case::Stream(c) => c.plan.len(),
            Case::Dgram(c) => c.plan.len(),
            Case::Multi(c) => c.plan.len(),
            Case::Combo(c) => c.plan.len(),
            Case::Real(c) => c.plan.len(),
            Case::Xfr(c) => 1 + c.with_single as usize,
        }
    }
    fn tname(&self) -> &'static str {
        match self {
            Case::Stream(_) => "stream",
            Case::Dgram(_) => "dgram",
            Case::Multi(c) => {
                if c.dgram_first {
                    "dgram_stream"
                } else {
                    "multi_stream"
                }
            }
            Case::Combo(c) => {
                if c.lb {
                    "load_balancer"
                } else {
                    "redundant"
                }
            }
            Case::Real(c) => {
                if c.lb {
                    "load_balancer"
                } else {
                    "redundant"
                }
            }
            Case::Xfr(_) => "stream_xfr",
        }
    }
    /// Is this case run in the stray-reply pass?
    fn in_stray_pass(&self) -> bool {
        match self {
            Case::Stream(c) => !c.edns && c.never_answer.is_none() && c.rt_ms == ST_RT_MS && (c.idle_ms == ST_IDLE_MS || (c.plan.len() == 2 && !c.silent)),
            Case::Dgram(c) => !c.edns && !c.udp_size_none && c.recv_size.is_none() && c.max_par > 0,
            // coarse time: all but the variants that differ only in connect
            // refusal or (two callers) in the datagram retry count; fine time:
            // one datagram transmission lost by default (the stray meets the
            // retransmission), and the stream peer that closes by default
            Case::Multi(c) if c.fine => c.plan.len() == 1 && ((c.dgram_first && c.udp_lost == 1 && !c.tcp_silent) || (!c.dgram_first && c.tcp_close_default)),
            Case::Multi(c) => !c.allow_refuse && !(c.dgram_first && c.plan.len() == 2 && c.udp_retries == 1),
            Case::Combo(_) => false,
            Case::Real(_) => true,
            Case::Xfr(_) => true,
        }
    }
    /// ... and in no other pass?
    fn stray_pass_only(&self) -> bool {
        matches!(self, Case::Real(_))
    }
    fn cfg_json(&self) -> Value {
        match self {
            Case::Stream(c) => c.json(),
            Case::Dgram(c) => c.json(),
            Case::Multi(c) => c.json(),
            Case::Combo(c) => c.json(),
            Case::Real(c) => c.json(),
            Case::Xfr(c) => c.json(),
        }
    }
}

fn all_cases() -> Vec<Case> {
    let mut cases: Vec<Case> = Vec::new();
    for c in stream_cfgs() {
        cases.push(Case::Stream(c));
    }
    for c in dgram_cfgs().into_iter().chain(dgram_half_cfgs()).chain(dgram_config_cfgs()) {
        cases.push(Case::Dgram(c));
    }
    for c in multi_cfgs() {
        cases.push(Case::Multi(c));
    }
    for c in combo_cfgs() {
        cases.push(Case::Combo(c));
    }
    for c in real_cfgs() {
        cases.push(Case::Real(c));
    }
    for with_single in [false, true] {
        cases.push(Case::Xfr(XfrCfg { shape: 0, with_single, client_serial: None }));
        // IXFR: the requester has no SOA / is ahead of (9), level with (7), behind (5) the server (7)
        for shape in 1..4u8 {
            for client_serial in [None, Some(9), Some(7), Some(5)] {
                cases.push(Case::Xfr(XfrCfg { shape, with_single, client_serial }));
            }
        }
    }
    cases
}

fn run_case(g: &Global, case: &Case, ch: &mut Chooser) {
    let shared = Arc::new(Mutex::new(std::mem::take(ch)));
    {
        let prefix = shared.lock().unwrap().clone();
        let all_cuts = g.all_cuts.load(Ordering::Relaxed);
        let full_shapes = g.full_shapes.load(Ordering::Relaxed);
        let stray_mode = g.stray_mode.load(Ordering::Relaxed);
        g.wd.enter(move || json!({"transport": case.tname(), "cfg": case.cfg_json(), "all_cuts": all_cuts, "full_shapes": full_shapes, "stray_mode": stray_mode, "choices_prefix_debug": format!("{prefix:?}"), "note": "the execution that follows this choice prefix with default choices did not terminate"}));
    }
    let rt = tokio::runtime::Builder::new_current_thread().enable_time().start_paused(true).build().expect("runtime");
    let sh2 = shared.clone();
    rt.block_on(async move {
        match case {
            Case::Stream(c) => run_stream(g, c, sh2).await,
            Case::Dgram(c) => run_dgram(g, c, sh2).await,
            Case::Multi(c) => run_multi(g, c, sh2).await,
            Case::Combo(c) => run_combo(g, c, sh2).await,
            Case::Real(c) => run_real(g, c, sh2).await,
            Case::Xfr(c) => run_xfr(g, c, sh2).await,
        }
    });
    drop(rt);
    RAND_CH.with(|c| *c.borrow_mut() = None);
    g.wd.leave();
    *ch = shared.lock().unwrap().clone();
}

fn stream_cfgs() -> Vec<StreamCfg> {
    let mut v = Vec::new();
    let base = |plan: Vec<usize>, idle_ms: u64| StreamCfg { wave1: plan.len(), plan, idle_ms, rt_ms: ST_RT_MS, silent: false, gap_ms: 0, never_answer: None, edns: false };
    for plan in [vec![0], vec![0, 0], vec![0, 1], vec![0, 0, 1]] {
        for idle_ms in [ST_IDLE_MS, 0] {
            v.push(base(plan.clone(), idle_ms));
        }
    }
    // four concurrent, then two more into recycled slots
    v.push(StreamCfg { wave1: 4, ..base(vec![0, 0, 1, 1, 0, 1], ST_IDLE_MS) });
    // the peer never answers unless the environment deviates
    for plan in [vec![0], vec![0, 0], vec![0, 0, 1]] {
        v.push(StreamCfg { silent: true, ..base(plan, ST_IDLE_MS) });
    }
    // requests with EDNS data (DO, NSID option, payload size, extra additional record)
    v.push(StreamCfg { edns: true, ..base(vec![0, 0], ST_IDLE_MS) });
    v.push(StreamCfg { edns: true, ..base(vec![0, 1], 0) });
    // a configured (non-default) response timeout
    for plan in [vec![0], vec![0, 0]] {
        v.push(StreamCfg { silent: true, rt_ms: 1000, ..base(plan, ST_IDLE_MS) });
    }
    // idle timeout far larger than the response timeout, one of three callers
    // never answered: it must still go at the response timeout
    v.push(StreamCfg { rt_ms: 2000, never_answer: Some(1), ..base(vec![0, 0, 1], 60_000) });
    v.push(StreamCfg { rt_ms: 2000, never_answer: Some(0), ..base(vec![0, 1], 60_000) });
    // second request after the connection has been idle for just below / exactly / just above the idle timeout
    for gap_ms in [ST_IDLE_MS - 1, ST_IDLE_MS, ST_IDLE_MS + 1] {
        v.push(StreamCfg { wave1: 1, gap_ms, ..base(vec![0, 0], ST_IDLE_MS) });
    }
    // ... and a different question arriving in the recycled slot just before the idle timeout
    v.push(StreamCfg { wave1: 1, gap_ms: ST_IDLE_MS - 1, ..base(vec![0, 1], ST_IDLE_MS) });
    v
}

fn dgram_cfgs() -> Vec<DgramCfg> {
    let mut v = Vec::new();
    for plan in [vec![0], vec![0, 0], vec![0, 1], vec![0, 0, 1]] {
        for retries in [0u8, 2] {
            for silent in [false, true] {
                let pars: &[usize] = match plan.len() {
                    1 => &[100],
                    2 => &[100, 1],
                    _ => &[2], // three callers, two permits
                };
                for &max_par in pars {
                    v.push(DgramCfg { plan: plan.clone(), retries, silent, max_par, half_ticks: false, edns: false, udp_size_none: false, recv_size: None });
                }
            }
        }
    }
    v
}

/// Configuration paths of the datagram transport: EDNS requests with and
/// without the transport's own payload size, a receive buffer shorter than
/// the answers, max_parallel below its minimum.
fn dgram_config_cfgs() -> Vec<DgramCfg> {
    let base = DgramCfg { plan: vec![0], retries: 2, silent: false, max_par: 100, half_ticks: false, edns: false, udp_size_none: false, recv_size: None };
    vec![
        DgramCfg { edns: true, ..base.clone() },
        DgramCfg { edns: true, udp_size_none: true, ..base.clone() },
        DgramCfg { udp_size_none: true, ..base.clone() },
        // every answer arrives cut and is ignored: the default is that time passes
        DgramCfg { recv_size: Some(20), retries: 0, silent: true, ..base.clone() },
        DgramCfg { plan: vec![0, 0], max_par: 0, retries: 0, ..base.clone() },
    ]
}

/// Silent peer, time passing in half read-timeout steps: stray datagrams can
/// be interleaved without any silent gap reaching the read timeout.
fn dgram_half_cfgs() -> Vec<DgramCfg> {
    let mut v = Vec::new();
    for plan in [vec![0], vec![0, 0]] {
        for retries in [0u8, 2] {
            v.push(DgramCfg { plan: plan.clone(), retries, silent: true, max_par: 100, half_ticks: true, edns: false, udp_size_none: false, recv_size: None });
        }
    }
    v
}

fn combo_cfgs() -> Vec<ComboCfg> {
    let mut v = Vec::new();
    let base = |lb: bool, plan: Vec<usize>, ups: Vec<UpMode>, defer: bool| ComboCfg { lb, plan, ups, defer, bursts: Vec::new(), interval_ms: 0, pre_ticks: Vec::new(), sequential: false, defer_rcode: false, edns: false };
    let modes = [UpMode::Answer, UpMode::Error, UpMode::Silent];
    for lb in [false, true] {
        for defer in [false, true] {
            for a in modes {
                for b in modes {
                    for plan in [vec![0], vec![0, 0]] {
                        v.push(base(lb, plan, vec![a, b], defer));
                    }
                }
            }
            // three upstreams (the probe index is a real choice), requests one after the other
            v.push(ComboCfg { sequential: true, ..base(lb, vec![0, 1], vec![UpMode::Silent, UpMode::Error, UpMode::Answer], defer) });
        }
    }
    // upstreams answering REFUSED / SERVFAIL, with and without deferring such answers
    for lb in [false, true] {
        for defer_rcode in [false, true] {
            for ups in [vec![UpMode::Refused, UpMode::Answer], vec![UpMode::Answer, UpMode::ServFail], vec![UpMode::ServFail, UpMode::Refused], vec![UpMode::Refused, UpMode::Error]] {
                v.push(ComboCfg { defer_rcode, ..base(lb, vec![0], ups, defer_rcode) });
            }
        }
    }
    v.extend(burst_cfgs());
    v
}

/// The load balancer's per-upstream burst limits: max_burst {None, 0, 1, 2}
/// per upstream x burst interval {one time step, the default second, an hour}
/// x as many requests as every upstream's allowance plus two (so that the
/// run passes through "no upstream limited", "some limited", "all limited",
/// and the transport answers at least two requests itself), the questions
/// alternating; with and without time passing in front of the first request
/// beyond the allowance (exactly one interval, two intervals) or of the last
/// request (more than the default interval); upstreams that fail or stay
/// silent; requests submitted together; requests in the EDNS form.
fn burst_cfgs() -> Vec<ComboCfg> {
    let mut v = Vec::new();
    let mk = |bursts: Vec<Option<u64>>, ups: Vec<UpMode>| {
        // requests every limited upstream takes per interval, by the most
        // generous reading (max_burst + 1), plus two
        let allowance: u64 = bursts.iter().map(|b| b.map(|m| m + 1).unwrap_or(0)).sum();
        let n = (allowance as usize + 2).min(8);
        ComboCfg { lb: true, plan: (0..n).map(|i| i % 2).collect(), ups, defer: false, bursts, interval_ms: 0, pre_ticks: Vec::new(), sequential: true, defer_rcode: false, edns: false }
    };
    let ans = |n: usize| vec![UpMode::Answer; n];
    let limits: Vec<Vec<Option<u64>>> = vec![
        vec![Some(0)],
        vec![Some(1)],
        vec![Some(2)],
        vec![Some(0), Some(0)],
        vec![Some(1), Some(1)],
        vec![Some(0), Some(1)],
        vec![Some(2), Some(2)],
        // one upstream without a limit: the transport never answers itself
        vec![None, Some(0)],
        vec![Some(1), None],
    ];
    let tick_ms = UP_TICK.as_millis() as u64;
    for l in &limits {
        let c = mk(l.clone(), ans(l.len()));
        let n = c.plan.len();
        let all_limited = l.iter().all(|b| b.is_some());
        // the default interval, the requests back to back
        v.push(c.clone());
        // the first request beyond the allowance comes exactly one interval /
        // two intervals after the burst
        let beyond = n - 2;
        for steps in [1u32, 2] {
            v.push(ComboCfg { interval_ms: tick_ms, pre_ticks: vec![(beyond, steps)], ..c.clone() });
        }
        if all_limited {
            // the last request comes when the default interval is over
            v.push(ComboCfg { pre_ticks: vec![(n - 1, 3)], ..c.clone() });
        }
    }
    let hour = 3_600_000;
    // upstreams that fail / stay silent while they use up their allowance
    for (ups, defer) in [
        (vec![UpMode::Error, UpMode::Answer], false),
        (vec![UpMode::Error, UpMode::Answer], true),
        (vec![UpMode::Error, UpMode::Error], true),
        (vec![UpMode::Silent, UpMode::Answer], false),
        (vec![UpMode::Answer, UpMode::Silent], true),
    ] {
        v.push(ComboCfg { defer, interval_ms: hour, ..mk(vec![Some(1), Some(1)], ups) });
    }
    // all requests are submitted before any upstream answers
    v.push(ComboCfg { sequential: false, ..mk(vec![Some(0)], ans(1)) });
    v.push(ComboCfg { sequential: false, ..mk(vec![Some(1), Some(0)], ans(2)) });
    // requests with EDNS data (the made-up reply has an OPT record to copy)
    v.push(ComboCfg { edns: true, ..mk(vec![Some(0)], ans(1)) });
    v.push(ComboCfg { edns: true, interval_ms: hour, ..mk(vec![Some(0), Some(1)], ans(2)) });
    v
}

fn real_cfgs() -> Vec<RealCfg> {
    let mut v = Vec::new();
    for lb in [false, true] {
        for stream_ups in [false, true] {
            for defer in [false, true] {
                for plan in [vec![0], vec![0, 1]] {
                    // retransmissions of the datagram upstreams: with one caller
                    let retries: &[u8] = if !stream_ups && plan.len() == 1 { &[0, 1] } else { &[0] };
                    for &udp_retries in retries {
                        v.push(RealCfg { lb, plan: plan.clone(), stream_ups, defer, udp_retries, silent: false });
                    }
                }
            }
            v.push(RealCfg { lb, plan: vec![0], stream_ups, defer: true, udp_retries: 1, silent: true });
        }
    }
    v
}

fn multi_cfgs() -> Vec<MultiCfg> {
    let mut v = Vec::new();
    // dgram_stream
    for plan in [vec![0], vec![0, 0], vec![0, 1]] {
        for udp_tc in [true, false] {
            for udp_retries in [0u8, 1] {
                // connect refusal only with a single caller (see assumptions)
                let refuse: &[bool] = if plan.len() == 1 { &[false, true] } else { &[false] };
                for &allow_refuse in refuse {
                    v.push(MultiCfg { dgram_first: true, plan: plan.clone(), udp_tc, udp_retries, allow_refuse, tcp_silent: false, gap: false, ..MULTI_COARSE });
                }
            }
        }
    }
    v.push(MultiCfg { dgram_first: true, plan: vec![0], udp_tc: true, udp_retries: 1, allow_refuse: false, tcp_silent: true, gap: false, ..MULTI_COARSE });
    // multi_stream
    for plan in [vec![0], vec![0, 0], vec![0, 1]] {
        let refuse: &[bool] = if plan.len() == 1 { &[false, true] } else { &[false] };
        for &allow_refuse in refuse {
            v.push(MultiCfg { dgram_first: false, plan: plan.clone(), udp_tc: false, udp_retries: 0, allow_refuse, tcp_silent: false, gap: false, ..MULTI_COARSE });
        }
    }
    // second request after the stream connection idled out: must reconnect
    v.push(MultiCfg { dgram_first: false, plan: vec![0, 0], udp_tc: false, udp_retries: 0, allow_refuse: false, tcp_silent: false, gap: true, ..MULTI_COARSE });
    v.push(MultiCfg { dgram_first: false, plan: vec![0, 1], udp_tc: false, udp_retries: 0, allow_refuse: false, tcp_silent: false, gap: true, ..MULTI_COARSE });
    v.push(MultiCfg { dgram_first: true, plan: vec![0, 0], udp_tc: true, udp_retries: 0, allow_refuse: false, tcp_silent: false, gap: true, ..MULTI_COARSE });
    v.push(MultiCfg { dgram_first: false, plan: vec![0], udp_tc: false, udp_retries: 0, allow_refuse: false, tcp_silent: true, gap: false, ..MULTI_COARSE });
    // ---- fine-grained time (1 s steps, exact deadlines, back-off draws are choices)
    // dgram_stream: the truncated answer comes on the 1st / 2nd / 3rd transmission
    // (read timeout 3 s, stream response timeout 4 s), stream peer answering or silent
    for udp_lost in [0usize, 1, 2] {
        for tcp_silent in [false, true] {
            v.push(MultiCfg { dgram_first: true, plan: vec![0], udp_tc: true, udp_retries: 2, fine: true, rt_s: 4, udp_lost, tcp_silent, ..MULTI_COARSE });
        }
    }
    v.push(MultiCfg { dgram_first: true, plan: vec![0, 0], udp_tc: true, udp_retries: 2, fine: true, rt_s: 4, udp_lost: 1, ..MULTI_COARSE });
    // multi_stream (response timeout 10 s): every connect refused / the peer
    // closes after reading the request / the peer is silent
    v.push(MultiCfg { plan: vec![0], fine: true, rt_s: 10, allow_refuse: true, tcp_refuse_default: true, ..MULTI_COARSE });
    v.push(MultiCfg { plan: vec![0, 0], fine: true, rt_s: 10, allow_refuse: true, tcp_refuse_default: true, ..MULTI_COARSE });
    v.push(MultiCfg { plan: vec![0], fine: true, rt_s: 10, tcp_close_default: true, ..MULTI_COARSE });
    v.push(MultiCfg { plan: vec![0, 1], fine: true, rt_s: 10, tcp_close_default: true, ..MULTI_COARSE });
    v.push(MultiCfg { plan: vec![0], fine: true, rt_s: 10, tcp_silent: true, ..MULTI_COARSE });
    v.push(MultiCfg { dgram_first: false, plan: vec![0, 0], udp_tc: false, udp_retries: 0, allow_refuse: false, tcp_silent: true, gap: false, ..MULTI_COARSE });
    v
}

fn main() {
    let ctx = Ctx::new("C15", "model_checking");
    let _ = CTX.set(ctx.clone());
    if !domain::net::client::verif_rand::set_backend(rand_backend) {
        eprintln!("MACHINERY: cannot register the random backend");
        std::process::exit(2);
    }
    let thorough = !ctx.quick();
    let g = Global {
        ctx: ctx.clone(),
        thorough,
        all_cuts: AtomicBool::new(false),
        full_shapes: AtomicBool::new(true),
        stray_mode: AtomicBool::new(false),
        stats: Stats::new(),
        states: Stats::new(),
        transitions: AtomicU64::new(0),
        outcomes: Stats::new(),
        verbose: ctx.replay.is_some(),
        samples: Mutex::new(BTreeMap::new()),
        sample_threshold: AtomicU64::new(u64::MAX),
        wd: Watchdog::start(ctx.clone(), std::time::Duration::from_secs(30), |d| {
            format!("C15|{}|hang|execution-does-not-terminate", d["transport"].as_str().unwrap_or("?"))
        }),
    };
    if let Some(path) = ctx.replay.clone() {
        let text = std::fs::read_to_string(&path).expect("replay file");
        let v: Value = serde_json::from_str(&text).expect("replay json");
        let case = &v["case"];
        g.all_cuts.store(case["all_cuts"].as_bool().unwrap_or(false), Ordering::Relaxed);
        g.full_shapes.store(case["full_shapes"].as_bool().unwrap_or(true), Ordering::Relaxed);
        g.stray_mode.store(case["stray_mode"].as_bool().unwrap_or(false), Ordering::Relaxed);
        let choices: Vec<u32> = case["choices"].as_array().expect("choices").iter().map(|c| c.as_u64().unwrap() as u32).collect();
        let t = case["transport"].as_str().unwrap_or("");
        let want = case["cfg"].to_string();
        let found = all_cases().into_iter().find(|c| c.tname() == t && c.cfg_json().to_string() == want);
        let Some(c) = found else {
            eprintln!("MACHINERY: replay names an unknown case {t} {want}");
            std::process::exit(2);
        };
        println!("replaying {t} {want} choices {choices:?}");
        let mut ch = Chooser::from_choices(&choices);
        run_case(&g, &c, &mut ch);
        println!("choice trace: {:?}", ch.describe());
        ctx.finish(
            json!({"states": g.states.distinct_count(), "transitions": g.transitions.load(Ordering::Relaxed), "traces_validated_against_impl": 1, "evaluations": 1, "distinct_nontrivial": g.stats.distinct_count(), "rule": "replay of one case", "exhaustive": false, "samples": []}),
            &[],
        );
    }
    let bound = if thorough { 3 } else { 2 };
    let mut per_cfg = Vec::new();
    let mut capped_any = false;
    let cases = all_cases();
    // debugging aid: C15_ONLY=<substring of "<transport> <case debug text>"> runs
    // only the matching cases (the run is then reported as not exhaustive)
    let only: Option<String> = std::env::var("C15_ONLY").ok().filter(|s| !s.is_empty());
    if only.is_some() {
        capped_any = true;
    }
    // Pass = (all cut points?, deviation bound, callers min..=max, transports
    // other than stream too?, full reply grammar?).
    // quick:    every cut point, full grammar, <= 2 deviations, everything up to 3 callers;
    //           handful of cut points, <= 2 deviations, the 6-caller two-wave stream case.
    // thorough: the two quick passes, plus
    //           handful of cut points, classic replies, <= 3 deviations, everything up to 3 callers;
    //           every cut point, classic replies, <= 3 deviations, stream with <= 2 callers;
    //           handful of cut points, full grammar, <= 3 deviations, everything with 1 caller.
    // The stray-reply pass (last flag): the menus offer the stray alphabet at
    // every delivery point next to a reduced set of classic deviations, for
    // the cases selected by Case::in_stray_pass; <= 2 deviations quick, <= 3 thorough.
    let mut passes: Vec<(bool, usize, usize, usize, bool, bool, bool)> = if thorough {
        vec![
            (true, 2, 1, 3, true, true, false),
            (false, 2, 4, 8, false, false, false),
            (false, 3, 1, 3, true, false, false),
            (true, 3, 1, 2, false, false, false),
            (false, 3, 1, 1, true, true, false),
        ]
    } else {
        vec![(true, 2, 1, 3, true, true, false), (false, 2, 4, 8, false, false, false)]
    };
    passes.push((false, 2, 1, 8, true, true, true));
    if thorough {
        passes.push((false, 3, 1, 2, true, true, true));
    }
    for (pass_no, (all_cuts, bound, min_callers, max_callers, others, full_shapes, stray_mode)) in passes.into_iter().enumerate() {
        g.all_cuts.store(all_cuts, Ordering::Relaxed);
        g.full_shapes.store(full_shapes, Ordering::Relaxed);
        g.stray_mode.store(stray_mode, Ordering::Relaxed);
        let selected: Vec<&Case> = cases
            .iter()
            .filter(|case| {
                let n = case.callers();
                match case {
                    _ if only.as_ref().map(|o| !format!("{} {case:?}", case.tname()).contains(o.as_str())).unwrap_or(false) => false,
                    // the burst-limit family of the load balancer (up to 8
                    // requests, one after the other) runs in the first pass
                    // and, up to 5 requests, in the thorough 3-deviation pass
                    Case::Combo(c) if c.is_burst() => pass_no == 0 || (thorough && pass_no == 2 && n <= 5),
                    _ if n < min_callers || n > max_callers => false,
                    _ if stray_mode != case.in_stray_pass() && (stray_mode || case.stray_pass_only()) => false,
                    Case::Stream(_) => true,
                    _ => others,
                }
            })
            .collect();
        // the cases of a pass run side by side (each one is explored level by
        // level, which alone leaves workers idle at every level boundary)
        use rayon::prelude::*;
        let results: Vec<(Value, bool)> = selected
            .par_iter()
            .map(|case| {
                let case: &Case = case;
            let t0 = std::time::Instant::now();
            let (es, capped) = explore(bound, 200_000_000, |ch| run_case(&g, case, ch));
            let v = (json!({"case": format!("{case:?}"), "stray_reply_pass": stray_mode, "all_cut_points": all_cuts, "full_reply_grammar": full_shapes, "deviation_bound": bound, "executions": es.executions, "per_deviation_count": es.per_bound, "choice_points": es.choice_points, "max_trace": es.max_trace, "capped": capped, "wall_s": t0.elapsed().as_secs_f64()}), capped);
            eprintln!("{case:?} all_cuts={all_cuts} stray={stray_mode} bound={bound}: {} executions {:?} in {:.1}s", es.executions, es.per_bound, t0.elapsed().as_secs_f64());
                v
            })
            .collect();
        for (v, capped) in results {
            capped_any |= capped;
            per_cfg.push(v);
        }
        rayon::broadcast(|_| flush_local_counts(&g));
        flush_local_counts(&g);
    }
    let evals = g.stats.evals();
    ctx.finish(
        json!({
            "states": g.states.distinct_count(),
            "transitions": g.transitions.load(Ordering::Relaxed),
            "traces_validated_against_impl": evals,
            "evaluations": evals,
            "distinct_nontrivial": g.stats.distinct_count(),
            "distinct_outcomes": g.outcomes.distinct_count(),
            "rule": "one evaluation = one complete execution of the real transport against the mock peer; non-trivial = at least one non-default environment answer, distinct by (transport, config, choice vector); states = distinct quiescent harness-visible states (request statuses, peer view of outstanding IDs, connection health); transitions = environment steps executed on the real code",
            "exhaustive": !capped_any,
            "tier_thorough": g.thorough,
            "max_deviation_bound": bound,
            "per_config": per_cfg,
            "counters": g.stats.counters_json(),
            "samples": g.samples.lock().unwrap().values().cloned().collect::<Vec<_>>(),
        }),
        &[
            "reply grammar offered by the mock peers under the request's ID: RCODE {NOERROR, SERVFAIL, NXDOMAIN, REFUSED} x question {the request's, another name, the request's name with another type, empty, empty with one answer record} x TC {0,1} (40 shapes incl. the intact answer), plus QR=0; under a wrong ID: every RCODE x question {same, empty}; stream additionally: late/re-sent answers and error replies (3 error RCODEs) for closed requests, which meet recycled slots. Full product for every open/waiting request in cases with <= 2 callers, for the oldest one in 3-caller cases; three representative shapes in the 6-caller case; dgram_stream/multi_stream: NXDOMAIN x {other name, empty, empty+record} x TC",
            "oracle exemption: a reply with RCODE != 0 and all four section counts zero is accepted on the ID alone (this is what RequestMessage::is_answer documents: 'If the result is an error, then the question section can be empty. In that case we require all other sections to be empty as well.'); every other Ok must carry the request's question",
            "multi-response requests (stream_xfr cases): one AXFR or IXFR request (RequestMessageMulti; IXFR answered with the single SOA, AXFR style, or incrementally), optionally sharing the connection with an ordinary request; the peer chooses how many records go into each message and whether later messages repeat the question, interleaves the ordinary answer, and can send: another question, REFUSED, a header-only error, a non-SOA first record, an unrelated SOA, either caller's message under the other's ID, an unknown ID, a message after the end, EOF, a short frame. Oracle: every message handed to the transfer's caller is one the peer sent under its ID, in order, none twice; the first one carries the question (or is a header-only error); a well-formed transfer on a healthy connection is handed over completely, followed by exactly one end-of-stream; the stream always ends. IXFR requests carry no SOA or a SOA with serial 9 / 7 / 5 (server: 7): a first message holding only the server SOA is the complete answer (message, then end-of-stream) unless the server serial is newer than the request serial (RFC 1995 section 4, RFC 1982 comparison); then the transfer continues: a peer that sends the rest gets everything delivered, a peer that stays silent for response_timeout + 1 ms (2 s configured) makes the caller fail; without a SOA in the request a lone SOA is the complete answer",
            "requests with EDNS data (stream and dgram cases marked edns): base message with an additional record and an OPT, then set_dnssec_ok, add_opt(NSID), set_udp_payload_size through ComposeRequest; the request on the wire must keep the question and the additional record and carry exactly one OPT with DO, NSID and the expected payload size (the caller's 1400 on streams and when dgram's own size is None, dgram's 1232 otherwise)",
            "answers with an edns-tcp-keepalive option (timeout 0 and 2 s) are in the stream reply menu (<= 2 callers); dgram config paths: udp_payload_size None, recv_size 20 (answers arrive cut and must be ignored), max_parallel 0 (clamped to 1), budget taken from the config getters; redundant/load_balancer: upstreams answering REFUSED/SERVFAIL with defer_refused+defer_servfail off (returned at once) and on (returned only after every upstream has been tried and has finished, a proper answer wins)",
            "at most 3 deviations from the default environment per execution (2 in quick); at most 3 concurrent requests (one 6-request two-wave stream case with 4 concurrent)",
            "stream timeouts run on tokio's paused clock (feature verif-hooks of /repo); budget of a stream request = response_timeout + 1 ms from submission (1 ms timer resolution and the transport's strict `elapsed > response_timeout`)",
            "the time step that lands exactly on timer start + 19 s (effective response timeout) is not offered: Transport::run then loops on a zero-length sleep until the clock moves, which never happens under the frozen clock (artefact of the paused clock, not counted as a violation); step lengths are chosen so that no sum of steps hits that instant; a watchdog (30 s) reports any execution that does not terminate",
            "stream lateness is classified: messages arriving later than a request's start restart the connection-wide timer (known finding, own signature); once the connection has been silent for response_timeout the request must be gone (signature ...|connection-silent-for-response-timeout)",
            "dgram: time steps never cross a receive deadline (a step is cut at the next deadline), so the budget (1+max_retries)*read_timeout from the first transmission is exact; half-read-timeout steps allow stray datagrams between partial advances",
            "main stream timing cases configure response_timeout = 19 s (the library default) and idle_timeout = 300 ms; two cases configure 1 s to check that the configured value is honoured",
            "redundant / load_balancer: upstreams are SendRequest mocks (2, in one case 3; in one load-balancer case 1 with max_burst 0); an upstream that 'never answers' fails the call with its own timeout after 2 s of virtual time; time moves in 400 ms steps; Err needs a failed upstream call of that caller, and with defer_transport_error set every upstream must have been tried and have failed; defer_refused / defer_servfail are not exercised; the probe decision and probe index are environment choices {0.5, 0.0, 0.999} through the verif_rand seam",
            "the private Queries table is driven only through the stream transport",
            "random request IDs (dgram) are read back from the bytes written; stale/wrong IDs sent by the mock are forced to differ from the current ID so the execution structure does not depend on the random draw",
            "multi_stream/dgram_stream, fine-time cases: 1 s steps, datagram read timeout 3 s (max_retries 2), multi_stream response timeout 4 s (dgram_stream) / 10 s (multi_stream); the peer by default loses 0/1/2 datagram transmissions before the truncated answer, refuses every connect, closes after reading the request, or stays silent; every reconnect back-off draw is an environment choice {0.5, 0.0, 0.999}; exact deadlines: datagram phase (1+retries) x read timeout from the first transmission, stream phase response_timeout from the matching truncated answer (dgram_stream) or from submission (multi_stream); a stream attempt that follows a truncated answer must not end in StreamReadTimeout before its own full response timeout",
            "multi_stream/dgram_stream, coarse-time cases: the reconnect jitter draw is fixed to 0.5 through the verif_rand seam and virtual time advances in 64 s steps (>= any retry delay); connect refusal is offered only with a single caller (a second caller's NewConn inside the random error window would be nondeterministic)",
            "the caller index is carried in the Z/AD/CD header bits of the request (untouched by the transports, irrelevant for matching) so the mock maps frames to callers exactly even for identical questions",
            "mock sockets are in-memory; real sockets, TLS and kernel buffering are out of scope",
        ],
    );
}
