//! C10 — zone transfers reproduce the sender's zone; bad streams are
//! rejected cleanly.
//!
//! Model checking of the real receiver pipeline
//!   MessageBuilder(TreeCompressor) -> XfrResponseInterpreter -> ZoneUpdater -> in-memory Zone
//! and of the diff capture of the in-memory write interface.
//!
//! Universe: apex `z.` plus names {a.z, b.a.z, c.z}, each holding one of the
//! RRset kinds {none, A, Ax2, TXT}: 64 zones.  Distance between two zones =
//! number of (owner, type) RRsets that differ.
//!
//! Part R (receiver): for every ordered pair (old,new) within the tier's
//!   distance bound the harness builds, FROM THE MODEL and per RFC 5936 2.2 /
//!   RFC 1995 4, the AXFR RR sequence, the single-diff IXFR sequence (RR
//!   granular and RRset granular), every 2-step IXFR sequence through an
//!   intermediate zone, and the AXFR-style IXFR fallback; packages each with
//!   the real MessageBuilder in all 2^(n-1) splits (n <= cap, beyond the cap:
//!   all splits with <= 2 cuts plus one-RR-per-message); feeds the real
//!   interpreter + updater on a real zone holding `old`.
//! Part F (faults): every single-message fault at every position of the
//!   streams above (restricted split set), judged by an independent
//!   reference interpreter working on the wire octets.
//! Part D (diff): every sequence of write-interface edits up to a length on
//!   every zone of the universe inside ONE version; the diff returned by
//!   commit, applied by the model to `old`, must equal the new content.
//! Part S (sender): the sender zone is built at `old` and edited to `new`
//!   (optionally through a mid version) with the real write interface, diffing
//!   on; AXFR / IXFR requests (TCP and UDP contexts, three message-size limits,
//!   compatibility mode, known / unknown / current client serial) go through
//!   the real XfrMiddlewareSvc; the emitted messages must be read by the
//!   reference as a valid transfer of exactly the sender's zone, and the real
//!   receiver holding the requester's version must end up with that zone.
//! Part H (histories): two successive updates of one zone.  The first is any
//!   honest stream of part R, one RR per message, aborted after every k RRs
//!   (stream ends, or an error response) and its updater dropped; the second
//!   is a complete update (IXFR in one message, IXFR one RR per message, AXFR)
//!   from the version the zone is then at to every zone at most one RRset away
//!   (same content with a new serial included).  The reference model ignores
//!   the aborted update: zone after the abort == last completed version, final
//!   zone == target of the second update, readers during the second update see
//!   only those two.
//! Part T (reserving outer middleware): the real TsigMiddlewareSvc in front of
//!   XfrMiddlewareSvc, requests signed by the real ClientSequence (plus an
//!   unsigned control), zone = SOA + 320 TXT records of identical wire size so
//!   that the first response is filled to the 64 KiB limit; the SOA RNAME
//!   length is stepped over more than one record size so that the room left
//!   in the filled message takes every value.  AXFR, IXFR with a big diff and
//!   AXFR-style IXFR.  Every response must verify, be <= 65535 octets, the
//!   stream must be a valid transfer in which every record travels exactly
//!   once, and the real receiver must end up with the sender's zone.
//! Part W (wire / stream client): the streams of parts R and F are served by
//!   a scripted server over an in-memory connection and read by the real
//!   `net::client::stream` transport (multi-response request, its own
//!   end-of-transfer detection) which hands them to the pipeline.  Honest
//!   streams in one message, with one cut at every position and one RR per
//!   message (thorough: all splits up to 8 RRs), plus every fault on the
//!   single-message and one-RR-per-message packagings; plain serials and the
//!   wrapping scheme.  Part S also runs every TCP request through the stream
//!   client against a minimal server loop around the real middleware (what
//!   the client delivers must be what the server sent, up to the end of the
//!   transfer), with the `Zone` itself and an `Arc<ZoneTree>` as data
//!   providers, with a request for a zone the sender does not have (must be
//!   refused by one error response) and with a size limit no record fits in.
//!   Faults added: a record whose owner is outside the zone, a message whose
//!   last octets are missing.  Every diff is also read through the `ZoneDiff`
//!   trait and compared with its fields; ZoneUpdater::is_finished must agree
//!   with the interpreter.
//! Part L (TTL axis): every zone comparison above is TTL-exact (a record of
//!   an observation is owner, type, TTL, RDATA), but parts R..W hold one TTL
//!   and one SOA.  Part L runs the same parts with the same oracles over a
//!   TTL universe: a.z holds nothing or {A, Ax2, TXT} under each TTL of the
//!   menu {3600, 300, 0, 2^31-1}, b.a.z nothing or a TXT RRset with TTL 300
//!   (thorough: or 3600) - so an RRset changes only its TTL (raised, lowered),
//!   changes TTL while it gains / loses / replaces records, appears or
//!   disappears, alone or next to a second changing RRset - and over an SOA
//!   menu (4 SOA TTLs, 2 timer sets; every plan "variant of version 1 x
//!   variant of version 2 [x variant of version 3]") crossed with 5 content
//!   pairs including "nothing but the SOA changes".  IXFR streams come in
//!   three forms: RR granular per RFC 1995 4 (TTL change = delete with the
//!   old TTL + add with the new one), RRset granular, and "added records carry
//!   the new TTL" (an RRset that keeps and gains records is described by the
//!   records it loses and gains only; since all RRs of an RRset share one
//!   TTL, RFC 2181 5.2, and added RRs are RRs of the new version, the RRset
//!   has the TTL of the added RRs afterwards - the reference and the diff
//!   application of the model read it that way).  Where a damaged stream
//!   does not settle the TTL of an RRset (mixed TTLs inside one RRset, a
//!   deleted RR claiming a TTL the RRset does not have) the TTL of that
//!   RRset is left out of the comparisons.  Parts: L/R (all pairs of the TTL
//!   universe, all splits up to 6 [8] RRs; 2-step through every mid and
//!   faults on a 7-zone sub-universe), L/SOA, L/D (TTL edit alphabet, edit
//!   sequences <= 2 [3 on the sub-universe], SOA plans), L/S (real sender
//!   edited with the write interface, 12 request kinds), L/W, L/H.
//!   Edit shapes: a second universe holds the A RRset of a.z in the shapes
//!   {A{1}, A{1,2}, A{3}, A{1,3}} x 3 [4] TTLs, so that every record edit of
//!   one RRset (keep+add, keep+remove, keep+add+remove, replace all, none)
//!   meets every TTL move (same, raised, lowered); all its ordered pairs run
//!   through L/R (every stream form), L/S (sender edited with the write
//!   interface, its commit diff served as IXFR, AXFR; 12 request kinds), L/W
//!   and, as old contents and edit operations, L/D.
//!   `C10_ONLY_L=1` runs part L only (development aid).
//! Part E (zone origin x tree shape): the old content reaches the zone through
//!   every route the library offers (ZoneBuilder; a first AXFR into an empty
//!   zone through interpreter + ZoneUpdater; write-interface additions; a
//!   richer zone from which names were emptied by write-interface removals, by
//!   an IXFR through the updater, or replaced by an AXFR through the updater -
//!   the routes leave different marks on names without records), over the name
//!   tree z > a > b, z > c > e > d in which every name holds an A RRset or
//!   nothing (32 contents; thorough: the leaves also A{1,2} / TXT, 128): names
//!   below an empty non-terminal, below a name emptied in an earlier version,
//!   two levels below.  Every old content x every origin is replaced by every
//!   content (thorough: every content <= 3 names away, the empty and the full
//!   one) through 6 routes: AXFR and IXFR through the updater; write
//!   interface incremental, remove_all at the apex / at both subtrees / at the
//!   inner name e.c.z followed by re-adding.  Oracles: content after the
//!   history and after the replacement == model; a diff with the right serials
//!   is returned; the diff applied by the model to the old content == new
//!   content (also for every diff reported along the history); the IXFR the
//!   real XfrMiddlewareSvc serves from that diff is read by the reference as a
//!   valid transfer of the new content and takes the real receiver (its zone
//!   made by the same history) there.
//! Part I (interleaving writer): the sender is at version 2 when the request
//!   arrives (AXFR, AXFR one-RR-per-message, IXFR answered AXFR-style, IXFR
//!   answered from diffs in one and in many messages, `Zone` as provider);
//!   the response stream is consumed item by item on the current-thread
//!   runtime and the environment event "a writer commits version 3 (and 4)
//!   through the write interface" is inserted at every position: after the
//!   service call returned the stream and before its first poll, after k =
//!   1..6 [12] items, each after 0..2 [3] extra turns of the runtime (the
//!   tasks spawned by the service advance, the consumer does not poll); one
//!   version, two versions at one point, thorough: every pair of points.
//!   Oracle: for the reference the emitted messages are a valid transfer
//!   (opening SOA, content, closing SOA) of ONE version that was current at
//!   some moment between the arrival of the request and the end of the stream
//!   (version 2 or one committed before the stream ended), by the per-version
//!   content models; the real receiver at version 1 ends up with it.  The
//!   verdict does not depend on which thread got how far.
//!   `C10_ONLY_EI=1` runs parts E and I only (development aid).
//! Part Q (record identity): the records above are A / TXT(one string) / SOA,
//!   for which any sensible equality is octet equality.  The receiver
//!   (duplicate suppression, delete-by-value) and the diff capture compare
//!   records with the `==` of the record data type, so part Q adds record data
//!   for which "same record" and "same octets of some field" part ways: twin
//!   pairs (X, Y) = TXT "foobar" / "foo" "bar"; TXT "foobar" / "foobar" "";
//!   TXT "" "foobar" / "foobar"; MX 10 m.z / MX 20 m.z (two records each, RFC
//!   1035 3.3.14 / 3.3.9), and MX 10 m.z / MX 10 M.z (ONE record: embedded
//!   names compare case-insensitively, RFC 1035 2.3.3 / RFC 4034 6.2 - both
//!   sides of every comparison carry such names folded to lower case).  Per
//!   pair a universe in which a.z holds nothing, {X}, {X,Y} or {Y} ({X,Y} not
//!   for the case pair); all ordered zone pairs run through part R (AXFR,
//!   AXFR-style IXFR, IXFR RR / RRset granular, 2-step through every zone; all
//!   splits up to 7 [10] RRs; thorough: part F too), part D (edit sequences
//!   <= 2 [3] over {X}, {X,Y}, {Y}, remove, remove_all; both commit modes),
//!   part S (sender edited with the write interface, its commit diffs served
//!   as IXFR, 12 request kinds; thorough: 3-version chains) and part W, with
//!   the oracles of those parts.  `C10_ONLY_Q=1` runs part Q only.
//! Serial axis: model serials are logical (1, 2, 3 = versions of a history);
//!   a scheme (start, step) maps them to SOA serials.  Scheme 0 is 1,2,3; seven
//!   more cross the 2^32 wrap (FFFFFFFF->0->1, FFFFFFFF->1->3, FFFFFFFE->
//!   FFFFFFFF->0), the 2^31 half range (7FFFFFFF->80000000, 80000000->...),
//!   jump far (FFFFFF00->00FFFF00) or run backwards (10->9->8: the new version
//!   is older).  Part S runs completely under every scheme (the sender's
//!   "requester is up to date" / fallback decisions are checked against RFC
//!   1982 arithmetic computed in u64; the equal-serial request is part of it);
//!   parts R and D run under the other schemes on a smaller complete space
//!   (pairs <=1 RRset apart, all stream kinds incl. 2-step through a mid
//!   serial, one message / one cut at every position / one RR per message;
//!   edit sequences <=1 in both commit modes: a diff must be returned exactly
//!   when the new serial is newer, with the right serials).
//!
//! Oracles (every case): no panic; reference verdict vs pipeline outcome
//! (invalid => Err or never finished; valid => finished and receiver ==
//! transferred zone as a sorted record multiset; cases the RFCs leave open
//! accept either); every reader opened after a message sees `old` or a version
//! the reference saw completed, and keeps seeing it; a reader opened before
//! the transfer keeps seeing `old`; every diff returned by apply()/commit()
//! applied to the content before the commit gives the content after it.
//!
//! Tiers: quick = pairs <=2 RRsets apart, all splits up to 8 RRs, faults on
//! pairs <=1 apart over splits with <=1 cut (plus one RR per message), edit
//! sequences <=2; thorough = pairs <=3 apart, all splits up to 10 RRs and both
//! question modes, faults on pairs <=2 apart over splits with <=2 cuts (plus
//! one RR per message), edit sequences <=3.
//! `C10_DRY=1` only counts the cases of parts R and F (sizing aid).

use bytes::{Bytes, BytesMut};
use domain::base::iana::{Class, Opcode, Rcode};
use domain::base::message_builder::TreeCompressor;
use domain::base::name::{Label, Name};
use domain::base::rdata::{ComposeRecordData, RecordData};
use domain::base::{Message, MessageBuilder, Rtype, Serial, Ttl};
use domain::net::server::message::{NonUdpTransportContext, Request, TransportSpecificContext, UdpTransportContext};
use domain::net::server::middleware::tsig::TsigMiddlewareSvc;
use domain::net::server::middleware::xfr::{XfrData, XfrDataProvider, XfrDataProviderError, XfrMiddlewareSvc};
use domain::rdata::tsig::Time48;
use domain::tsig::{Algorithm, ClientSequence, Key, KeyName};
use domain::net::server::service::{Service, ServiceError, ServiceResult};
use domain::net::xfr::protocol::{IterationError, XfrResponseInterpreter};
use futures_util::StreamExt;
use std::future::Future;
use std::pin::Pin;
use domain::rdata::{Mx, Soa, Txt, ZoneRecordData, A};
use domain::zonetree::types::ZoneUpdate;
use domain::zonetree::update::ZoneUpdater;
use domain::zonetree::{InMemoryZoneDiff, ReadableZone, Rrset, SharedRrset, WritableZoneNode, Zone, ZoneBuilder, ZoneDiff, ZoneDiffItem, ZoneTree};
use mc::*;
use rayon::prelude::*;
use serde_json::{json, Value};
use std::collections::{BTreeMap, BTreeSet};
use std::str::FromStr;
use std::sync::{Arc, Mutex};

type SName = Name<Bytes>;
type SData = ZoneRecordData<Bytes, SName>;

const TTL: u32 = 3600;
/// The TTL menu of the TTL axis (part L).  A record of the model carries an
/// index into it; index 0 is the TTL of everything outside part L.
const TTLS: [u32; 4] = [TTL, 300, 0, 0x7FFF_FFFF];
// 4 and 5 are outside the zone (fault / foreign request only); 6 and 7 are the deep names of part E
const OWNERS: [&str; 8] = ["z.", "a.z.", "b.a.z.", "c.z.", "x.y.", "y.", "d.e.c.z.", "e.c.z."];
const OWNERS_NODOT: [&str; 8] = ["z", "a.z", "b.a.z", "c.z", "x.y", "y", "d.e.c.z", "e.c.z"];

// ====================================================================
// Model
// ====================================================================

#[derive(Clone, Copy, PartialEq, Eq, Hash, PartialOrd, Ord, Debug)]
enum RD {
    Soa(u32),
    A(u8),
    Txt(u8),
    /// record data of the equality axis (part Q): index into XS
    X(u8),
}

// ---- the equality axis (part Q) ------------------------------------------
//
// Record data whose identity is NOT settled by comparing a few octets of a
// fixed layout: (type, RDATA on the wire with embedded names in lower case).
// What a record IS is its wire form (RFC 1035 3.3.14: TXT RDATA is a sequence
// of character-strings, so "foobar" and "foo" "bar" are two records; RFC 1035
// 3.3.9: the preference is part of an MX record); only names embedded in
// RDATA compare case-insensitively (RFC 1035 2.3.3, RFC 4034 6.2), so the
// harness folds them on both sides of every comparison.
const XS: [(u16, &[u8]); 7] = [
    (16, b"\x06foobar"),        // 0 TXT "foobar"
    (16, b"\x03foo\x03bar"),    // 1 TXT "foo" "bar"      same text, other character-string boundaries
    (16, b"\x06foobar\x00"),    // 2 TXT "foobar" ""      same text, an empty character-string more
    (16, b"\x00\x06foobar"),    // 3 TXT "" "foobar"
    (15, b"\x00\x0a\x01m\x01z\x00"), // 4 MX 10 m.z.
    (15, b"\x00\x14\x01m\x01z\x00"), // 5 MX 20 m.z.    differs in the preference only
    (15, b"\x00\x0a\x01M\x01z\x00"), // 6 MX 10 M.z.    differs in the case of the embedded name only: the SAME record
];
/// The twin pairs (X, Y); twin universe 7 + p holds a.z in {nothing, {X},
/// {X,Y}, {Y}} (kinds 0, 4, 5, 6 - see `kind_rds`).  In the last pair X and Y
/// are one record by DNS rules, so no zone holds both.
const TWINS: [(u8, u8); 5] = [(0, 1), (0, 2), (3, 0), (4, 5), (4, 6)];
const TWIN_NAMES: [&str; 5] = ["txt-split", "txt-empty-string-appended", "txt-empty-string-in-front", "mx-preference", "mx-exchange-case"];
const TWIN_U0: u8 = 7;
const CASE_TWIN: usize = 4;

/// RDATA with embedded names folded to lower case (length octets of labels are < 'A')
fn fold_rdata(rtype: u16, rdata: &mut [u8]) {
    if rtype == 15 && rdata.len() > 2 {
        rdata[2..].make_ascii_lowercase();
    }
}

#[derive(Clone, Copy, PartialEq, Eq, Hash, PartialOrd, Ord, Debug)]
struct MRec {
    owner: u8,
    rd: RD,
    /// index into TTLS; all records of one RRset of a zone carry the same
    ttl: u8,
}

impl RD {
    fn rtype(self) -> u16 {
        match self {
            RD::Soa(_) => 6,
            RD::A(_) => 1,
            RD::Txt(_) => 16,
            RD::X(i) => XS[i as usize].0,
        }
    }
}

fn soa(serial: u32) -> MRec {
    MRec { owner: 0, rd: RD::Soa(serial), ttl: SOAVS[soav(serial)].0 }
}

// ---- the SOA axis: TTL and timers of the SOA of every version ----------
//
// The SOA of logical version s (1, 2, 3) is variant SOAV[s-1] of this menu:
// (index into TTLS, [refresh, retry, expire, minimum]).  Variant 0 is the SOA
// of everything outside part L; any other logical serial has variant 0.
const SOAVS: [(u8, [u32; 4]); 6] = [
    (0, [7200, 900, 86400, 300]),
    (1, [7200, 900, 86400, 300]),              // only the TTL of the SOA differs
    (2, [7200, 900, 86400, 300]),
    (3, [7200, 900, 86400, 300]),
    (0, [3600, 600, 604800, 0]),               // only the timers differ
    (1, [1, 0x7FFF_FFFF, 0, 0x7FFF_FFFF]),     // both
];

thread_local! {
    static SOAV: std::cell::Cell<[u8; 3]> = const { std::cell::Cell::new([0; 3]) };
    static UNIVERSE: std::cell::Cell<u8> = const { std::cell::Cell::new(0) };
}

fn soa_plan() -> [u8; 3] {
    SOAV.with(|s| s.get())
}

fn soav(serial: u32) -> usize {
    if (1..=3).contains(&serial) {
        soa_plan()[serial as usize - 1] as usize
    } else {
        0
    }
}

/// Run `f` with the given SOA variants of versions 1, 2, 3 in force on this thread.
fn with_soa_plan<T>(p: [u8; 3], f: impl FnOnce() -> T) -> T {
    let prev = SOAV.with(|s| s.replace(p));
    let r = f();
    SOAV.with(|s| s.set(prev));
    r
}

fn plan_from_json(v: &Value) -> [u8; 3] {
    let mut p = [0u8; 3];
    if let Some(a) = v.as_array() {
        for (i, x) in a.iter().take(3).enumerate() {
            p[i] = (x.as_u64().unwrap_or(0) as u8).min(SOAVS.len() as u8 - 1);
        }
    }
    p
}

/// kinds: 0 none, 1 A{1}, 2 A{1,2}, 3 TXT{1}, 4 A{3} (only in part D and in
/// the edit-shape universe of part L), 5 A{1,3} (only in part L).
/// A zone description holds per name `kind | ttl_index << 3` (see `kt`): the
/// 64-zone universe has TTL index 0 everywhere, part L the others as well.
fn kind_rds(kind: u8) -> Vec<RD> {
    let u = universe_id();
    if u >= TWIN_U0 && kind & 7 >= 4 {
        // twin universes (part Q): 4 = {X}, 5 = {X, Y}, 6 = {Y}
        let (x, y) = TWINS[(u - TWIN_U0) as usize];
        return match kind & 7 {
            4 => vec![RD::X(x)],
            5 => vec![RD::X(x), RD::X(y)],
            6 => vec![RD::X(y)],
            _ => unreachable!(),
        };
    }
    match kind & 7 {
        0 => vec![],
        1 => vec![RD::A(1)],
        2 => vec![RD::A(1), RD::A(2)],
        3 => vec![RD::Txt(1)],
        4 => vec![RD::A(3)],
        5 => vec![RD::A(1), RD::A(3)],
        _ => unreachable!(),
    }
}

type Kinds = [u8; 3];

/// RRset kind `kind` with TTL TTLS[ttl]
const fn kt(kind: u8, ttl: u8) -> u8 {
    kind | ttl << 3
}

fn kinds_of(i: usize) -> Kinds {
    [(i % 4) as u8, ((i / 4) % 4) as u8, (i / 16) as u8]
}

/// Non-SOA records of a zone of the universe.
fn zone_recs(k: Kinds) -> BTreeSet<MRec> {
    let mut s = BTreeSet::new();
    for (n, kind) in k.iter().enumerate() {
        for rd in kind_rds(*kind) {
            s.insert(MRec { owner: n as u8 + 1, rd, ttl: *kind >> 3 });
        }
    }
    s
}

/// (owner, type) -> (TTL index, record data) of every RRset
fn rrsets_of(recs: &BTreeSet<MRec>) -> BTreeMap<(u8, u16), (u8, BTreeSet<RD>)> {
    let mut m: BTreeMap<(u8, u16), (u8, BTreeSet<RD>)> = BTreeMap::new();
    for r in recs {
        let e = m.entry((r.owner, r.rd.rtype())).or_default();
        e.0 = r.ttl;
        e.1.insert(r.rd);
    }
    m
}

/// The zones mids of 2-step streams and targets of second updates are drawn
/// from: 0 = the 64-zone universe, 1.. = the universes of part L.
fn universe() -> Vec<Kinds> {
    match UNIVERSE.with(|u| u.get()) {
        0 => (0..64).map(kinds_of).collect(),
        1 => ttl_universe(false),
        2 => ttl_universe(true),
        3 => ttl_small_universe(),
        4 => soa_axis_zones(),
        5 | 6 => ttl_shape_universe(UNIVERSE.with(|u| u.get()) == 6),
        u => twin_universe((u - TWIN_U0) as usize),
    }
}

fn universe_id() -> u8 {
    UNIVERSE.with(|u| u.get())
}

fn with_universe<T>(u: u8, f: impl FnOnce() -> T) -> T {
    let prev = UNIVERSE.with(|c| c.replace(u));
    let r = f();
    UNIVERSE.with(|c| c.set(prev));
    r
}

/// Part L: a.z holds nothing or one of {A{1}, A{1,2}, TXT} under every TTL of
/// the menu (13 states); b.a.z holds nothing or a TXT RRset with TTL 300
/// (`wide`: or 3600), so that a second RRset can change (its TTL only, too)
/// in the same version; c.z holds nothing.
fn ttl_universe(wide: bool) -> Vec<Kinds> {
    let mut xs = vec![0u8];
    for k in 1..=3u8 {
        for t in 0..TTLS.len() as u8 {
            xs.push(kt(k, t));
        }
    }
    let ys: &[u8] = if wide { &[0, kt(3, 1), kt(3, 0)] } else { &[0, kt(3, 1)] };
    let mut v = vec![];
    for y in ys {
        for x in &xs {
            v.push([*x, *y, 0]);
        }
    }
    v
}

/// a.z: nothing, A{1} or A{1,2} under three TTLs
fn ttl_small_universe() -> Vec<Kinds> {
    let mut v = vec![[0u8, 0, 0]];
    for k in 1..=2u8 {
        for t in [0u8, 1, 3] {
            v.push([kt(k, t), 0, 0]);
        }
    }
    v
}

/// Part L, edit shapes: a.z holds an A RRset of one of the shapes {A{1},
/// A{1,2}, A{3}, A{1,3}} under each TTL of a menu (3 TTLs, `wide`: all 4).
/// Between two zones of this universe the RRset keeps and gains records,
/// keeps and loses, keeps, gains and loses, replaces all its records, or
/// keeps them all - each with the TTL unchanged, raised and lowered.
fn ttl_shape_universe(wide: bool) -> Vec<Kinds> {
    let ttls: &[u8] = if wide { &[0, 1, 2, 3] } else { &[0, 1, 3] };
    let mut v = vec![];
    for k in [1u8, 2, 4, 5] {
        for t in ttls {
            v.push([kt(k, *t), 0, 0]);
        }
    }
    v
}

/// Part Q: a.z holds nothing, {X}, {X,Y} or {Y} of twin pair `p`
fn twin_universe(p: usize) -> Vec<Kinds> {
    let ks: &[u8] = if p == CASE_TWIN { &[0, 4, 6] } else { &[0, 4, 5, 6] };
    ks.iter().map(|k| [*k, 0, 0]).collect()
}

/// (what the records of the A RRset of a.z do, what its TTL does) from `o` to `n`
fn edit_shape(o: Kinds, n: Kinds) -> (&'static str, &'static str) {
    let (ro, rn) = (rrsets_of(&zone_recs(o)), rrsets_of(&zone_recs(n)));
    let (Some(f), Some(t)) = (ro.get(&(1, 1)), rn.get(&(1, 1))) else { return ("rrset-appears-or-disappears", "-") };
    let keeps = f.1.intersection(&t.1).next().is_some();
    let gains = t.1.difference(&f.1).next().is_some();
    let loses = f.1.difference(&t.1).next().is_some();
    let recs = match (keeps, gains, loses) {
        (true, false, false) => "records-unchanged",
        (true, true, false) => "keep+add",
        (true, false, true) => "keep+remove",
        (true, true, true) => "keep+add+remove",
        (false, ..) => "replace-all",
    };
    let (tf, tt) = (TTLS[f.0 as usize], TTLS[t.0 as usize]);
    (recs, if tt > tf { "ttl-raised" } else if tt < tf { "ttl-lowered" } else { "ttl-same" })
}

/// the contents the SOA axis is crossed with
fn soa_axis_zones() -> Vec<Kinds> {
    vec![[0, 0, 0], [1, 0, 0], [kt(2, 1), 0, 0]]
}

fn dist(a: Kinds, b: Kinds) -> usize {
    let (ra, rb) = (rrsets_of(&zone_recs(a)), rrsets_of(&zone_recs(b)));
    let keys: BTreeSet<_> = ra.keys().chain(rb.keys()).cloned().collect();
    keys.iter().filter(|k| ra.get(k) != rb.get(k)).count()
}

// ---- independent canonical record form (no library code involved) ----

#[derive(Clone, PartialEq, Eq, PartialOrd, Ord, Hash, Debug)]
struct CRec {
    owner: String,
    rtype: u16,
    ttl: u32,
    rdata: Vec<u8>,
}
/// sorted multiset of records
type Obs = Vec<CRec>;

// ---- the serial axis --------------------------------------------------
//
// Everywhere in the model a serial is a small logical number (1, 2, 3 are
// the versions of a history, 0 is "a serial the sender knows nothing of",
// base+10 the target of a later update, ...).  A serial scheme (start, step)
// maps it to the SOA serial that is really used: start + (s-1)*step mod 2^32.
// Scheme 0 is the identity; the others cross the 2^32 wrap, the 2^31 half
// range, jump far, or run backwards.
const SCHEMES: [(u32, u32); 8] = [
    (1, 1),
    (0xFFFF_FFFF, 1),          // FFFFFFFF -> 0 -> 1
    (0xFFFF_FFFF, 2),          // FFFFFFFF -> 1 -> 3
    (0xFFFF_FFFE, 1),          // FFFFFFFE -> FFFFFFFF -> 0
    (0x7FFF_FFFF, 1),          // 7FFFFFFF -> 80000000 -> 80000001
    (0x8000_0000, 1),          // 80000000 -> 80000001 -> 80000002
    (0xFFFF_FF00, 0x0100_0000), // FFFFFF00 -> 00FFFF00 -> 01FFFF00
    (10, 0xFFFF_FFFF),         // 10 -> 9 -> 8: every "new" version is OLDER in serial arithmetic
];

thread_local! {
    static SCHEME: std::cell::Cell<usize> = const { std::cell::Cell::new(0) };
}

fn scheme() -> usize {
    SCHEME.with(|s| s.get())
}

/// Run `f` with the given serial scheme in force on this thread.
fn with_scheme<T>(i: usize, f: impl FnOnce() -> T) -> T {
    let prev = SCHEME.with(|s| s.replace(i));
    let r = f();
    SCHEME.with(|s| s.set(prev));
    r
}

/// logical serial -> SOA serial
fn actual(s: u32) -> u32 {
    let (start, step) = SCHEMES[scheme()];
    start.wrapping_add(s.wrapping_sub(1).wrapping_mul(step))
}

/// RFC 1982 3.2 for SERIAL_BITS = 32, computed in u64: is `b` newer than `a`?
fn serial_newer(b: u32, a: u32) -> bool {
    let (i1, i2) = (a as u64, b as u64);
    const H: u64 = 1 << 31;
    (i1 < i2 && i2 - i1 < H) || (i1 > i2 && i1 - i2 > H)
}

fn soa_rdata(serial: u32) -> Vec<u8> {
    soa_rdata_actual(actual(serial), soav(serial))
}

/// SOA RDATA with the given SOA serial and the timers of variant `variant`
fn soa_rdata_actual(serial: u32, variant: usize) -> Vec<u8> {
    let mut v = vec![2, b'n', b's', 1, b'z', 0, 1, b'h', 1, b'z', 0];
    v.extend_from_slice(&serial.to_be_bytes());
    for x in SOAVS[variant].1 {
        v.extend_from_slice(&x.to_be_bytes());
    }
    v
}

fn crec(r: MRec) -> CRec {
    let rdata = match r.rd {
        RD::Soa(s) => soa_rdata(s),
        RD::A(x) => vec![10, 0, 0, x],
        RD::Txt(x) => vec![2, b't', b'0' + x],
        RD::X(i) => {
            let mut v = XS[i as usize].1.to_vec();
            fold_rdata(XS[i as usize].0, &mut v);
            v
        }
    };
    CRec { owner: OWNERS_NODOT[r.owner as usize].to_string(), rtype: r.rd.rtype(), ttl: TTLS[r.ttl as usize], rdata }
}

fn model_obs(serial: u32, recs: &BTreeSet<MRec>) -> Obs {
    let mut v: Obs = recs.iter().map(|r| crec(*r)).collect();
    v.push(crec(soa(serial)));
    v.sort();
    v
}

fn dedup(o: &Obs) -> Obs {
    let mut v = o.clone();
    v.dedup();
    v
}

fn obs_json(o: &Obs) -> Value {
    json!(o.iter().map(|c| format!("{} {} {} {}", c.owner, c.rtype, c.ttl, hex(&c.rdata))).collect::<Vec<_>>())
}

// ---- RR sequences per RFC 5936 2.2 / RFC 1995 4, built from the model ----

fn axfr_seq(serial: u32, recs: &BTreeSet<MRec>) -> Vec<MRec> {
    let mut v = vec![soa(serial)];
    v.extend(recs.iter().cloned());
    v.push(soa(serial));
    v
}

/// versions[0] is the client's version, versions.last() the server's.
/// `form` 0: RR granular per RFC 1995 4 (a record whose TTL changes is
///   deleted with the old TTL and added with the new one, so an RRset whose
///   TTL changes is deleted and added as a whole);
/// `form` 1: a changed RRset is deleted and re-added as a whole;
/// `form` 2: like 0, but an RRset that keeps records, gains records and gets
///   another TTL is described by the records it loses (old TTL) and the
///   records it gains (new TTL) only - the shape of the difference sets of
///   the in-memory zone.  All records of an RRset have one TTL (RFC 2181
///   5.2) and the added records are records of the new version (RFC 1995 4),
///   so the new version's RRset has the TTL of the added records.
fn ixfr_seq(versions: &[(u32, BTreeSet<MRec>)], form: u8) -> Vec<MRec> {
    let last = versions.last().unwrap();
    let mut v = vec![soa(last.0)];
    for w in versions.windows(2) {
        let (from, to) = (&w[0], &w[1]);
        let (mut dels, mut adds): (Vec<MRec>, Vec<MRec>);
        if form != 0 {
            let (rf, rt) = (rrsets_of(&from.1), rrsets_of(&to.1));
            dels = vec![];
            adds = vec![];
            let keys: BTreeSet<(u8, u16)> = rf.keys().chain(rt.keys()).cloned().collect();
            let none = (0u8, BTreeSet::new());
            for k in keys {
                let (f, t) = (rf.get(&k).unwrap_or(&none), rt.get(&k).unwrap_or(&none));
                if f == t {
                    continue;
                }
                let keeps = f.1.intersection(&t.1).next().is_some();
                let gains = t.1.difference(&f.1).next().is_some();
                let whole = if form == 1 { true } else { f.0 != t.0 && !(keeps && gains) };
                for rd in &f.1 {
                    if whole || !t.1.contains(rd) {
                        dels.push(MRec { owner: k.0, rd: *rd, ttl: f.0 });
                    }
                }
                for rd in &t.1 {
                    if whole || !f.1.contains(rd) {
                        adds.push(MRec { owner: k.0, rd: *rd, ttl: t.0 });
                    }
                }
            }
        } else {
            dels = from.1.difference(&to.1).cloned().collect();
            adds = to.1.difference(&from.1).cloned().collect();
        }
        v.push(soa(from.0));
        v.append(&mut dels);
        v.push(soa(to.0));
        v.append(&mut adds);
    }
    v.push(soa(last.0));
    v
}

// ====================================================================
// Real-side helpers
// ====================================================================

fn name(i: u8) -> SName {
    Name::from_str(OWNERS[i as usize]).unwrap()
}

fn data(rd: RD) -> SData {
    match rd {
        RD::Soa(s) => soa_data(actual(s), soav(s)),
        RD::A(x) => ZoneRecordData::A(A::new([10, 0, 0, x].into())),
        RD::Txt(x) => ZoneRecordData::Txt(Txt::build_from_slice(&[b't', b'0' + x]).unwrap()),
        RD::X(i) => {
            let (rt, w) = XS[i as usize];
            match rt {
                16 => ZoneRecordData::Txt(Txt::from_octets(Bytes::from_static(w)).unwrap()),
                _ => ZoneRecordData::Mx(Mx::new(u16::from_be_bytes([w[0], w[1]]), Name::from_octets(Bytes::from_static(&w[2..])).unwrap())),
            }
        }
    }
}

/// the SOA with the given SOA serial and the timers of variant `variant`
fn soa_data(serial: u32, variant: usize) -> SData {
    let t = SOAVS[variant].1;
    ZoneRecordData::Soa(Soa::new(
        Name::from_str("ns.z.").unwrap(),
        Name::from_str("h.z.").unwrap(),
        Serial(serial),
        Ttl::from_secs(t[0]),
        Ttl::from_secs(t[1]),
        Ttl::from_secs(t[2]),
        Ttl::from_secs(t[3]),
    ))
}

/// `ttl`: index into TTLS
fn shared_rrset(rds: &[RD], ttl: u8) -> SharedRrset {
    let d0 = data(rds[0]);
    let mut s = Rrset::new(d0.rtype(), Ttl::from_secs(TTLS[ttl as usize]));
    for rd in rds {
        s.push_data(data(*rd));
    }
    SharedRrset::new(s)
}

/// the SOA RRset of logical version `serial`
fn soa_rrset(serial: u32) -> SharedRrset {
    shared_rrset(&[RD::Soa(serial)], soa(serial).ttl)
}

/// the RRset `kind | ttl << 3` describes
fn kind_rrset(k: u8) -> SharedRrset {
    shared_rrset(&kind_rds(k), k >> 3)
}

fn build_zone(serial: u32, recs: &BTreeSet<MRec>) -> Zone {
    let mut b = ZoneBuilder::new(name(0), Class::IN);
    b.insert_rrset(&name(0), soa_rrset(serial)).unwrap();
    for ((o, _), (ttl, set)) in rrsets_of(recs) {
        let rds: Vec<RD> = set.into_iter().collect();
        b.insert_rrset(&name(o), shared_rrset(&rds, ttl)).unwrap();
    }
    b.build()
}

fn observe_reader(r: &dyn ReadableZone) -> Obs {
    let out: Arc<Mutex<Obs>> = Default::default();
    let o2 = out.clone();
    r.walk(Box::new(move |owner, rrset, _cut| {
        let mut g = o2.lock().unwrap();
        let o = format!("{}", owner).trim_end_matches('.').to_ascii_lowercase();
        for d in rrset.data() {
            let mut buf = Vec::new();
            d.compose_rdata(&mut buf).unwrap();
            fold_rdata(rrset.rtype().to_int(), &mut buf);
            g.push(CRec { owner: o.clone(), rtype: rrset.rtype().to_int(), ttl: rrset.ttl().as_secs(), rdata: buf });
        }
    }));
    let mut v = std::mem::take(&mut *out.lock().unwrap());
    v.sort();
    v
}

fn observe(zone: &Zone) -> Obs {
    observe_reader(zone.read().as_ref())
}

/// Header/shape description of one response message; built with the real
/// MessageBuilder (compression on).
#[derive(Clone, Debug, PartialEq, Eq, Hash)]
struct MsgSpec {
    qd: u8,
    qtype: u16,
    recs: Vec<MRec>,
    qr: bool,
    opcode: u8,
    rcode: u8,
    tc: bool,
    ns: u8,
    /// octets cut off the end of the built message
    chop: u8,
}

impl MsgSpec {
    fn plain(qtype: u16, with_q: bool, recs: &[MRec]) -> MsgSpec {
        MsgSpec { qd: with_q as u8, qtype, recs: recs.to_vec(), qr: true, opcode: 0, rcode: 0, tc: false, ns: 0, chop: 0 }
    }
}

fn build_msg(s: &MsgSpec) -> Bytes {
    let mut mb = MessageBuilder::from_target(TreeCompressor::new(BytesMut::new())).unwrap();
    {
        let h = mb.header_mut();
        h.set_id(0x1234);
        h.set_qr(s.qr);
        h.set_aa(true);
        h.set_opcode(Opcode::from_int(s.opcode));
        h.set_rcode(Rcode::masked_from_int(s.rcode));
        h.set_tc(s.tc);
    }
    let mut q = mb.question();
    for _ in 0..s.qd {
        q.push((name(0), Rtype::from_int(s.qtype))).unwrap();
    }
    let mut a = q.answer();
    for r in &s.recs {
        a.push((name(r.owner), Class::IN, Ttl::from_secs(TTLS[r.ttl as usize]), data(r.rd))).unwrap();
    }
    let mut au = a.authority();
    for _ in 0..s.ns {
        au.push((name(0), Class::IN, Ttl::from_secs(TTL), data(RD::A(9)))).unwrap();
    }
    let m: Message<Bytes> = au.into_message();
    let b = m.into_octets();
    b.slice(..b.len() - (s.chop as usize).min(b.len()))
}

/// Split `seq` at the cut positions in `mask` (bit i = cut after RR i).
/// qmode 0: question only in the first message; 1: in every message.
fn split_specs(seq: &[MRec], mask: u32, qtype: u16, qmode: u8) -> Vec<MsgSpec> {
    let mut out = vec![];
    let mut cur = vec![];
    for (i, r) in seq.iter().enumerate() {
        cur.push(*r);
        if i + 1 == seq.len() || mask & (1 << i) != 0 {
            let first = out.is_empty();
            out.push(MsgSpec::plain(qtype, first || qmode == 1, &cur));
            cur.clear();
        }
    }
    out
}

// ---- the real pipeline ----

#[derive(Clone, Debug, PartialEq, Eq)]
enum Outcome {
    Finished,
    Err { at: usize, class: String },
    Incomplete,
}

struct DiffObs {
    removed: Vec<CRec>,
    added: Vec<CRec>,
    start: u32,
    end: u32,
}

fn diff_obs(d: &InMemoryZoneDiff) -> DiffObs {
    let conv = |m: &std::collections::HashMap<(SName, Rtype), SharedRrset>| {
        let mut v = vec![];
        for ((owner, rt), rrset) in m.iter() {
            let o = format!("{}", owner).trim_end_matches('.').to_ascii_lowercase();
            for dd in rrset.data() {
                let mut buf = Vec::new();
                dd.compose_rdata(&mut buf).unwrap();
                fold_rdata(rrset.rtype().to_int(), &mut buf);
                // the key's type and the RRset's type are reported separately on purpose
                let _ = rt;
                v.push(CRec { owner: o.clone(), rtype: rrset.rtype().to_int(), ttl: rrset.ttl().as_secs(), rdata: buf });
            }
        }
        v.sort();
        v
    };
    DiffObs { removed: conv(&d.removed), added: conv(&d.added), start: d.start_serial.into_int(), end: d.end_serial.into_int() }
}

#[derive(Default)]
struct RealRec {
    /// observation by a fresh reader after each fully consumed message
    snaps: Vec<Obs>,
    readers: Vec<Box<dyn ReadableZone>>,
    diffs: Vec<(Obs, DiffObs, Obs)>,
    consumed: usize,
    updates: Vec<&'static str>,
    /// the diffs of `diffs` as returned by apply()
    raw_diffs: Vec<InMemoryZoneDiff>,
}

fn err_class(s: String) -> String {
    s.split(|c| c == '(' || c == '{' || c == ':').next().unwrap_or("").trim().to_string()
}

/// The receiving pipeline: real interpreter + real updater, fed one response
/// message at a time (by the batch driver below or by the stream client).
struct Pipe {
    up: ZoneUpdater,
    it: XfrResponseInterpreter,
    /// The driver behaves like a client on a stream transport: a first IXFR
    /// message holding only the SOA is the UDP "retry over TCP" signal only
    /// if nothing follows it; otherwise the following messages are passed on.
    lone_soa_at: Option<usize>,
    i: usize,
}

enum Feed {
    More,
    /// the transfer is complete, further messages are not looked at
    Stop,
    End(Outcome),
}

fn lone_soa_err(at: usize) -> Outcome {
    Outcome::Err { at, class: "iter:SingleSoaIxfrTcpRetrySignal".into() }
}

impl Pipe {
    async fn new(zone: &Zone) -> Result<Pipe, Outcome> {
        match ZoneUpdater::new(zone.clone()).await {
            Ok(up) => Ok(Pipe { up, it: XfrResponseInterpreter::new(), lone_soa_at: None, i: 0 }),
            Err(e) => Err(Outcome::Err { at: 0, class: format!("updater-new:{}", err_class(format!("{e}"))) }),
        }
    }

    async fn feed(&mut self, zone: &Zone, m: &Bytes, rec: &mut RealRec) -> Feed {
        let i = self.i;
        if self.it.is_finished() {
            if let Some(at) = self.lone_soa_at {
                return Feed::End(lone_soa_err(at)); // the interpreter refuses to go on after the signal
            }
            return Feed::Stop;
        }
        let msg = match Message::from_octets(m.clone()) {
            Ok(m) => m,
            Err(_) => return Feed::End(Outcome::Err { at: i, class: "short-message".into() }),
        };
        let iter = match self.it.interpret_response(msg) {
            Ok(x) => x,
            Err(e) => {
                if let (Some(at), domain::net::xfr::protocol::Error::Finished) = (self.lone_soa_at, &e) {
                    return Feed::End(lone_soa_err(at));
                }
                return Feed::End(Outcome::Err { at: i, class: format!("interp:{}", err_class(format!("{e:?}"))) });
            }
        };
        self.lone_soa_at = None;
        for u in iter {
            let u = match u {
                Ok(u) => u,
                Err(IterationError::SingleSoaIxfrTcpRetrySignal) => {
                    self.lone_soa_at = Some(i);
                    continue;
                }
                Err(e) => return Feed::End(Outcome::Err { at: i, class: format!("iter:{}", err_class(format!("{e:?}"))) }),
            };
            let (commits, nm) = match &u {
                ZoneUpdate::DeleteAllRecords => (false, "DeleteAll"),
                ZoneUpdate::DeleteRecord(_) => (false, "Delete"),
                ZoneUpdate::AddRecord(_) => (false, "Add"),
                ZoneUpdate::BeginBatchDelete(_) => (true, "BeginBatchDelete"),
                ZoneUpdate::BeginBatchAdd(_) => (false, "BeginBatchAdd"),
                ZoneUpdate::Finished(_) => (true, "Finished"),
                _ => (false, "other"),
            };
            rec.updates.push(nm);
            let before = if commits { Some(observe(zone)) } else { None };
            match self.up.apply(u).await {
                Ok(Some(d)) => {
                    if let Some(b) = before {
                        if let Some(why) = diff_trait_view_differs(&d) {
                            return Feed::End(Outcome::Err { at: i, class: format!("diff-trait-view:{why}") });
                        }
                        rec.diffs.push((b, diff_obs(&d), observe(zone)));
                        rec.raw_diffs.push(d);
                    }
                }
                Ok(None) => {}
                Err(e) => return Feed::End(Outcome::Err { at: i, class: format!("updater:{}", err_class(format!("{e}"))) }),
            }
        }
        self.i += 1;
        rec.consumed = self.i;
        let r = zone.read();
        rec.snaps.push(observe_reader(r.as_ref()));
        rec.readers.push(r);
        Feed::More
    }

    /// No further message will come.
    fn finish(self) -> Outcome {
        if let Some(at) = self.lone_soa_at {
            return lone_soa_err(at);
        }
        if self.it.is_finished() != self.up.is_finished() {
            return Outcome::Err { at: self.i, class: format!("updater.is_finished()={}-but-interpreter.is_finished()={}", self.up.is_finished(), self.it.is_finished()) };
        }
        if self.it.is_finished() {
            Outcome::Finished
        } else {
            Outcome::Incomplete
        }
    }
}

async fn run_pipeline(zone: &Zone, msgs: &[Bytes], rec: &mut RealRec) -> Outcome {
    let mut pipe = match Pipe::new(zone).await {
        Ok(p) => p,
        Err(o) => return o,
    };
    for m in msgs {
        match pipe.feed(zone, m, rec).await {
            Feed::More => {}
            Feed::Stop => break,
            Feed::End(o) => return o,
        }
    }
    pipe.finish()
}

/// The same diff read through the `ZoneDiff` trait (what the sender
/// middleware consumes) and through the public fields must agree.
fn diff_trait_view_differs(d: &InMemoryZoneDiff) -> Option<String> {
    use futures_util::FutureExt;
    let start = d.start_serial().now_or_never()?;
    let end = d.end_serial().now_or_never()?;
    if start != d.start_serial || end != d.end_serial {
        return Some("serials".into());
    }
    let added: Vec<_> = d.added().collect::<Vec<_>>().now_or_never()?;
    let removed: Vec<_> = d.removed().collect::<Vec<_>>().now_or_never()?;
    if added.len() != d.added.len() || removed.len() != d.removed.len() {
        return Some("item-count".into());
    }
    for (which, items, map) in [("added", &added, &d.added), ("removed", &removed, &d.removed)] {
        for it in items.iter() {
            let (k, v) = (it.key(), it.value());
            if map.get(k) != Some(v) {
                return Some(format!("{which}-item"));
            }
            let got = if which == "added" { d.get_added(k.0.clone(), k.1).now_or_never()? } else { d.get_removed(k.0.clone(), k.1).now_or_never()? };
            if got != Some(v) {
                return Some(format!("get_{which}"));
            }
        }
    }
    None
}

// ====================================================================
// The real stream client between the wire and the pipeline
// ====================================================================

type CliReq = domain::net::client::request::RequestMessage<Vec<u8>>;
type CliReqMulti = domain::net::client::request::RequestMessageMulti<Vec<u8>>;

/// The XFR request a client sends: question z. AXFR/IXFR, for IXFR with the
/// SOA of the version the client holds in the authority section.
fn xfr_request_msg(qtype: u16, client_serial: Option<u32>) -> Message<Vec<u8>> {
    let mut q = MessageBuilder::new_vec().question();
    q.push((name(0), Rtype::from_int(qtype))).unwrap();
    match client_serial {
        Some(s) => {
            let mut a = q.authority();
            a.push((name(0), Class::IN, Ttl::from_secs(TTL), data(RD::Soa(s)))).unwrap();
            a.into_message()
        }
        None => q.into_message(),
    }
}

async fn read_framed<R: tokio::io::AsyncRead + Unpin>(r: &mut R) -> Option<Vec<u8>> {
    use tokio::io::AsyncReadExt;
    let mut l = [0u8; 2];
    r.read_exact(&mut l).await.ok()?;
    let mut buf = vec![0u8; u16::from_be_bytes(l) as usize];
    r.read_exact(&mut buf).await.ok()?;
    Some(buf)
}

async fn write_framed<W: tokio::io::AsyncWrite + Unpin>(w: &mut W, m: &[u8]) -> bool {
    use tokio::io::AsyncWriteExt;
    w.write_all(&(m.len() as u16).to_be_bytes()).await.is_ok() && w.write_all(m).await.is_ok()
}

/// What the stream client handed over.
struct Delivered {
    msgs: Vec<Bytes>,
    /// None: the client reported the end of the response stream
    error: Option<String>,
}

/// Drive a multi-response request through the real stream client connected
/// by an in-memory duplex to `server`, which gets the server end and the
/// request octets the client really sent.  `on_msg` sees every message the
/// client delivers and says whether it wants more.
async fn client_exchange<S, F, Fut>(qtype: u16, client_serial: Option<u32>, server: S, mut on_msg: F) -> Delivered
where
    S: FnOnce(tokio::io::DuplexStream, Vec<u8>) -> Fut + Send + 'static,
    Fut: Future<Output = ()> + Send + 'static,
    F: AsyncFnMut(&Bytes) -> bool,
{
    use domain::net::client::request::SendRequestMulti;
    let (cli, mut srv) = tokio::io::duplex(1 << 20);
    let mut cfg = domain::net::client::stream::Config::new();
    cfg.set_response_timeout(std::time::Duration::from_secs(2));
    cfg.set_streaming_response_timeout(std::time::Duration::from_secs(2));
    cfg.set_idle_timeout(std::time::Duration::from_secs(1));
    let (conn, transport) = domain::net::client::stream::Connection::<CliReq, CliReqMulti>::with_config(cli, cfg);
    let tr = tokio::spawn(transport.run());
    let sv = tokio::spawn(async move {
        if let Some(req) = read_framed(&mut srv).await {
            server(srv, req).await;
        }
    });
    let mut out = Delivered { msgs: vec![], error: None };
    match CliReqMulti::new(xfr_request_msg(qtype, client_serial)) {
        Err(e) => out.error = Some(format!("request:{}", err_class(format!("{e:?}")))),
        Ok(req) => {
            let mut get = conn.send_request(req);
            loop {
                match tokio::time::timeout(std::time::Duration::from_secs(8), get.get_response()).await {
                    Err(_) => {
                        out.error = Some("hang".into());
                        break;
                    }
                    Ok(Err(e)) => {
                        out.error = Some(err_class(format!("{e:?}")));
                        break;
                    }
                    Ok(Ok(None)) => break,
                    Ok(Ok(Some(m))) => {
                        let b = m.into_octets();
                        out.msgs.push(b.clone());
                        if !on_msg(&b).await {
                            break;
                        }
                    }
                }
            }
        }
    }
    drop(conn);
    sv.abort();
    tr.abort();
    let _ = sv.await;
    let _ = tr.await;
    out
}

/// A scripted server: answers the request with the given messages (carrying
/// the ID of the request) and closes the connection.
fn scripted_server(msgs: Vec<Bytes>) -> impl FnOnce(tokio::io::DuplexStream, Vec<u8>) -> Pin<Box<dyn Future<Output = ()> + Send>> + Send + 'static {
    move |mut srv, req| {
        Box::pin(async move {
            for m in &msgs {
                let mut v = m.to_vec();
                if v.len() >= 2 && req.len() >= 2 {
                    v[0] = req[0];
                    v[1] = req[1];
                }
                if !write_framed(&mut srv, &v).await {
                    return;
                }
            }
            use tokio::io::AsyncWriteExt;
            let _ = srv.shutdown().await;
        })
    }
}

/// The pipeline fed by the real stream client from a scripted server.
async fn run_pipeline_via_client(zone: &Zone, msgs: &[Bytes], qtype: u16, client_serial: Option<u32>, rec: &mut RealRec) -> Outcome {
    let mut pipe = match Pipe::new(zone).await {
        Ok(p) => p,
        Err(o) => return o,
    };
    let mut ended: Option<Outcome> = None;
    let d = client_exchange(qtype, client_serial, scripted_server(msgs.to_vec()), async |b: &Bytes| match pipe.feed(zone, b, rec).await {
        Feed::More => true,
        Feed::Stop => false,
        Feed::End(o) => {
            ended = Some(o);
            false
        }
    })
    .await;
    if let Some(o) = ended {
        return o;
    }
    match d.error {
        // the client gave up: an error of the transfer unless the pipeline had all it needs
        Some(e) if !pipe.it.is_finished() => Outcome::Err { at: d.msgs.len(), class: format!("client:{e}") },
        None if pipe.lone_soa_at.is_some() && d.msgs.len() < msgs.len() => {
            // the client itself declared the response complete after a first message that holds only the SOA
            Outcome::Err { at: 0, class: "client:end-of-responses-after-a-first-message-holding-only-the-soa".into() }
        }
        _ => pipe.finish(),
    }
}

thread_local! {
    static RT: tokio::runtime::Runtime = tokio::runtime::Builder::new_current_thread().enable_time().build().unwrap();
}

struct RealOut {
    outcome: Result<Outcome, String>, // Err = panic message
    rec: RealRec,
    pinned_before: Obs,
    final_obs: Obs,
    reader_unstable: Option<usize>,
}

fn run_real(mk_zone: &dyn Fn() -> Zone, msgs: &[Bytes], via_client: Option<(u16, Option<u32>)>) -> RealOut {
    let zone = mk_zone();
    let pinned = zone.read();
    let mut rec = RealRec::default();
    let outcome = guard(|| {
        RT.with(|rt| {
            rt.block_on(async {
                match via_client {
                    None => run_pipeline(&zone, msgs, &mut rec).await,
                    Some((qtype, serial)) => run_pipeline_via_client(&zone, msgs, qtype, serial, &mut rec).await,
                }
            })
        })
    });
    let final_obs = observe(&zone);
    let pinned_before = observe_reader(pinned.as_ref());
    let mut reader_unstable = None;
    for (i, r) in rec.readers.iter().enumerate() {
        if observe_reader(r.as_ref()) != rec.snaps[i] {
            reader_unstable = Some(i);
            break;
        }
    }
    RealOut { outcome, rec, pinned_before, final_obs, reader_unstable }
}

// ====================================================================
// Independent reference interpreter of the transfer framing
// (RFC 5936 2.2 header values + SOA framing; RFC 1995 4 difference
// sequences).  Works on the wire octets with mc::wire only.
// ====================================================================

#[derive(Clone, Copy, PartialEq, Eq, Debug)]
enum V {
    Invalid,
    Valid,
    /// the RFCs leave the case open (trailing data after the closing SOA,
    /// deleting an absent RR, adding a present RR, ...): Ok(Z') or Err
    Either,
    /// IXFR answered by a single SOA: no transfer; zone must stay as it is
    UpToDate,
    /// IXFR answer starting SOA(x) SOA(x): RFC 1995 does not let a client
    /// tell an AXFR-style answer for a SOA-only zone from a difference list;
    /// only "no panic" and reader stability are demanded
    Open,
}

struct RefOut {
    verdict: V,
    reason: &'static str,
    xfr: &'static str,
    final_zone: Option<Obs>,
    completed: Vec<Obs>,
    tainted: bool,
    /// RRsets whose TTL the (damaged) stream does not settle: RRs of one RRset
    /// with different TTLs in an AXFR or among the additions of one difference
    /// sequence, a deleted or re-added RR that is there with another TTL.
    /// Zone comparisons leave the TTL of these RRsets out.
    ttl_open: BTreeSet<(String, u16)>,
}

/// `o` with the TTLs of the RRsets in `open` blanked
fn blank_ttls(o: &Obs, open: &BTreeSet<(String, u16)>) -> Obs {
    if open.is_empty() {
        return o.clone();
    }
    let mut v: Obs = o.iter().map(|c| if open.contains(&(c.owner.clone(), c.rtype)) { CRec { ttl: 0, ..c.clone() } } else { c.clone() }).collect();
    v.sort();
    v
}

fn crec_from_raw(msg: &[u8], r: &wire::RawRecord) -> Result<CRec, String> {
    let owner = r.owner.iter().map(|l| String::from_utf8_lossy(&wire::lower(l)).to_string()).collect::<Vec<_>>().join(".");
    let rdata = if r.rtype == 6 {
        let mut p = vec![];
        let (m, pos) = wire::read_name(msg, r.rdata_pos, &mut p)?;
        let (rn, pos2) = wire::read_name(msg, pos, &mut p)?;
        let mut v = wire::to_wire(&m);
        v.extend(wire::to_wire(&rn));
        v.extend_from_slice(msg.get(pos2..pos2 + 20).ok_or("short soa")?);
        if pos2 + 20 != r.rdata_pos + r.rdata.len() {
            return Err("soa rdlen".into());
        }
        v
    } else if r.rtype == 15 {
        // MX: preference + exchange (may be compressed, RFC 1035 3.3.9), name folded
        let mut p = vec![];
        let (ex, pos) = wire::read_name(msg, r.rdata_pos + 2, &mut p)?;
        if r.rdata.len() < 3 || pos != r.rdata_pos + r.rdata.len() {
            return Err("mx rdlen".into());
        }
        let mut v = r.rdata[..2].to_vec();
        v.extend(wire::to_wire(&ex));
        fold_rdata(15, &mut v);
        v
    } else {
        r.rdata.clone()
    };
    if r.class != 1 {
        return Err("class".into());
    }
    Ok(CRec { owner, rtype: r.rtype, ttl: r.ttl, rdata })
}

/// Like `wire::read_message`, but keeps what could be read when the message
/// is damaged further on (a receiver works through a message record by
/// record).  Returns the readable part and whether the message was intact.
fn read_message_upto_damage(msg: &[u8]) -> Option<(wire::RawMessage, bool)> {
    if msg.len() < 12 {
        return None;
    }
    let mut m = wire::RawMessage { id: wire::u16_at(msg, 0).ok()?, flags: wire::u16_at(msg, 2).ok()?, ..Default::default() };
    for i in 0..4 {
        m.counts[i] = wire::u16_at(msg, 4 + 2 * i).ok()?;
    }
    let mut pos = 12;
    for _ in 0..m.counts[0] {
        let Ok((qname, p)) = wire::read_name(msg, pos, &mut m.pointers) else { return Some((m, false)) };
        let (Ok(qtype), Ok(qclass)) = (wire::u16_at(msg, p), wire::u16_at(msg, p + 2)) else { return Some((m, false)) };
        pos = p + 4;
        m.questions.push(wire::RawQuestion { qname, qtype, qclass });
    }
    for sec in 0..3 {
        for _ in 0..m.counts[sec + 1] {
            let Ok((owner, p)) = wire::read_name(msg, pos, &mut m.pointers) else { return Some((m, false)) };
            let (Ok(rtype), Ok(class), Ok(ttl), Ok(rdlen)) = (wire::u16_at(msg, p), wire::u16_at(msg, p + 2), wire::u32_at(msg, p + 4), wire::u16_at(msg, p + 8)) else {
                return Some((m, false));
            };
            let Some(rdata) = msg.get(p + 10..p + 10 + rdlen as usize) else { return Some((m, false)) };
            m.sections[sec].push(wire::RawRecord { owner, rtype, class, ttl, rdata_pos: p + 10, rdata: rdata.to_vec() });
            pos = p + 10 + rdlen as usize;
        }
    }
    m.end = pos;
    let intact = pos == msg.len();
    Some((m, intact))
}

fn with_soa(content: &BTreeSet<CRec>, soa: &CRec) -> Obs {
    let mut v: Obs = content.iter().cloned().collect();
    v.push(soa.clone());
    v.sort();
    v
}

fn reference(msgs: &[Bytes], old: &Obs) -> RefOut {
    #[derive(PartialEq)]
    enum St {
        Start,
        IxfrSecond,
        AxfrBody,
        IxfrDel,
        IxfrAdd,
    }
    let old_soa = old.iter().find(|c| c.rtype == 6).cloned();
    let old_content: BTreeSet<CRec> = old.iter().filter(|c| c.rtype != 6).cloned().collect();
    let mut st = St::Start;
    let mut qtype0 = 0u16;
    let mut soa0: Option<CRec> = None;
    let mut newset: BTreeSet<CRec> = BTreeSet::new();
    let mut work = old_content;
    let mut seq_new: Option<CRec> = None;
    let mut completed: Vec<Obs> = vec![];
    let mut tainted = false;
    let mut ended = false;
    let mut trailing = false;
    let mut final_zone: Option<Obs> = None;
    let mut rr_total = 0usize;
    let mut closing_mismatch = false;
    // records added by the difference sequence being read
    let mut seq_added: BTreeSet<CRec> = BTreeSet::new();
    let mut ttl_open: BTreeSet<(String, u16)> = BTreeSet::new();
    // AXFR body: an RR of an RRset that already holds RRs with another TTL (RFC 2181 5.2
    // wants one TTL per RRset and leaves the handling to the receiver); the same RR
    // with another TTL is a duplicate
    fn axfr_insert(newset: &mut BTreeSet<CRec>, c: CRec, ttl_open: &mut BTreeSet<(String, u16)>, tainted: &mut bool) {
        if newset.iter().any(|w| w.owner == c.owner && w.rtype == c.rtype && w.ttl != c.ttl) {
            ttl_open.insert((c.owner.clone(), c.rtype));
            *tainted = true;
        }
        if !newset.iter().any(|w| w.owner == c.owner && w.rtype == c.rtype && w.rdata == c.rdata) {
            newset.insert(c);
        }
    }
    let mut xfr = "unknown";
    macro_rules! invalid {
        ($r:expr) => {
            return RefOut { verdict: V::Invalid, reason: $r, xfr, final_zone: None, completed, tainted, ttl_open }
        };
    }
    'msgs: for (i, m) in msgs.iter().enumerate() {
        if ended {
            trailing = true;
            break;
        }
        let Some((raw, intact)) = read_message_upto_damage(m) else { invalid!("malformed") };
        if raw.questions.len() != raw.counts[0] as usize {
            invalid!("malformed");
        }
        let f = raw.flags;
        if f >> 15 & 1 == 0 {
            invalid!("hdr-qr0");
        }
        if f >> 11 & 0xf != 0 {
            invalid!("hdr-opcode");
        }
        if f & 0xf != 0 {
            invalid!("hdr-rcode");
        }
        if f >> 9 & 1 != 0 {
            invalid!("hdr-tc");
        }
        let qd = raw.counts[0];
        if i == 0 {
            if qd != 1 {
                invalid!("qdcount-first");
            }
            qtype0 = raw.questions[0].qtype;
            if qtype0 != 252 && qtype0 != 251 {
                invalid!("qtype-not-xfr");
            }
            xfr = if qtype0 == 252 { "axfr" } else { "ixfr" };
            if raw.questions[0].qclass != 1 || raw.questions[0].qname != vec![b"z".to_vec()] {
                tainted = true;
            }
        } else {
            if qd > 1 {
                invalid!("qdcount-later");
            }
            if qd == 1 && raw.questions[0].qtype != qtype0 {
                tainted = true;
            }
        }
        if raw.counts[1] == 0 {
            if i == 0 {
                invalid!("ancount0-first");
            }
            tainted = true;
        }
        if raw.counts[2] != 0 {
            if qtype0 == 252 {
                invalid!("nscount");
            }
            tainted = true;
        }
        for rr in &raw.sections[0] {
            if ended {
                trailing = true;
                break 'msgs;
            }
            let c = match crec_from_raw(m, rr) {
                Ok(c) => c,
                Err(_) => invalid!("malformed"),
            };
            rr_total += 1;
            if !(c.owner == "z" || c.owner.ends_with(".z")) {
                // a record outside the zone cannot be part of it: a receiver may
                // refuse the transfer or leave the record out
                tainted = true;
                continue;
            }
            let is_soa = c.rtype == 6;
            match st {
                St::Start => {
                    if !is_soa {
                        invalid!("first-rr-not-soa");
                    }
                    soa0 = Some(c);
                    st = if qtype0 == 252 { St::AxfrBody } else { St::IxfrSecond };
                }
                St::IxfrSecond => {
                    if is_soa {
                        if Some(&c) == soa0.as_ref() {
                            return RefOut { verdict: V::Open, reason: "ixfr-soa-soa", xfr, final_zone: None, completed, tainted, ttl_open };
                        }
                        if Some(&c) != old_soa.as_ref() {
                            tainted = true; // difference sequence for another base version
                        }
                        st = St::IxfrDel;
                    } else {
                        xfr = "ixfr-axfr-style";
                        axfr_insert(&mut newset, c, &mut ttl_open, &mut tainted);
                        st = St::AxfrBody;
                    }
                }
                St::AxfrBody => {
                    if is_soa {
                        if Some(&c) == soa0.as_ref() {
                            let z = with_soa(&newset, &c);
                            completed.push(z.clone());
                            final_zone = Some(z);
                            ended = true;
                        } else {
                            tainted = true; // a foreign SOA inside an AXFR body
                        }
                    } else {
                        axfr_insert(&mut newset, c, &mut ttl_open, &mut tainted); // RFC 5936 2.2: duplicates MUST be ignored
                    }
                }
                St::IxfrDel => {
                    if is_soa {
                        seq_new = Some(c);
                        seq_added.clear();
                        st = St::IxfrAdd;
                    } else if work.iter().any(|w| w.owner == c.owner && w.rtype == c.rtype && w.ttl != c.ttl) {
                        // the deleted RR claims a TTL the RRset does not have in the version the
                        // sequence starts from: the stream does not fit that version (open either
                        // way), and it does not settle the TTL of what is left of the RRset
                        tainted = true;
                        ttl_open.insert((c.owner.clone(), c.rtype));
                        if let Some(other) = work.iter().find(|w| w.owner == c.owner && w.rtype == c.rtype && w.rdata == c.rdata).cloned() {
                            work.remove(&other);
                        }
                    } else if !work.remove(&c) {
                        // absent, or present with another TTL: open either way
                        tainted = true;
                        if let Some(other) = work.iter().find(|w| w.owner == c.owner && w.rtype == c.rtype && w.rdata == c.rdata).cloned() {
                            work.remove(&other);
                            ttl_open.insert((c.owner.clone(), c.rtype));
                        }
                    }
                }
                St::IxfrAdd => {
                    if is_soa {
                        let sn = seq_new.clone().unwrap();
                        let version = with_soa(&work, &sn);
                        completed.push(version.clone());
                        if Some(&c) == soa0.as_ref() {
                            // closing SOA.  RFC 1995 4: the list of difference sequences is
                            // followed by a copy of the server's current SOA, and the newer
                            // SOA of the last sequence is that version.  If it is not, the
                            // lenient reading (BIND) ends the transfer at the last completed
                            // version, the strict one rejects; both are accepted, anything
                            // else is not a version of the sender.
                            if Some(&sn) != soa0.as_ref() {
                                closing_mismatch = true;
                            }
                            final_zone = Some(version);
                            ended = true;
                        } else {
                            if c != sn {
                                tainted = true; // older SOA of this sequence is not the newer SOA of the previous one
                            }
                            st = St::IxfrDel;
                        }
                    } else {
                        // The added RR is an RR of the newer version (RFC 1995 4) and all
                        // RRs of an RRset have one TTL (RFC 2181 5.2): records the RRset
                        // keeps from the older version have the TTL of the added RR in the
                        // newer one.  RRs of one RRset added with different TTLs describe
                        // no version of a zone.
                        let mates: Vec<CRec> = work.iter().filter(|w| w.owner == c.owner && w.rtype == c.rtype && w.ttl != c.ttl).cloned().collect();
                        for w in mates {
                            if seq_added.contains(&w) || w.rdata == c.rdata {
                                tainted = true;
                                ttl_open.insert((c.owner.clone(), c.rtype));
                            }
                            work.remove(&w);
                            work.insert(CRec { ttl: c.ttl, ..w });
                        }
                        if !work.insert(c.clone()) {
                            tainted = true;
                        }
                        seq_added.insert(c);
                    }
                }
            }
        }
        if !intact && !ended {
            // (versions completed by the records in front of the damage stay completed)
            invalid!("malformed");
        }
        if !intact {
            trailing = true;
        }
    }
    if !ended {
        if qtype0 == 251 && rr_total == 1 && msgs.len() == 1 {
            return RefOut { verdict: V::UpToDate, reason: "ixfr-single-soa", xfr, final_zone: None, completed, tainted, ttl_open };
        }
        invalid!("incomplete");
    }
    if closing_mismatch && tainted {
        // a stream that is garbled in more than one way: nothing but "no panic" is demanded
        return RefOut { verdict: V::Open, reason: "garbled", xfr, final_zone: None, completed, tainted, ttl_open };
    }
    let verdict = if trailing || tainted || closing_mismatch { V::Either } else { V::Valid };
    let reason = if closing_mismatch {
        "ixfr-closing-soa-is-not-last-diff-soa"
    } else if trailing {
        "trailing-data"
    } else if tainted {
        "tainted"
    } else {
        "ok"
    };
    RefOut { verdict, reason, xfr, final_zone, completed, tainted, ttl_open }
}

// ====================================================================
// Judging one receiver case
// ====================================================================

#[derive(Default)]
struct Local {
    counters: BTreeMap<String, u64>,
    states: std::collections::HashSet<u64>,
    transitions: u64,
    runs: u64,
    sampled: std::collections::HashSet<String>,
}

thread_local! {
    static LOCAL: std::cell::RefCell<Local> = std::cell::RefCell::new(Local::default());
}

fn lcount(k: &str) {
    LOCAL.with(|l| {
        let mut l = l.borrow_mut();
        if let Some(v) = l.counters.get_mut(k) {
            *v += 1;
        } else {
            l.counters.insert(k.to_string(), 1);
        }
    });
}

struct Shared {
    ctx: Arc<Ctx>,
    stats: Stats,
    seen: Mutex<std::collections::HashSet<String>>,
    sample_keys: Mutex<BTreeMap<String, u32>>,
    samples: Mutex<Vec<Value>>,
}

/// Report a violation; the (costly) description and replay case are only
/// built for the first instance of a signature.
fn report(sh: &Shared, sig: &str, what: &dyn Fn() -> String, case: &dyn Fn() -> Value) {
    {
        // the first instance is handed to Ctx while the lock is held, so that
        // no later instance (empty description) can overtake it
        let mut g = sh.seen.lock().unwrap();
        if g.insert(sig.to_string()) {
            sh.ctx.violation(sig, &what(), case());
            return;
        }
    }
    sh.ctx.violation(sig, "", Value::Null);
}

/// Keep one sample per key, at most 48 keys.
fn sample(sh: &Shared, key: &str, v: &dyn Fn() -> Value) {
    let fresh = LOCAL.with(|l| l.borrow_mut().sampled.insert(key.to_string()));
    if !fresh {
        return;
    }
    let mut g = sh.sample_keys.lock().unwrap();
    if g.len() >= 48 || g.contains_key(key) {
        return;
    }
    g.insert(key.to_string(), 1);
    drop(g);
    sh.samples.lock().unwrap().push(v());
}

fn obs_hash(o: &Obs) -> u64 {
    let mut v = vec![];
    for c in o {
        v.extend_from_slice(c.owner.as_bytes());
        v.push(0);
        v.extend_from_slice(&c.rtype.to_be_bytes());
        v.extend_from_slice(&c.ttl.to_be_bytes());
        v.extend_from_slice(&c.rdata);
        v.push(0xff);
    }
    fnv(&v)
}

/// Apply a difference set to zone content.  Removed records are taken out;
/// added records are put in, and since all records of an RRset have one TTL
/// (RFC 2181 5.2) the records an RRset keeps get the TTL of the records added
/// to it.  (A removed record that is only there with another TTL is left
/// alone: the diff does not describe the content it is applied to.)
fn apply_diff(before: &Obs, d: &DiffObs) -> BTreeSet<CRec> {
    let mut s: BTreeSet<CRec> = before.iter().cloned().collect();
    for r in &d.removed {
        s.remove(r);
    }
    for a in &d.added {
        let mates: Vec<CRec> = s.iter().filter(|w| w.owner == a.owner && w.rtype == a.rtype && w.ttl != a.ttl).cloned().collect();
        for w in mates {
            s.remove(&w);
            s.insert(CRec { ttl: a.ttl, ..w });
        }
        s.insert(a.clone());
    }
    s
}

/// If `got` and `want` hold the same records and differ only in TTLs: the
/// structural class of the first RRset whose TTL differs - how TTL and records
/// of that RRset change from `old` to `want`, and what `got` has instead.
fn ttl_cause(old: &[CRec], want: &[CRec], got: &[CRec]) -> Option<String> {
    let strip = |o: &[CRec]| {
        let mut v: Vec<(String, u16, Vec<u8>)> = o.iter().map(|c| (c.owner.clone(), c.rtype, c.rdata.clone())).collect();
        v.sort();
        v
    };
    if strip(got) != strip(want) {
        return None;
    }
    let rrset = |o: &[CRec], owner: &str, rtype: u16| -> (Option<u32>, BTreeSet<Vec<u8>>) {
        let mut ttl = None;
        let mut set = BTreeSet::new();
        for c in o.iter().filter(|c| c.owner == owner && c.rtype == rtype) {
            ttl = Some(c.ttl);
            set.insert(c.rdata.clone());
        }
        (ttl, set)
    };
    let mut wsorted: Vec<&CRec> = want.iter().collect();
    wsorted.sort();
    for w in wsorted {
        let (gt, _) = rrset(got, &w.owner, w.rtype);
        if gt == Some(w.ttl) && got.iter().filter(|c| c.owner == w.owner && c.rtype == w.rtype).all(|c| c.ttl == w.ttl) {
            continue;
        }
        let (ot, oset) = rrset(old, &w.owner, w.rtype);
        let (_, wset) = rrset(want, &w.owner, w.rtype);
        let ttl_ch = match ot {
            None => "rrset-new",
            Some(t) if t < w.ttl => "ttl-raised",
            Some(t) if t > w.ttl => "ttl-lowered",
            Some(_) => "ttl-unchanged",
        };
        let keeps = oset.intersection(&wset).next().is_some();
        let gains = wset.difference(&oset).next().is_some();
        let loses = oset.difference(&wset).next().is_some();
        let rec_ch = match (ot.is_some(), keeps, gains, loses) {
            (false, ..) => "records-new",
            (true, true, false, false) => "records-unchanged",
            (true, true, true, false) => "records-added",
            (true, true, false, true) => "records-removed",
            (true, true, true, true) => "records-added-and-removed",
            (true, false, ..) => "records-replaced",
        };
        let has = if gt.is_some() && gt == ot { "has-old-ttl" } else { "has-other-ttl" };
        let what = if w.rtype == 6 { "soa" } else { "rrset" };
        return Some(format!("{what}-ttl-differs({ttl_ch},{rec_ch},{has})"));
    }
    None
}

/// diff(before) and after hold the same records with different TTLs: the class of the first such RRset
fn diff_ttl_cause(before: &Obs, d: &DiffObs, after: &Obs) -> Option<String> {
    let got: Vec<CRec> = apply_diff(before, d).into_iter().collect();
    ttl_cause(before, after, &got)
}

/// Classify the difference between diff(before) and after.
fn diff_mismatch(before: &Obs, d: &DiffObs, after: &Obs) -> Option<String> {
    let got = apply_diff(before, d);
    let want: BTreeSet<CRec> = after.iter().cloned().collect();
    if got == want {
        return None;
    }
    let bset: BTreeSet<CRec> = before.iter().cloned().collect();
    let mut kinds = BTreeSet::new();
    for r in got.difference(&want) {
        kinds.insert(if bset.contains(r) { "removal-missing" } else { "spurious-addition" });
    }
    for r in want.difference(&got) {
        kinds.insert(if bset.contains(r) { "spurious-removal" } else { "addition-missing" });
    }
    Some(kinds.into_iter().collect::<Vec<_>>().join("+"))
}

struct Case<'a> {
    part: &'static str,
    label: String,
    old_kinds: Kinds,
    old_serial: u32,
    old: &'a BTreeSet<MRec>,
    /// Some(new) for honest streams: what the sender holds
    honest_new: Option<Obs>,
    honest_versions: Vec<Obs>,
    fault: Option<String>,
    msgs: Vec<Bytes>,
    /// a receiver zone outside the 64-zone universe (part T): its content and how to build it
    custom_old: Option<(Obs, &'a (dyn Fn() -> Zone + Sync))>,
    /// how to re-run the case when it is not described by (old zone, octets)
    replay_as: Option<Value>,
    /// Some((qtype, client serial)): the messages are served over an in-memory
    /// connection and reach the pipeline through the real stream client
    via_client: Option<(u16, Option<u32>)>,
}

fn case_json(c: &Case) -> Value {
    if let Some(v) = &c.replay_as {
        return v.clone();
    }
    json!({
        // (a stream emitted by the real sender is replayed from its octets like any other stream)
        "part": if c.part == "S" { "F" } else { c.part },
        "label": c.label,
        "scheme": scheme(),
        "soa_plan": soa_plan(),
        "universe": universe_id(),
        "old": c.old_kinds,
        "old_serial": c.old_serial,
        "fault": c.fault,
        "via_client": c.via_client.map(|(q, s)| json!({"qtype": q, "serial": s})),
        "msgs": c.msgs.iter().map(|m| hex(m)).collect::<Vec<_>>(),
    })
}

fn outcome_name(o: &Result<Outcome, String>) -> String {
    match o {
        Ok(Outcome::Finished) => "finished".to_string(),
        Ok(Outcome::Err { class, .. }) => format!("err({class})"),
        Ok(Outcome::Incomplete) => "incomplete".to_string(),
        Err(_) => "panic".to_string(),
    }
}

fn judge(sh: &Shared, c: &Case, verbose: bool) {
    let old_obs = match &c.custom_old {
        Some((o, _)) => o.clone(),
        None => model_obs(c.old_serial, c.old),
    };
    let mut refo = reference(&c.msgs, &old_obs);
    let mut real = match &c.custom_old {
        Some((_, mk)) => run_real(&|| mk(), &c.msgs, c.via_client),
        None => run_real(&|| build_zone(c.old_serial, c.old), &c.msgs, c.via_client),
    };
    let mut old_obs = old_obs;
    if !refo.ttl_open.is_empty() {
        // TTLs the damaged stream does not settle are left out of every comparison below
        lcount("ttl-left-open-by-the-stream");
        let open = refo.ttl_open.clone();
        refo.final_zone = refo.final_zone.as_ref().map(|z| blank_ttls(z, &open));
        for v in refo.completed.iter_mut() {
            *v = blank_ttls(v, &open);
        }
        real.final_obs = blank_ttls(&real.final_obs, &open);
        real.pinned_before = blank_ttls(&real.pinned_before, &open);
        for s in real.rec.snaps.iter_mut() {
            *s = blank_ttls(s, &open);
        }
        old_obs = blank_ttls(&old_obs, &open);
    }
    let old_obs = old_obs;
    let det = c.part != "S";
    sh.stats.eval();
    LOCAL.with(|l| {
        let mut l = l.borrow_mut();
        l.runs += 1;
        l.states.insert(obs_hash(&real.final_obs));
        // (the packaging chosen by the real sender depends on the zone's
        // HashMap order: keep it out of the deterministic counters)
        if det {
            l.transitions += real.rec.consumed as u64 + 1;
            for s in &real.rec.snaps {
                l.states.insert(obs_hash(s));
            }
        } else {
            l.transitions += 1;
        }
    });
    let mut key = vec![];
    key.extend_from_slice(&c.old_kinds);
    for m in &c.msgs {
        key.extend_from_slice(&(m.len() as u16).to_be_bytes());
        key.extend_from_slice(m);
    }
    if det && (c.msgs.len() >= 2 || c.fault.is_some() || real.final_obs != old_obs) {
        sh.stats.distinct(fnv(&key));
    }
    let kind = c.label.split('/').next().unwrap_or("").to_string();
    let fault_kind = c.fault.as_ref().map(|f| f.split('@').next().unwrap().to_string());
    lcount(&format!(
        "{}:{}:ref={:?}({}):real={}",
        c.part,
        if c.fault.is_some() { "fault" } else { "honest" },
        refo.verdict,
        refo.reason,
        outcome_name(&real.outcome)
    ));
    if let Some(fk) = &fault_kind {
        lcount(&format!("fault:{fk}:ref={:?}", refo.verdict));
    }
    if verbose {
        println!("case: {} fault={:?}", c.label, c.fault);
        for m in &c.msgs {
            match wire::read_message(m) {
                Ok(r) => println!(
                    "  message: flags={:#06x} counts={:?} q={:?} answer={:?}",
                    r.flags,
                    r.counts,
                    r.questions.iter().map(|q| q.qtype).collect::<Vec<_>>(),
                    r.sections[0]
                        .iter()
                        .map(|rr| match crec_from_raw(m, rr) {
                            Ok(c) if c.rtype == 6 => format!("{} SOA serial={}", c.owner, u32::from_be_bytes([c.rdata[11], c.rdata[12], c.rdata[13], c.rdata[14]])),
                            Ok(c) => format!("{} type{} {}", c.owner, c.rtype, hex(&c.rdata)),
                            Err(e) => e,
                        })
                        .collect::<Vec<_>>()
                ),
                Err(e) => println!("  message: unparseable ({e})"),
            }
        }
        println!("  reference: {:?} reason={} xfr={} tainted={}", refo.verdict, refo.reason, refo.xfr, refo.tainted);
        println!("  reference final: {}", refo.final_zone.as_ref().map(obs_json).unwrap_or(Value::Null));
        println!("  real outcome: {:?} updates={:?}", real.outcome, real.rec.updates);
        println!("  real final: {}", obs_json(&real.final_obs));
        for (i, s) in real.rec.snaps.iter().enumerate() {
            println!("  reader after message {i}: {}", obs_json(s));
        }
        for (b, d, a) in &real.rec.diffs {
            println!("  diff {}->{}: removed {} added {}", d.start, d.end, obs_json(&d.removed), obs_json(&d.added));
            println!("     before {} after {} mismatch {:?}", obs_json(b), obs_json(a), diff_mismatch(b, d, a));
        }
    }
    let cj = || {
        let mut v = case_json(c);
        v["reference"] = json!({"verdict": format!("{:?}", refo.verdict), "reason": refo.reason, "final": refo.final_zone.as_ref().map(obs_json)});
        v["real"] = json!({"outcome": format!("{:?}", real.outcome), "final": obs_json(&real.final_obs), "updates": real.rec.updates});
        v
    };
    // --- the honest stream must be what the reference reads out of it (self-check of model + reference)
    if let Some(new) = &c.honest_new {
        if refo.verdict != V::Valid || refo.final_zone.as_ref() != Some(new) {
            if c.part == "S" {
                let tc = refo.final_zone.as_ref().and_then(|f| ttl_cause(&old_obs, new, f)).map(|t| format!("|{t}")).unwrap_or_default();
                report(
                    sh,
                    &format!("C10|sender|{}|emitted-stream-is-not-a-valid-transfer-of-the-zone|{:?}({}){tc}", kind, refo.verdict, refo.reason),
                    &|| {
                        format!(
                            "the response stream emitted by XfrMiddlewareSvc ({}) is read by the reference as {:?}/{} yielding {} but the sender holds {}",
                            c.label,
                            refo.verdict,
                            refo.reason,
                            refo.final_zone.as_ref().map(obs_json).unwrap_or(Value::Null),
                            obs_json(new)
                        )
                    },
                    &cj,
                );
                return;
            }
            report(
                sh,
                "C10|MACHINERY|reference-disagrees-with-stream-builder",
                &|| format!("harness self-check: reference reads {:?}/{} out of an honest {} stream", refo.verdict, refo.reason, kind),
                &cj,
            );
            return;
        }
        // every version the reference saw completed is a version of the sender's history
        for v in &refo.completed {
            if !c.honest_versions.contains(v) {
                if c.part == "S" {
                    // (the stream ends at the sender's zone, but a version on the way is none of the sender's)
                    let prev = c.honest_versions.iter().filter(|h| h.iter().filter(|r| r.rtype == 6).eq(v.iter().filter(|r| r.rtype == 6))).next();
                    let tc = prev.and_then(|p| ttl_cause(&old_obs, p, v)).map(|t| format!("|{t}")).unwrap_or_default();
                    report(
                        sh,
                        &format!("C10|sender|{}|intermediate-version-of-the-emitted-stream-is-no-version-of-the-zone{tc}", kind),
                        &|| format!("the difference sequences emitted by XfrMiddlewareSvc ({}) pass through {} which no version of the sender's zone equals", c.label, obs_json(v)),
                        &cj,
                    );
                    return;
                }
                report(sh, "C10|MACHINERY|reference-completed-unknown-version", &|| "harness self-check".into(), &cj);
                return;
            }
        }
    }
    // --- no panic
    let outcome = match &real.outcome {
        Err(p) => {
            report(
                sh,
                &format!("C10|panic|{}|{}", refo.xfr, panic_class(p)),
                &|| format!("receiver pipeline panicked ({p}) on a {} stream{}", kind, c.fault.as_ref().map(|f| format!(" with fault {f}")).unwrap_or_default()),
                &cj,
            );
            None
        }
        Ok(o) => Some(o.clone()),
    };
    let who = if c.fault.is_some() { "faulted" } else { "honest" };
    let open = refo.verdict == V::Open;
    let mut final_reported = false;
    // --- verdict vs outcome, content
    if let Some(o) = &outcome {
        match (refo.verdict, o) {
            (V::Valid, Outcome::Finished) | (V::Either, Outcome::Finished) => {
                let want = refo.final_zone.as_ref().unwrap();
                let got = if refo.tainted { dedup(&real.final_obs) } else { real.final_obs.clone() };
                if &got != want {
                    final_reported = true;
                    let cause = if &dedup(&got) == want {
                        "duplicate-rr-kept".to_string()
                    } else if let Some(t) = ttl_cause(&old_obs, want, &got) {
                        t
                    } else {
                        let (g, w): (BTreeSet<_>, BTreeSet<_>) = (got.iter().collect(), want.iter().collect());
                        let soa_only = g.symmetric_difference(&w).all(|c| c.rtype == 6);
                        format!(
                            "{}{}{}",
                            if soa_only { "soa-differs" } else { "" },
                            if !soa_only && g.difference(&w).next().is_some() { "extra-records" } else { "" },
                            if !soa_only && w.difference(&g).next().is_some() { "+missing-records" } else { "" }
                        )
                    };
                    let why = if refo.reason.starts_with("ixfr-closing") { format!("|{}", refo.reason) } else { String::new() };
                    report(
                        sh,
                        &format!("C10|receiver|{}|accepted|content!=transferred-zone|{}{}", refo.xfr, cause, why),
                        &|| {
                            format!(
                                "{} {} stream ({}) accepted but the receiving zone differs from the transferred zone ({cause}); fault {:?}; got {} want {}",
                                who,
                                refo.xfr,
                                refo.reason,
                                c.fault,
                                obs_json(&got),
                                obs_json(want)
                            )
                        },
                        &cj,
                    );
                }
            }
            (V::Valid, Outcome::Err { class, at }) => {
                let first_single = refo.xfr.starts_with("ixfr") && wire::read_message(&c.msgs[0]).map(|m| m.counts[1] == 1).unwrap_or(false) && *at == 0;
                report(
                    sh,
                    &format!("C10|receiver|{}|valid-transfer-rejected|{}{}", refo.xfr, class, if first_single { "|first-message-holds-only-the-soa" } else { "" }),
                    &|| format!("a valid {} transfer ({}; fault {:?}) is rejected at message {at} with {class}", refo.xfr, who, c.fault),
                    &cj,
                );
            }
            (V::Valid, Outcome::Incomplete) => {
                report(
                    sh,
                    &format!("C10|receiver|{}|valid-transfer-not-finished", refo.xfr),
                    &|| format!("a valid {} transfer ({}) is consumed completely but the interpreter does not report it finished", refo.xfr, who),
                    &cj,
                );
            }
            (V::Invalid, Outcome::Finished) => {
                report(
                    sh,
                    &format!("C10|reject|{}|invalid({})|accepted", refo.xfr, refo.reason),
                    &|| {
                        format!(
                            "a stream that is not a valid {} transfer ({}) is accepted: Ok and committed; fault {:?}; receiver now holds {}",
                            refo.xfr,
                            refo.reason,
                            c.fault,
                            obs_json(&real.final_obs)
                        )
                    },
                    &cj,
                );
            }
            (V::UpToDate, _) | (V::Open, _) => {}
            (V::Invalid, _) | (V::Either, _) => {}
        }
    }
    // --- visibility: every reader sees `old` or a version the reference saw completed
    if !open {
        let mut allowed: Vec<Obs> = vec![old_obs.clone()];
        allowed.extend(refo.completed.iter().cloned());
        let ok_version = |o: &Obs| allowed.contains(o) || (refo.tainted && allowed.contains(&dedup(o)));
        let mut seen: Vec<(&Obs, String)> = real.rec.snaps.iter().enumerate().map(|(i, s)| (s, format!("reader-after-message-{i}"))).collect();
        seen.push((&real.final_obs, "reader-after-end".into()));
        for (o, wher) in seen {
            if ok_version(o) {
                continue;
            }
            if final_reported && *o == real.final_obs {
                continue;
            }
            let cause = if allowed.contains(&dedup(o)) {
                "duplicate-rr-kept"
            } else if allowed.iter().any(|a| a.iter().filter(|c| c.rtype != 6).eq(o.iter().filter(|c| c.rtype != 6))) {
                "content-of-one-version-with-soa-of-another"
            } else {
                "content-of-no-version"
            };
            report(
                sh,
                &format!("C10|visible|{}|ref={:?}({})|{}", refo.xfr, refo.verdict, refo.reason, cause),
                &|| {
                    format!(
                        "a reader ({wher}) sees a zone that is neither `old` nor a version the transfer completed ({cause}): {}; fault {:?}; outcome {:?}",
                        obs_json(o),
                        c.fault,
                        outcome
                    )
                },
                &cj,
            );
            break;
        }
    }
    if real.pinned_before != old_obs {
        report(
            sh,
            &format!("C10|visible|{}|reader-opened-before-transfer-changed", refo.xfr),
            &|| format!("a reader opened before the transfer no longer sees `old`: {}", obs_json(&real.pinned_before)),
            &cj,
        );
    }
    if let Some(i) = real.reader_unstable {
        report(
            sh,
            &format!("C10|visible|{}|reader-opened-during-transfer-changed", refo.xfr),
            &|| format!("the reader opened after message {i} sees different content at the end of the transfer"),
            &cj,
        );
    }
    // --- diffs returned by apply()
    for (b, d, a) in &real.rec.diffs {
        if !det {
            break; // (record order of the real sender is not owned; the same check runs in part R)
        }
        lcount("diffs-returned-by-updater");
        if let Some(k) = diff_mismatch(b, d, a) {
            let via = if real.rec.updates.contains(&"DeleteAll") { "axfr" } else { "ixfr" };
            lcount(&format!("diffs-returned-by-updater:wrong:{via}:{k}"));
            let tc = diff_ttl_cause(b, d, a).map(|t| format!("|{t}")).unwrap_or_default();
            report(
                sh,
                &format!("C10|diff|via-updater|{via}{tc}"),
                &|| {
                    format!(
                        "the diff returned by ZoneUpdater::apply (serial {}->{}) applied to the content before the commit does not give the content after it ({k}): removed {} added {}; before {} after {}",
                        d.start,
                        d.end,
                        obs_json(&d.removed),
                        obs_json(&d.added),
                        obs_json(b),
                        obs_json(a)
                    )
                },
                &cj,
            );
        }
    }
    sample(sh, &format!("{}:{}:{}", c.part, kind, fault_kind.clone().unwrap_or_default()), &|| {
        json!({"part": c.part, "label": c.label, "old": c.old_kinds, "fault": c.fault, "reference": format!("{:?}/{}", refo.verdict, refo.reason), "real": outcome_name(&real.outcome), "msgs": c.msgs.iter().map(|m| hex(m)).collect::<Vec<_>>()})
    });
}

// ====================================================================
// Enumeration: honest streams (part R) and faults (part F)
// ====================================================================

#[derive(Clone, Copy)]
struct Bounds {
    max_dist: usize,
    all_splits_upto: usize,
    both_qmodes: bool,
    mid_first: usize,
    mid_second: usize,
    fault_dist: usize,
    fault_cuts: u32,
    diff_len: usize,
    sender_dist: usize,
    hist_dist: usize,
    hist_aborts: u8,
    hist_all_mids: bool,
    tsig_extra_max: usize,
    wire_dist: usize,
    wire_all_splits_upto: usize,
    wire_faults: bool,
    /// part F at all (part L runs it on a few pairs only)
    faults: bool,
    /// part L: the wider TTL universe, all SOA plans of three versions, deeper menus
    ttl_wide: bool,
}

fn masks_for(n: usize, all_upto: usize, max_cuts: u32) -> Vec<u32> {
    let total = 1u32 << (n - 1);
    if n <= all_upto {
        (0..total).collect()
    } else {
        let mut v: Vec<u32> = (0..total).filter(|m| m.count_ones() <= max_cuts).collect();
        v.push(total - 1);
        v
    }
}

struct Stream {
    label: String,
    qtype: u16,
    seq: Vec<MRec>,
    new_obs: Obs,
    versions: Vec<Obs>,
    /// the zones of `versions` (serial = index + 1)
    kinds: Vec<Kinds>,
}

fn streams_for(old_k: Kinds, new_k: Kinds, b: &Bounds) -> Vec<Stream> {
    let old = zone_recs(old_k);
    let new = zone_recs(new_k);
    let mut out = vec![];
    let old_v = model_obs(1, &old);
    // AXFR and AXFR-style IXFR: serial 2
    let new2 = model_obs(2, &new);
    out.push(Stream { label: "axfr".into(), qtype: 252, seq: axfr_seq(2, &new), new_obs: new2.clone(), versions: vec![old_v.clone(), new2.clone()], kinds: vec![old_k, new_k] });
    if !new.is_empty() {
        // (an AXFR-style IXFR answer for a zone holding nothing but its SOA is
        // the two-RR sequence SOA SOA, which RFC 1995 does not let a client
        // tell from a difference list; zones always hold apex NS in practice)
        out.push(Stream { label: "ixfr-axfr-style".into(), qtype: 251, seq: axfr_seq(2, &new), new_obs: new2.clone(), versions: vec![old_v.clone(), new2.clone()], kinds: vec![old_k, new_k] });
    }
    let vs = vec![(1, old.clone()), (2, new.clone())];
    let s1 = ixfr_seq(&vs, 0);
    let s1g = ixfr_seq(&vs, 1);
    let s1p = ixfr_seq(&vs, 2);
    out.push(Stream { label: "ixfr-1step".into(), qtype: 251, seq: s1.clone(), new_obs: new2.clone(), versions: vec![old_v.clone(), new2.clone()], kinds: vec![old_k, new_k] });
    if s1g != s1 {
        out.push(Stream { label: "ixfr-1step-rrset-granular".into(), qtype: 251, seq: s1g, new_obs: new2.clone(), versions: vec![old_v.clone(), new2.clone()], kinds: vec![old_k, new_k] });
    }
    if s1p != s1 {
        out.push(Stream { label: "ixfr-1step-added-records-carry-new-ttl".into(), qtype: 251, seq: s1p, new_obs: new2.clone(), versions: vec![old_v.clone(), new2.clone()], kinds: vec![old_k, new_k] });
    }
    for mk in universe() {
        if dist(old_k, mk) <= b.mid_first && dist(mk, new_k) <= b.mid_second {
            let mid = zone_recs(mk);
            let vs = vec![(1, old.clone()), (2, mid.clone()), (3, new.clone())];
            let new3 = model_obs(3, &new);
            out.push(Stream {
                label: format!("ixfr-2step/mid={:?}", mk),
                qtype: 251,
                seq: ixfr_seq(&vs, 0),
                new_obs: new3.clone(),
                versions: vec![old_v.clone(), model_obs(2, &mid), new3.clone()],
                kinds: vec![old_k, mk, new_k],
            });
            let sp = ixfr_seq(&vs, 2);
            if sp != ixfr_seq(&vs, 0) {
                out.push(Stream {
                    label: format!("ixfr-2step-added-records-carry-new-ttl/mid={:?}", mk),
                    qtype: 251,
                    seq: sp,
                    new_obs: new3.clone(),
                    versions: vec![old_v.clone(), model_obs(2, &mid), new3],
                    kinds: vec![old_k, mk, new_k],
                });
            }
        }
    }
    out
}

#[derive(Clone, Debug)]
enum Fault {
    Drop(usize),
    Dup(usize),
    Swap(usize),
    TruncAfter(usize),
    Rcode(usize, u8),
    Tc(usize),
    Qr0(usize),
    Opcode(usize, u8),
    Qd(usize, u8),
    Qtype(usize, u16),
    EmptyMsgAt(usize),
    Nscount(usize),
    DropFirstRr,
    FirstRrNotSoa,
    FinalSoaSerial,
    /// a record whose owner is outside the zone, put at the end of message i
    ForeignOwner(usize),
    /// the last octets of message i are missing (the last record is cut short)
    Chop(usize),
}

fn fault_name(f: &Fault) -> String {
    match f {
        Fault::Drop(i) => format!("drop@{i}"),
        Fault::Dup(i) => format!("duplicate@{i}"),
        Fault::Swap(i) => format!("swap-adjacent@{i}"),
        Fault::TruncAfter(k) => format!("truncate-after-rr@{k}"),
        Fault::Rcode(i, r) => format!("rcode={r}@{i}"),
        Fault::Tc(i) => format!("tc@{i}"),
        Fault::Qr0(i) => format!("qr0@{i}"),
        Fault::Opcode(i, o) => format!("opcode={o}@{i}"),
        Fault::Qd(i, q) => format!("qdcount={q}@{i}"),
        Fault::Qtype(i, q) => format!("qtype={q}@{i}"),
        Fault::EmptyMsgAt(i) => format!("ancount0@{i}"),
        Fault::Nscount(i) => format!("nscount1@{i}"),
        Fault::DropFirstRr => "first-rr-dropped@0".into(),
        Fault::FirstRrNotSoa => "first-rr-not-soa@0".into(),
        Fault::FinalSoaSerial => "final-soa-serial-changed@last".into(),
        Fault::ForeignOwner(i) => format!("out-of-zone-owner@{i}"),
        Fault::Chop(i) => format!("last-octets-missing@{i}"),
    }
}

fn all_faults(specs: &[MsgSpec]) -> Vec<Fault> {
    let m = specs.len();
    let n: usize = specs.iter().map(|s| s.recs.len()).sum();
    let mut v = vec![];
    for i in 0..m {
        v.push(Fault::Drop(i));
        v.push(Fault::Dup(i));
        if i + 1 < m {
            v.push(Fault::Swap(i));
        }
        for r in [2u8, 5, 9] {
            v.push(Fault::Rcode(i, r));
        }
        v.push(Fault::Tc(i));
        v.push(Fault::Qr0(i));
        for o in [4u8, 5] {
            v.push(Fault::Opcode(i, o));
        }
        v.push(Fault::Qd(i, 0));
        v.push(Fault::Qd(i, 2));
        for q in [1u16, 6, 255] {
            v.push(Fault::Qtype(i, q));
        }
        v.push(Fault::Nscount(i));
        v.push(Fault::ForeignOwner(i));
        v.push(Fault::Chop(i));
    }
    for i in 0..=m {
        v.push(Fault::EmptyMsgAt(i));
    }
    for k in 1..n {
        v.push(Fault::TruncAfter(k));
    }
    v.push(Fault::DropFirstRr);
    v.push(Fault::FirstRrNotSoa);
    v.push(Fault::FinalSoaSerial);
    v
}

fn apply_fault(specs: &[MsgSpec], f: &Fault) -> Option<Vec<MsgSpec>> {
    let mut s = specs.to_vec();
    match *f {
        Fault::Drop(i) => {
            s.remove(i);
        }
        Fault::Dup(i) => {
            let c = s[i].clone();
            s.insert(i + 1, c);
        }
        Fault::Swap(i) => s.swap(i, i + 1),
        Fault::TruncAfter(k) => {
            let mut left = k;
            let mut out = vec![];
            for mut m in s.into_iter() {
                if left == 0 {
                    break;
                }
                if m.recs.len() > left {
                    m.recs.truncate(left);
                }
                left -= m.recs.len();
                out.push(m);
            }
            s = out;
        }
        Fault::Rcode(i, r) => s[i].rcode = r,
        Fault::Tc(i) => s[i].tc = true,
        Fault::Qr0(i) => s[i].qr = false,
        Fault::Opcode(i, o) => s[i].opcode = o,
        Fault::Qd(i, q) => {
            if s[i].qd == q {
                return None;
            }
            s[i].qd = q
        }
        Fault::Qtype(i, q) => {
            if s[i].qd == 0 {
                return None;
            }
            s[i].qtype = q
        }
        Fault::EmptyMsgAt(i) => {
            let qt = s[0].qtype;
            s.insert(i, MsgSpec::plain(qt, true, &[]));
        }
        Fault::Nscount(i) => s[i].ns = 1,
        Fault::DropFirstRr => {
            s[0].recs.remove(0);
            if s[0].recs.is_empty() {
                // the first message would be empty: that is the ancount0 fault
                return None;
            }
        }
        Fault::FirstRrNotSoa => s[0].recs[0] = MRec { owner: 3, rd: RD::A(7), ttl: 0 },
        Fault::ForeignOwner(i) => {
            // before a closing SOA, so that it is part of the transfer
            let at = s[i].recs.len().saturating_sub(1).max(if i == 0 { 1 } else { 0 }).min(s[i].recs.len());
            s[i].recs.insert(at, MRec { owner: 4, rd: RD::A(8), ttl: 0 });
        }
        Fault::Chop(i) => s[i].chop = 3,
        Fault::FinalSoaSerial => {
            let l = s.last_mut().unwrap();
            let r = l.recs.last_mut().unwrap();
            if let RD::Soa(x) = r.rd {
                r.rd = RD::Soa(x + 7);
            }
        }
    }
    if s.is_empty() {
        return None;
    }
    Some(s)
}

/// C10_DRY=1: only count the cases of parts R and F (sizing aid, not a tier).
fn dry() -> bool {
    static D: std::sync::OnceLock<bool> = std::sync::OnceLock::new();
    *D.get_or_init(|| std::env::var("C10_DRY").is_ok())
}

fn run_pair(sh: &Shared, old_k: Kinds, new_k: Kinds, b: &Bounds) {
    let old = zone_recs(old_k);
    let d = dist(old_k, new_k);
    for st in streams_for(old_k, new_k, b) {
        let n = st.seq.len();
        // ---- part R: honest, all splits
        for mask in masks_for(n, b.all_splits_upto, 2) {
            let qmodes: Vec<u8> = if b.both_qmodes { vec![0, 1] } else { vec![(mask.count_ones() & 1) as u8] };
            for qmode in qmodes {
                let specs = split_specs(&st.seq, mask, st.qtype, qmode);
                if dry() {
                    lcount("dry:R");
                    continue;
                }
                let msgs: Vec<Bytes> = specs.iter().map(build_msg).collect();
                let c = Case {
                    part: "R",
                    label: format!("{}/new={:?}/mask={:#b}/q={}", st.label, new_k, mask, qmode),
                    old_kinds: old_k,
                    old_serial: 1,
                    old: &old,
                    honest_new: Some(st.new_obs.clone()),
                    honest_versions: st.versions.clone(),
                    fault: None,
                    msgs,
                    custom_old: None,
                    replay_as: None,
                via_client: None,
                };
                judge(sh, &c, false);
            }
        }
        // ---- part F: faults on a restricted split set
        if d > b.fault_dist || !b.faults {
            continue;
        }
        if st.label.starts_with("ixfr-2step") && !(st.versions[1] != st.versions[0] || d == 0) {
            // (2-step streams whose first step is empty add nothing over the 1-step stream here)
            continue;
        }
        let total = 1u32 << (n - 1);
        let mut masks: Vec<u32> = (0..total).filter(|m| m.count_ones() <= b.fault_cuts).collect();
        if !masks.contains(&(total - 1)) {
            masks.push(total - 1);
        }
        for mask in masks {
            let qmode = (mask.count_ones() & 1) as u8;
            let specs = split_specs(&st.seq, mask, st.qtype, qmode);
            for f in all_faults(&specs) {
                let Some(fs) = apply_fault(&specs, &f) else { continue };
                if dry() {
                    lcount("dry:F");
                    continue;
                }
                let msgs: Vec<Bytes> = fs.iter().map(build_msg).collect();
                let c = Case {
                    part: "F",
                    label: format!("{}/new={:?}/mask={:#b}/q={}", st.label, new_k, mask, qmode),
                    old_kinds: old_k,
                    old_serial: 1,
                    old: &old,
                    honest_new: None,
                    honest_versions: vec![],
                    fault: Some(fault_name(&f)),
                    msgs,
                    custom_old: None,
                    replay_as: None,
                via_client: None,
                };
                judge(sh, &c, false);
            }
        }
    }
}

// ====================================================================
// Part D: diff reported by commit for edits through the write interface
// ====================================================================

#[derive(Clone, Copy, Debug, PartialEq, Eq)]
enum Op {
    Upd(u8, u8),
    Rem(u8, u8),
    RemAll,
}

/// the types `Op::Rem(_, t)` removes
const REM_TYPES: [u16; 3] = [1, 16, 15];

fn op_alphabet() -> Vec<Op> {
    let mut v = vec![];
    for n in 1..=3u8 {
        for k in 1..=4u8 {
            v.push(Op::Upd(n, k));
        }
        v.push(Op::Rem(n, 0));
        v.push(Op::Rem(n, 1));
    }
    v.push(Op::RemAll);
    v
}

fn op_json(o: &Op) -> Value {
    match o {
        Op::Upd(n, k) => json!({"op": "update_rrset", "owner": OWNERS[*n as usize], "kind": (if universe_id() >= TWIN_U0 { ["", "A{1}", "A{1,2}", "TXT", "{X}", "{X,Y}", "{Y}", ""] } else { ["", "A{1}", "A{1,2}", "TXT", "A{3}", "A{1,3}", "", ""] }[(*k & 7) as usize]), "ttl": TTLS[(*k >> 3) as usize], "n": n, "k": k}),
        Op::Rem(n, t) => json!({"op": "remove_rrset", "owner": OWNERS[*n as usize], "rtype": (["A", "TXT", "MX"][*t as usize]), "n": n, "t": t}),
        Op::RemAll => json!({"op": "remove_all"}),
    }
}

async fn node_for(root: &Box<dyn WritableZoneNode>, owner: u8) -> std::io::Result<Box<dyn WritableZoneNode>> {
    let labels: &[&[u8]] = match owner {
        1 => &[b"a"],
        2 => &[b"a", b"b"],
        3 => &[b"c"],
        6 => &[b"c", b"e", b"d"],
        7 => &[b"c", b"e"],
        _ => unreachable!(),
    };
    let mut node = root.update_child(Label::from_slice(labels[0]).unwrap()).await?;
    for l in &labels[1..] {
        node = node.update_child(Label::from_slice(l).unwrap()).await?;
    }
    Ok(node)
}

/// mode 0: the new SOA (serial 2) is written explicitly, commit(false);
/// mode 1: no SOA edit, commit(true) bumps the serial.
async fn run_edits(zone: &Zone, ops: &[Op], mode: u8) -> Result<Option<DiffObs>, String> {
    let mut w = zone.write().await;
    let root = w.open(true).await.map_err(|e| format!("open:{e}"))?;
    for op in ops {
        match *op {
            Op::Upd(n, k) => {
                let node = node_for(&root, n).await.map_err(|e| format!("update_child:{e}"))?;
                node.update_rrset(kind_rrset(k)).await.map_err(|e| format!("update_rrset:{e}"))?;
            }
            Op::Rem(n, t) => {
                let node = node_for(&root, n).await.map_err(|e| format!("update_child:{e}"))?;
                node.remove_rrset(Rtype::from_int(REM_TYPES[t as usize])).await.map_err(|e| format!("remove_rrset:{e}"))?;
            }
            Op::RemAll => root.remove_all().await.map_err(|e| format!("remove_all:{e}"))?,
        }
    }
    if mode == 0 {
        root.update_rrset(soa_rrset(2)).await.map_err(|e| format!("update_rrset(soa):{e}"))?;
    }
    drop(root);
    let d = w.commit(mode == 1).await.map_err(|e| format!("commit:{e}"))?;
    if let Some(why) = d.as_ref().and_then(diff_trait_view_differs) {
        return Err(format!("diff-trait-view-differs-from-fields:{why}"));
    }
    Ok(d.as_ref().map(diff_obs))
}

fn model_edits(old: &BTreeSet<MRec>, ops: &[Op]) -> (BTreeSet<MRec>, bool) {
    let mut m = rrsets_of(old);
    let mut soa_removed = false;
    for op in ops {
        match *op {
            Op::Upd(n, k) => {
                let rds = kind_rds(k);
                m.insert((n, rds[0].rtype()), (k >> 3, rds.into_iter().collect()));
            }
            Op::Rem(n, t) => {
                m.remove(&(n, REM_TYPES[t as usize]));
            }
            Op::RemAll => {
                m.clear();
                soa_removed = true;
            }
        }
    }
    let mut s = BTreeSet::new();
    for ((o, _), (ttl, set)) in m {
        for rd in set {
            s.insert(MRec { owner: o, rd, ttl });
        }
    }
    (s, soa_removed)
}

/// Structural cause of a diff mismatch: how the ops touch the RRset on which
/// diff(old) and new disagree.
fn edit_pattern(ops: &[Op], diff_before: &Obs, d: &DiffObs, after: &Obs) -> String {
    let got = apply_diff(diff_before, d);
    let want: BTreeSet<CRec> = after.iter().cloned().collect();
    let Some(bad) = got.symmetric_difference(&want).next().cloned() else { return "none".into() };
    let owner = OWNERS_NODOT.iter().position(|o| *o == bad.owner).unwrap_or(0) as u8;
    let mut pat = vec![];
    for op in ops {
        match *op {
            Op::Upd(n, k) if n == owner && kind_rds(k)[0].rtype() == bad.rtype => pat.push("update"),
            Op::Rem(n, t) if n == owner && REM_TYPES[t as usize] == bad.rtype => pat.push("remove"),
            Op::RemAll => pat.push("remove_all"),
            _ => {}
        }
    }
    if pat.contains(&"remove_all") {
        return "remove_all".into();
    }
    match pat.len() {
        0 => "rrset-not-edited".into(),
        1 => format!("single-{}", pat[0]),
        _ => format!("rrset-edited-more-than-once-in-one-version|last-edit={}", pat[pat.len() - 1]),
    }
}

fn run_diff_case(sh: &Shared, old_k: Kinds, ops: &[Op], mode: u8, verbose: bool) {
    let old = zone_recs(old_k);
    let zone = build_zone(1, &old);
    let old_obs = model_obs(1, &old);
    let r = guard(|| RT.with(|rt| rt.block_on(run_edits(&zone, ops, mode))));
    sh.stats.eval();
    let after = observe(&zone);
    LOCAL.with(|l| {
        let mut l = l.borrow_mut();
        l.runs += 1;
        l.transitions += ops.len() as u64 + 1;
        l.states.insert(obs_hash(&after));
    });
    let cj = || json!({"part": "D", "scheme": scheme(), "soa_plan": soa_plan(), "universe": universe_id(), "old": old_k, "ops": ops.iter().map(op_json).collect::<Vec<_>>(), "mode": mode});
    let mut key = vec![0xD, mode, scheme() as u8];
    if universe_id() >= TWIN_U0 {
        key.push(universe_id());
    }
    key.extend_from_slice(&soa_plan());
    key.extend_from_slice(&old_k);
    key.extend_from_slice(format!("{ops:?}").as_bytes());
    if !ops.is_empty() {
        sh.stats.distinct(fnv(&key));
    }
    let want_recs = model_edits(&old, ops).0;
    // mode 0 writes the SOA of version 2; mode 1 lets commit bump the old serial by one
    let new_serial = if mode == 0 { actual(2) } else { actual(1).wrapping_add(1) };
    let mut want: Obs = want_recs.iter().map(|r| crec(*r)).collect();
    // (an explicitly written SOA is that of version 2; a bumped SOA is the old one with a new serial)
    let new_variant = if mode == 0 { soav(2) } else { soav(1) };
    want.push(CRec { owner: "z".into(), rtype: 6, ttl: TTLS[SOAVS[new_variant].0 as usize], rdata: soa_rdata_actual(new_serial, new_variant) });
    want.sort();
    if verbose {
        println!("diff case: old={old_k:?} ops={ops:?} mode={mode}");
        println!("  old   {}", obs_json(&old_obs));
        println!("  after {}", obs_json(&after));
        println!("  model {}", obs_json(&want));
    }
    match r {
        Err(p) => {
            report(sh, &format!("C10|panic|write-interface|{}", panic_class(&p)), &|| format!("write interface panicked: {p}"), &cj);
        }
        Ok(Err(e)) => {
            lcount(&format!("D:error:{}", err_class(e.clone())));
            report(sh, &format!("C10|write|error|{}", err_class(e.clone())), &|| format!("edit sequence failed: {e}"), &cj);
        }
        Ok(Ok(d)) => {
            if after != want {
                let tc = ttl_cause(&old_obs, &want, &after).map(|t| format!("|{t}")).unwrap_or_default();
                report(
                    sh,
                    &format!("C10|write|content-after-commit!=model{tc}"),
                    &|| format!("after the edits the zone holds {} but the edits describe {}", obs_json(&after), obs_json(&want)),
                    &cj,
                );
                return;
            }
            match d {
                None if !serial_newer(new_serial, actual(1)) => {
                    // a diff describes a step forward in serial arithmetic (RFC 1982); none can be given
                    lcount("D:diff=None(new-serial-not-newer)");
                }
                None => {
                    lcount("D:diff=None");
                    report(
                        sh,
                        &format!("C10|diff|write-interface|no-diff-returned|{}", if ops.contains(&Op::RemAll) { "after-remove_all" } else { "other" }),
                        &|| "commit of a version opened with create_diff=true and a changed SOA serial returned no diff".into(),
                        &cj,
                    );
                }
                Some(d) => {
                    lcount("D:diff=Some");
                    if verbose {
                        println!("  diff {}->{} removed {} added {}", d.start, d.end, obs_json(&d.removed), obs_json(&d.added));
                    }
                    if (d.start, d.end) != (actual(1), new_serial) {
                        report(sh, "C10|diff|write-interface|serials", &|| format!("diff serials {}->{} instead of {}->{}", d.start, d.end, actual(1), new_serial), &cj);
                    }
                    match diff_mismatch(&old_obs, &d, &after) {
                        None => lcount("D:diff-correct"),
                        Some(k) => {
                            let pat = edit_pattern(ops, &old_obs, &d, &after);
                            lcount(&format!("D:diff-wrong:{pat}:{k}"));
                            let tc = diff_ttl_cause(&old_obs, &d, &after).map(|t| format!("|{t}")).unwrap_or_default();
                            report(
                                sh,
                                &format!("C10|diff|write-interface|{pat}{tc}"),
                                &|| {
                                    format!(
                                        "diff returned by commit, applied to the old content, does not give the new content ({k}); edits {:?}: removed {} added {}; old {} new {}",
                                        ops,
                                        obs_json(&d.removed),
                                        obs_json(&d.added),
                                        obs_json(&old_obs),
                                        obs_json(&after)
                                    )
                                },
                                &cj,
                            );
                        }
                    }
                }
            }
        }
    }
    sample(sh, &format!("D:len{}:mode{}", ops.len(), mode), &cj);
}

fn run_diff_part(sh: &Shared, b: &Bounds) {
    let zones: Vec<Kinds> = (0..64).map(kinds_of).collect();
    run_diff_space(sh, &zones, &op_alphabet(), b.diff_len, [0; 3]);
}

/// Every edit sequence over `alpha` up to `max_len` on every zone of `zones`, both commit modes.
fn run_diff_space(sh: &Shared, zones: &[Kinds], alpha: &[Op], max_len: usize, plan: [u8; 3]) {
    let a = alpha.len();
    let mut tasks = vec![];
    for zi in 0..zones.len() {
        for first in 0..a {
            tasks.push((zi, first));
        }
    }
    // length 0 and 1
    zones.par_iter().for_each(|z| {
        with_soa_plan(plan, || {
            for mode in 0..2u8 {
                run_diff_case(sh, *z, &[], mode, false);
            }
        })
    });
    tasks.par_iter().for_each(|(zi, first)| with_soa_plan(plan, || {
        let old_k = zones[*zi];
        for len in 1..=max_len {
            for idx in 0..pow(a, len - 1) {
                let mut rest = vec![];
                nth_string(&alpha, len - 1, idx, &mut rest);
                let mut ops = vec![alpha[*first]];
                ops.extend(rest);
                for mode in 0..2u8 {
                    run_diff_case(sh, old_k, &ops, mode, false);
                }
            }
        }
    }));
}

/// The edits of part L: a.z gets every RRset kind (A{1}, A{1,2}, TXT, A{3},
/// A{1,3}) under every TTL of the menu or loses an RRset, b.a.z gets a TXT RRset with one of two TTLs or loses it,
/// or everything is removed.
fn ttl_op_alphabet() -> Vec<Op> {
    let mut v = vec![];
    for k in 1..=5u8 {
        for t in 0..TTLS.len() as u8 {
            v.push(Op::Upd(1, kt(k, t)));
        }
    }
    v.push(Op::Rem(1, 0));
    v.push(Op::Rem(1, 1));
    v.push(Op::Upd(2, kt(3, 0)));
    v.push(Op::Upd(2, kt(3, 1)));
    v.push(Op::Rem(2, 1));
    v.push(Op::RemAll);
    v
}

// ====================================================================
// Part S: the sender side through the real XfrMiddlewareSvc
// ====================================================================

#[derive(Clone)]
struct Provider {
    zone: Zone,
    diffs: Vec<Arc<InMemoryZoneDiff>>,
    compat: bool,
}

impl<M> XfrDataProvider<M> for Provider {
    type Diff = Arc<InMemoryZoneDiff>;
    fn request<Octs>(
        &self,
        _req: &Request<Octs, M>,
        diff_from: Option<Serial>,
    ) -> Pin<Box<dyn Future<Output = Result<XfrData<Self::Diff>, XfrDataProviderError>> + Sync + Send + '_>>
    where
        Octs: octseq::Octets + Send + Sync,
    {
        let diffs = match diff_from {
            Some(s) => self.diffs.iter().position(|d| d.start_serial == s).map(|p| self.diffs[p..].to_vec()).unwrap_or_default(),
            None => vec![],
        };
        Box::pin(std::future::ready(Ok(XfrData::new(self.zone.clone(), diffs, self.compat))))
    }
}

#[derive(Clone)]
struct NoSvc;

impl<M: Clone + Default + Send + Sync + 'static> Service<Vec<u8>, M> for NoSvc {
    type Target = Vec<u8>;
    type Stream = futures_util::stream::Once<std::future::Ready<ServiceResult<Vec<u8>>>>;
    type Future = std::future::Ready<Self::Stream>;
    fn call(&self, _r: Request<Vec<u8>, M>) -> Self::Future {
        std::future::ready(futures_util::stream::once(std::future::ready(Err(ServiceError::Refused))))
    }
}

/// One write-interface edit per changed RRset, then the new SOA, then commit.
async fn edit_to(zone: &Zone, from: &BTreeSet<MRec>, to: &BTreeSet<MRec>, serial: u32) -> Result<Option<InMemoryZoneDiff>, String> {
    let mut w = zone.write().await;
    let root = w.open(true).await.map_err(|e| format!("open:{e}"))?;
    let (rf, rt) = (rrsets_of(from), rrsets_of(to));
    let keys: BTreeSet<(u8, u16)> = rf.keys().chain(rt.keys()).cloned().collect();
    for k in keys {
        if rf.get(&k) == rt.get(&k) {
            continue;
        }
        let node = node_for(&root, k.0).await.map_err(|e| format!("update_child:{e}"))?;
        match rt.get(&k) {
            Some((ttl, set)) => {
                let rds: Vec<RD> = set.iter().cloned().collect();
                node.update_rrset(shared_rrset(&rds, *ttl)).await.map_err(|e| format!("update_rrset:{e}"))?
            }
            None => node.remove_rrset(Rtype::from_int(k.1)).await.map_err(|e| format!("remove_rrset:{e}"))?,
        }
    }
    root.update_rrset(soa_rrset(serial)).await.map_err(|e| format!("update_rrset(soa):{e}"))?;
    drop(root);
    w.commit(false).await.map_err(|e| format!("commit:{e}"))
}

#[derive(Clone, Debug)]
struct SReq {
    qtype: u16,
    serial: Option<u32>,
    udp: bool,
    limit: u16,
    compat: bool,
    /// the request travels through the real stream client and an in-memory
    /// connection to a minimal server loop around the middleware
    via_client: bool,
    /// 0: a provider with the zone and its diffs; 1: the `Zone` itself;
    /// 2: an `Arc<ZoneTree>` holding the zone (both without diffs)
    provider: u8,
    /// the request names another zone (y.)
    foreign: bool,
}

struct SOut {
    msgs: Vec<Bytes>,
    feedback: Vec<String>,
    errors: Vec<String>,
    /// via the stream client: what the server wrote, and how the client ended
    emitted: Vec<Bytes>,
    client_error: Option<String>,
}

/// Call the service like a server transport does and collect its responses.
async fn call_service<S>(svc: &S, request: Request<Vec<u8>, ()>, out: &mut SOut) -> Result<(), String>
where
    S: Service<Vec<u8>, (), Target = Vec<u8>>,
{
    let fut = async {
        let mut stream = svc.call(request).await;
        while let Some(item) = stream.next().await {
            match item {
                Ok(cr) => {
                    let (resp, fb) = cr.into_inner();
                    if let Some(r) = resp {
                        out.msgs.push(Bytes::copy_from_slice(r.finish().as_dgram_slice()));
                    }
                    if let Some(fb) = fb {
                        out.feedback.push(err_class(format!("{fb:?}")));
                    }
                }
                Err(e) => out.errors.push(format!("{e}")),
            }
        }
    };
    if tokio::time::timeout(std::time::Duration::from_secs(10), fut).await.is_err() {
        return Err("response-stream-never-ends".into());
    }
    Ok(())
}

fn mk_request(msg: Message<Vec<u8>>, rq: &SReq) -> Request<Vec<u8>, ()> {
    let tctx: TransportSpecificContext = if rq.udp { UdpTransportContext::new(None).into() } else { NonUdpTransportContext::new(None).into() };
    let mut request = Request::new("192.0.2.1:5300".parse().unwrap(), tokio::time::Instant::now(), msg, tctx, ());
    let full: u16 = if rq.udp { 512 } else { u16::MAX };
    request.reserve_bytes(full - rq.limit.min(full));
    request
}

async fn drive_sender<S>(svc: S, rq: &SReq) -> Result<SOut, String>
where
    S: Service<Vec<u8>, (), Target = Vec<u8>> + Clone + Send + Sync + 'static,
    S::Future: Send,
    S::Stream: Send,
{
    let mut out = SOut { msgs: vec![], feedback: vec![], errors: vec![], emitted: vec![], client_error: None };
    if !rq.via_client {
        let mut q = MessageBuilder::new_vec().question();
        q.header_mut().set_id(0x4242);
        q.push((name(if rq.foreign { 5 } else { 0 }), Rtype::from_int(rq.qtype))).unwrap();
        let msg = if let Some(s) = rq.serial {
            let mut a = q.authority();
            a.push((name(0), Class::IN, Ttl::from_secs(TTL), data(RD::Soa(s)))).unwrap();
            a.into_message()
        } else {
            q.into_message()
        };
        call_service(&svc, mk_request(msg, rq), &mut out).await?;
        return Ok(out);
    }
    // the real stream client on one end of an in-memory connection, a
    // minimal server loop around the middleware on the other
    let emitted: Arc<Mutex<Vec<Bytes>>> = Default::default();
    let errors: Arc<Mutex<Vec<String>>> = Default::default();
    let (em2, er2, rq2) = (emitted.clone(), errors.clone(), rq.clone());
    let server = move |mut srv: tokio::io::DuplexStream, req: Vec<u8>| -> Pin<Box<dyn Future<Output = ()> + Send>> {
        Box::pin(async move {
            let Ok(msg) = Message::from_octets(req) else { return };
            let mut o = SOut { msgs: vec![], feedback: vec![], errors: vec![], emitted: vec![], client_error: None };
            if let Err(e) = call_service(&svc, mk_request(msg, &rq2), &mut o).await {
                er2.lock().unwrap().push(e);
            }
            er2.lock().unwrap().extend(o.errors);
            for m in &o.msgs {
                em2.lock().unwrap().push(m.clone());
                if !write_framed(&mut srv, m).await {
                    return;
                }
            }
            use tokio::io::AsyncWriteExt;
            let _ = srv.shutdown().await;
        })
    };
    let d = client_exchange(rq.qtype, rq.serial, server, async |_b: &Bytes| true).await;
    out.msgs = d.msgs;
    out.client_error = d.error;
    out.emitted = emitted.lock().unwrap().clone();
    out.errors = errors.lock().unwrap().clone();
    Ok(out)
}

async fn run_sender(versions: &[(u32, BTreeSet<MRec>)], rq: &SReq) -> Result<SOut, String> {
    let zone = build_zone(versions[0].0, &versions[0].1);
    let mut diffs = vec![];
    for w in versions.windows(2) {
        match edit_to(&zone, &w[0].1, &w[1].1, w[1].0).await? {
            Some(d) => diffs.push(Arc::new(d)),
            // (no diff can describe a step that is not forward in serial arithmetic)
            None if !serial_newer(actual(w[1].0), actual(w[0].0)) => {}
            None => return Err("no-diff-from-commit".into()),
        }
    }
    match rq.provider {
        0 => drive_sender(XfrMiddlewareSvc::<Vec<u8>, NoSvc, (), Provider>::new(NoSvc, Provider { zone, diffs, compat: rq.compat }, 1), rq).await,
        1 => drive_sender(XfrMiddlewareSvc::<Vec<u8>, NoSvc, (), Zone>::new(NoSvc, zone, 1), rq).await,
        _ => {
            let mut tree = ZoneTree::new();
            tree.insert_zone(zone).map_err(|e| format!("insert_zone:{e}"))?;
            drive_sender(XfrMiddlewareSvc::<Vec<u8>, NoSvc, (), Arc<ZoneTree>>::new(NoSvc, Arc::new(tree), 1), rq).await
        }
    }
}

fn sreq_json(r: &SReq) -> Value {
    json!({"qtype": r.qtype, "serial": r.serial, "udp": r.udp, "limit": r.limit, "compat": r.compat, "via_client": r.via_client, "provider": r.provider, "foreign": r.foreign})
}

fn run_sender_case(sh: &Shared, ks: &[Kinds], rq: &SReq, verbose: bool) {
    let versions: Vec<(u32, BTreeSet<MRec>)> = ks.iter().enumerate().map(|(i, k)| (i as u32 + 1, zone_recs(*k))).collect();
    let all_obs: Vec<Obs> = versions.iter().map(|(s, r)| model_obs(*s, r)).collect();
    let current = all_obs.last().unwrap().clone();
    let cur_serial = versions.last().unwrap().0;
    let r = guard(|| RT.with(|rt| rt.block_on(run_sender(&versions, rq))));
    sh.stats.eval();
    LOCAL.with(|l| {
        let mut l = l.borrow_mut();
        l.runs += 1;
        l.transitions += versions.len() as u64;
    });
    let mut key = vec![0x5, scheme() as u8];
    key.extend_from_slice(&soa_plan());
    for k in ks {
        key.extend_from_slice(k);
    }
    key.extend_from_slice(format!("{rq:?}").as_bytes());
    sh.stats.distinct(fnv(&key));
    let cj = || json!({"part": "S", "scheme": scheme(), "soa_plan": soa_plan(), "universe": universe_id(), "zones": ks, "request": sreq_json(rq)});
    let rname = format!(
        "{}/{}{}{}{}",
        if rq.qtype == 252 { "axfr" } else { "ixfr" },
        if rq.udp { "udp" } else { "tcp" },
        if rq.compat { "/compat" } else { "" },
        ["", "/provider=Zone", "/provider=Arc<ZoneTree>"][rq.provider as usize],
        if rq.via_client { "/via-stream-client" } else { "" }
    );
    let out = match r {
        Err(p) => {
            report(sh, &format!("C10|panic|sender|{}", panic_class(&p)), &|| format!("XfrMiddlewareSvc panicked: {p}; request {rq:?}"), &cj);
            return;
        }
        Ok(Err(e)) => {
            lcount(&format!("S:error:{e}"));
            report(sh, &format!("C10|sender|{rname}|{}", err_class(e.clone())), &|| format!("sender run failed: {e}; request {rq:?}"), &cj);
            return;
        }
        Ok(Ok(o)) => o,
    };
    if verbose {
        println!("sender case: zones={ks:?} request={rq:?}");
        println!("  feedback {:?} errors {:?} messages {}", out.feedback, out.errors, out.msgs.len());
    }
    // a request for a zone the sender does not have: one error response, nothing of the zone
    if rq.foreign {
        let ok = out.errors.is_empty() && out.msgs.len() == 1 && wire::read_message(&out.msgs[0]).map(|m| m.flags & 0xf != 0 && m.counts[1] == 0).unwrap_or(false);
        lcount(&format!("S:{rname}:foreign-zone:refused={ok}"));
        if !ok {
            report(sh, &format!("C10|sender|{rname}|request-for-another-zone-not-refused"), &|| format!("{} responses, errors {:?}", out.msgs.len(), out.errors), &cj);
        }
        return;
    }
    // the stream client must hand over what the server wrote, up to the end of the transfer
    if rq.via_client {
        let old_for_ref = &all_obs[match rq.serial {
            Some(s) if s >= 1 && (s as usize) <= versions.len() => s as usize - 1,
            _ => 0,
        }];
        let ref_em = reference(&out.emitted, old_for_ref);
        let prefix = out.msgs.len() <= out.emitted.len() && out.msgs.iter().zip(out.emitted.iter()).all(|(a, b)| a == b);
        if ref_em.verdict == V::Open {
            return; // SOA SOA: not judged (see the reference)
        }
        if !prefix {
            report(sh, &format!("C10|client|{rname}|delivered-messages-are-not-the-sent-messages"), &|| format!("{} delivered, {} sent", out.msgs.len(), out.emitted.len()), &cj);
            return;
        }
        if ref_em.verdict == V::Valid && reference(&out.msgs, old_for_ref).verdict != V::Valid {
            let lone = wire::read_message(&out.emitted[0]).map(|m| m.counts[1] == 1).unwrap_or(false) && rq.qtype == 251;
            report(
                sh,
                &format!(
                    "C10|client|stream|valid-transfer-not-delivered|{}{}",
                    out.client_error.clone().map(|e| format!("error={e}")).unwrap_or("end-of-responses-before-the-transfer-was-complete".into()),
                    if lone { "|first-message-holds-only-the-soa" } else { "" }
                ),
                &|| format!("the server sent {} messages forming a valid transfer; the stream client delivered {} and then {:?}", out.emitted.len(), out.msgs.len(), out.client_error),
                &cj,
            );
            return;
        }
    }
    // what the requester holds
    let client_idx = match rq.serial {
        Some(s) if s >= 1 && (s as usize) <= versions.len() => s as usize - 1,
        _ => 0,
    };
    let client = &versions[client_idx];
    let client_obs = &all_obs[client_idx];
    let refo = reference(&out.msgs, client_obs);
    lcount(&format!(
        "S:{rname}:serial={:?}:ref={:?}({})/{}",
        rq.serial.map(|s| if s == cur_serial {
            "current"
        } else if s == 0 {
            "unknown"
        } else if serial_newer(actual(cur_serial), actual(s)) {
            "behind"
        } else {
            "ahead"
        }),
        refo.verdict,
        refo.reason,
        refo.xfr
    ));
    if !out.errors.is_empty() {
        report(sh, &format!("C10|sender|{rname}|service-error"), &|| format!("response stream carries errors {:?}", out.errors), &cj);
        return;
    }
    // AXFR over UDP: refused (RFC 5936 4.2); IXFR with the current serial: single SOA
    if rq.qtype == 252 && rq.udp {
        let ok = out.msgs.len() == 1 && wire::read_message(&out.msgs[0]).map(|m| m.flags & 0xf != 0 && m.counts[1] == 0).unwrap_or(false);
        if !ok {
            report(sh, "C10|sender|axfr/udp|not-refused", &|| "an AXFR request over UDP is not answered by a single error response".into(), &cj);
        }
        return;
    }
    // RFC 1995 2: a requester whose serial is the same as or newer than the
    // sender's (RFC 1982 arithmetic, computed here in u64) is answered by the
    // single current SOA.  (A full AXFR-style answer is wasteful but still a
    // valid transfer and is judged below.)  A requester that is behind must
    // get a transfer.
    let client_behind = rq.serial.map(|s| serial_newer(actual(cur_serial), actual(s))).unwrap_or(true);
    if !client_behind && refo.verdict == V::UpToDate {
        lcount("S:requester-not-behind:single-soa");
        return;
    }
    if rq.udp && rq.limit < 512 && refo.verdict == V::UpToDate {
        // does not fit: single SOA, retry over TCP (RFC 1995 2)
        lcount("S:udp-single-soa-retry-signal");
        return;
    }
    // a size limit no record fits in: an error response (or, if the sender finds a way, a valid transfer)
    if rq.limit < 60 && out.msgs.iter().any(|m| wire::read_message(m).map(|r| r.flags & 0xf != 0).unwrap_or(false)) && refo.verdict == V::Invalid {
        lcount("S:limit-too-small-for-a-record:error-response");
        return;
    }
    // Room for fewer than 512 octets per message (produced here by reserving almost the whole
    // message) is below the size every DNS implementation must handle (RFC 1035 2.3.4); it is not
    // one of the "legal message sizes" the property quantifies over. The harness uses it only to
    // force many small messages. A sender may serve such a request (then the transfer is judged
    // like any other, below) or decline it cleanly: exactly one response with an error RCODE and
    // no answer records. A refusal that is not clean (records before the error, several messages)
    // is still judged below.
    if rq.limit < 512
        && refo.verdict == V::Invalid
        && out.msgs.len() == 1
        && wire::read_message(&out.msgs[0]).map(|r| r.flags & 0xf != 0 && r.counts[1] == 0).unwrap_or(false)
    {
        lcount("S:room-below-512-octets:clean-refusal");
        return;
    }
    if rq.udp && out.msgs.len() != 1 {
        report(sh, &format!("C10|sender|{rname}|more-than-one-datagram"), &|| format!("{} UDP responses", out.msgs.len()), &cj);
    }
    if refo.verdict == V::Open {
        return;
    }
    // the emitted stream must be a valid transfer of the sender's zone, and the
    // real receiver holding the requester's version must end up with it
    let c = Case {
        part: "S",
        label: format!("sender:{rname}/limit={}/zones={:?}", rq.limit, ks),
        old_kinds: ks[client_idx],
        old_serial: client.0,
        old: &client.1,
        honest_new: Some(current),
        honest_versions: all_obs.clone(),
        fault: None,
        msgs: out.msgs.clone(),
        custom_old: None,
        replay_as: None,
                via_client: None,
    };
    judge(sh, &c, verbose);
}

fn sender_requests() -> Vec<SReq> {
    let base = SReq { qtype: 252, serial: None, udp: false, limit: u16::MAX, compat: false, via_client: false, provider: 0, foreign: false };
    let mut v = vec![];
    // 50: not even the SOA fits a response
    for limit in [u16::MAX, 130, 90, 50] {
        for via_client in [false, true] {
            for compat in [false, true] {
                v.push(SReq { limit, compat, via_client, ..base.clone() });
            }
            for serial in [0u32, 1, 2, 3] {
                v.push(SReq { qtype: 251, serial: Some(serial), limit, via_client, ..base.clone() });
            }
        }
    }
    v.push(SReq { udp: true, limit: 512, ..base.clone() });
    // 512: every answer of the universe fits; 100: not even SOA SOA fits (order-independent outcomes)
    for limit in [512u16, 100] {
        for serial in [0u32, 1, 2, 3] {
            v.push(SReq { qtype: 251, serial: Some(serial), udp: true, limit, ..base.clone() });
        }
    }
    // the other data providers (no diffs: every IXFR is answered AXFR-style)
    for provider in [1u8, 2] {
        for via_client in [false, true] {
            v.push(SReq { provider, via_client, ..base.clone() });
            for serial in [0u32, 1, 2] {
                v.push(SReq { qtype: 251, serial: Some(serial), provider, via_client, ..base.clone() });
            }
        }
        v.push(SReq { qtype: 251, serial: Some(1), udp: true, limit: 512, provider, ..base.clone() });
    }
    // a request for a zone the sender does not have
    for provider in [0u8, 1, 2] {
        v.push(SReq { provider, foreign: true, ..base.clone() });
        v.push(SReq { qtype: 251, serial: Some(1), provider, foreign: true, ..base.clone() });
    }
    v
}

fn run_sender_part(sh: &Shared, b: &Bounds) {
    let mut chains: Vec<Vec<Kinds>> = vec![];
    for oi in 0..64 {
        for ni in 0..64 {
            let (o, n) = (kinds_of(oi), kinds_of(ni));
            let d = dist(o, n);
            if d == 0 || d > b.sender_dist {
                continue;
            }
            chains.push(vec![o, n]);
            for mi in 0..64 {
                let m = kinds_of(mi);
                if m != o && m != n && dist(o, m) <= 1 && dist(m, n) <= 1 {
                    chains.push(vec![o, m, n]);
                }
            }
        }
    }
    lcount(&format!("S:version-chains={}", chains.len()));
    let reqs = sender_requests();
    // every serial scheme: the up-to-date / fallback decisions depend on serial arithmetic
    let work: Vec<(usize, &Vec<Kinds>)> = (0..SCHEMES.len()).flat_map(|sc| chains.iter().map(move |c| (sc, c))).collect();
    work.par_iter().for_each(|(sc, ks)| {
        with_scheme(*sc, || {
            for rq in &reqs {
                if rq.serial.map(|s| s as usize > ks.len()).unwrap_or(false) {
                    continue;
                }
                // the transport and provider variants do not depend on the serials: plain and wrapping scheme only
                if *sc > 1 && rq.via_client || *sc > 0 && (rq.provider != 0 || rq.foreign || rq.limit == 50) {
                    continue;
                }
                run_sender_case(sh, ks, rq, false);
            }
        })
    });
}

/// Parts R and D again under every other serial scheme, on a smaller space:
/// honest streams of all kinds for pairs at most one RRset apart, packaged in
/// one message, with one cut at every position, and one RR per message; edit
/// sequences of length <= 1 on every zone in both commit modes.
fn run_serial_part(sh: &Shared, b: &Bounds) {
    let mut work = vec![];
    for sc in 1..SCHEMES.len() {
        for oi in 0..64 {
            for ni in 0..64 {
                if dist(kinds_of(oi), kinds_of(ni)) <= 1 {
                    work.push((sc, kinds_of(oi), kinds_of(ni)));
                }
            }
        }
    }
    work.par_iter().for_each(|(sc, old_k, new_k)| {
        with_scheme(*sc, || {
            let old = zone_recs(*old_k);
            for st in streams_for(*old_k, *new_k, b) {
                let n = st.seq.len();
                for mask in masks_for(n, 0, 1) {
                    let qmode = (mask.count_ones() & 1) as u8;
                    let msgs: Vec<Bytes> = split_specs(&st.seq, mask, st.qtype, qmode).iter().map(build_msg).collect();
                    let c = Case {
                        part: "R",
                        label: format!("{}/new={:?}/mask={:#b}/q={}", st.label, new_k, mask, qmode),
                        old_kinds: *old_k,
                        old_serial: 1,
                        old: &old,
                        honest_new: Some(st.new_obs.clone()),
                        honest_versions: st.versions.clone(),
                        fault: None,
                        msgs,
                        custom_old: None,
                        replay_as: None,
                via_client: None,
                    };
                    judge(sh, &c, false);
                }
            }
        })
    });
    let alpha = op_alphabet();
    let mut dwork = vec![];
    for sc in 1..SCHEMES.len() {
        for zi in 0..64usize {
            dwork.push((sc, zi));
        }
    }
    dwork.par_iter().for_each(|(sc, zi)| {
        with_scheme(*sc, || {
            for mode in 0..2u8 {
                run_diff_case(sh, kinds_of(*zi), &[], mode, false);
                for op in &alpha {
                    run_diff_case(sh, kinds_of(*zi), &[*op], mode, false);
                }
            }
        })
    });
}


// ====================================================================
// Part L: the TTL axis
// ====================================================================
//
// Everything above runs with one TTL (3600) and one SOA (TTL 3600, fixed
// timers).  Part L re-runs the same parts, with the same oracles (every zone
// comparison is TTL-exact: `CRec` holds the TTL), on zones whose RRsets take
// their TTL from the menu TTLS = {3600, 300, 0, 2^31-1} and whose SOA takes
// TTL and timers from the menu SOAVS:
//  * L/R: every ordered pair of the TTL universe (a.z: nothing or {A{1},
//    A{1,2}, TXT} x 4 TTLs; b.a.z: nothing or TXT with TTL 300 [thorough:
//    or 3600]) - an RRset changes only its TTL (raised / lowered), changes
//    TTL while it gains, loses or replaces records, appears, disappears,
//    alone or together with a second RRset - through AXFR, AXFR-style IXFR,
//    IXFR RR granular (RFC 1995: TTL change = delete + add), RRset granular
//    and "added records carry the new TTL" (see `ixfr_seq`), all splits up to
//    6 RRs [8], beyond that <=2 cuts + one RR per message; 2-step IXFR through
//    every mid (incl. TTL there and back) on the 7-zone small universe;
//    faults on four pairs [all pairs of the small universe].
//  * L/SOA: every SOA plan (variant of version 1, 2 [and 3]) x 5 content
//    pairs (incl. no content change at all), same streams, 2-step with the
//    SOA of the mid version, faults under four plans.
//  * L/D: every edit sequence <= 2 over the TTL edit alphabet on every zone
//    of the TTL universe, both commit modes; edit sequences <= 1 under every
//    SOA plan (explicitly written SOA of another variant; bumped SOA keeps
//    TTL and timers).
//  * L/S: the real sender edited from `old` to `new` (TTL-only edits
//    included) answers AXFR / IXFR requests; reference + real receiver as in
//    part S; also under SOA plans.
//  * L/W, L/H: stream client and histories on the small universe and under
//    SOA plans.
//  * edit shapes: the A RRset of a.z in the shapes {A{1}, A{1,2}, A{3}, A{1,3}}
//    x TTL {3600, 300, 2^31-1 [, 0]}: every ordered pair (record edit keep+add /
//    keep+remove / keep+add+remove / replace all / none x TTL same / raised /
//    lowered) not already in the TTL universe, through L/R (all stream forms;
//    thorough: faults, 2-step through every zone), L/S (2-version chains
//    [3-version chains], all request kinds), L/W; A{1,3} is an edit operation
//    of L/D and the zones holding A{3} / A{1,3} are old contents there.

fn is_base(k: Kinds) -> bool {
    k.iter().all(|v| v >> 3 == 0)
}

fn ttl_sender_requests() -> Vec<SReq> {
    let base = SReq { qtype: 252, serial: None, udp: false, limit: u16::MAX, compat: false, via_client: false, provider: 0, foreign: false };
    let mut v = vec![base.clone(), SReq { limit: 90, ..base.clone() }, SReq { compat: true, ..base.clone() }];
    for serial in [0u32, 1, 2, 3] {
        v.push(SReq { qtype: 251, serial: Some(serial), ..base.clone() });
    }
    for limit in [130u16, 90] {
        v.push(SReq { qtype: 251, serial: Some(1), limit, ..base.clone() });
    }
    v.push(SReq { qtype: 251, serial: Some(1), via_client: true, ..base.clone() });
    v.push(SReq { qtype: 251, serial: Some(1), udp: true, limit: 512, ..base.clone() });
    v.push(SReq { qtype: 251, serial: Some(1), provider: 1, ..base.clone() });
    v
}

fn soa_plans(third_free: bool, menu: &[u8]) -> Vec<[u8; 3]> {
    let mut v = vec![];
    for v1 in menu {
        for v2 in menu {
            if third_free {
                for v3 in menu {
                    v.push([*v1, *v2, *v3]);
                }
            } else {
                v.push([*v1, *v2, *v1]);
            }
        }
    }
    v.retain(|p| *p != [0, 0, 0]);
    v
}

fn run_ttl_part(sh: &Shared, b: &Bounds) {
    let wide = b.ttl_wide;
    let uid: u8 = if wide { 2 } else { 1 };
    let uni = ttl_universe(wide);
    let small = ttl_small_universe();
    let all_variants: Vec<u8> = (0..SOAVS.len() as u8).collect();
    let (e, a1, a2) = ([0u8, 0, 0], [1u8, 0, 0], [kt(2, 1), 0, 0]);
    let upto = if wide { 8 } else { 6 };
    // ---- L/R: all pairs of the TTL universe (the pairs of the small universe follow with 2-step streams)
    let rb = Bounds { max_dist: 2, all_splits_upto: upto, both_qmodes: false, mid_first: 0, mid_second: 0, faults: false, ..*b };
    let mut pairs = vec![];
    for o in &uni {
        for n in &uni {
            if !(is_base(*o) && is_base(*n)) && !(small.contains(o) && small.contains(n)) {
                pairs.push((*o, *n));
            }
        }
    }
    lcount(&format!("L:ttl-universe={}:pairs={}", uni.len(), pairs.len() + small.len() * small.len()));
    pairs.par_iter().for_each(|(o, n)| with_universe(uid, || run_pair(sh, *o, *n, &rb)));
    let fault_pairs = [([kt(1, 1), 0, 0], [kt(2, 0), 0, 0]), ([kt(2, 0), 0, 0], [kt(1, 1), 0, 0]), ([kt(1, 1), 0, 0], [kt(1, 3), 0, 0]), ([kt(2, 3), 0, 0], [kt(2, 0), 0, 0])];
    let sb = Bounds { max_dist: 2, all_splits_upto: upto, both_qmodes: false, mid_first: 1, mid_second: 1, fault_dist: 1, fault_cuts: 1, ..*b };
    let mut spairs = vec![];
    for o in &small {
        for n in &small {
            spairs.push((*o, *n));
        }
    }
    spairs.par_iter().for_each(|(o, n)| with_universe(3, || run_pair(sh, *o, *n, &Bounds { faults: wide || fault_pairs.contains(&(*o, *n)), ..sb })));
    // ---- L/R on the edit-shape universe: every ordered pair in which a zone holds A{3} or A{1,3}
    // (the pairs among A{1} / A{1,2} are part of the TTL universe above); thorough: faults on the
    // 1-step streams, and 2-step streams through every zone of the universe
    let shape_uid: u8 = if wide { 6 } else { 5 };
    let shapes = ttl_shape_universe(wide);
    let mut shape_pairs = vec![];
    for o in &shapes {
        for n in &shapes {
            if [*o, *n].iter().any(|k| k[0] & 7 >= 4) {
                shape_pairs.push((*o, *n));
                let (recs, ttl) = edit_shape(*o, *n);
                lcount(&format!("L:shape:{recs}/{ttl}"));
            }
        }
    }
    lcount(&format!("L:shape-universe={}:pairs={}", shapes.len(), shape_pairs.len()));
    let shb = Bounds { mid_first: 0, mid_second: 0, faults: wide, ..sb };
    shape_pairs.par_iter().for_each(|(o, n)| with_universe(shape_uid, || run_pair(sh, *o, *n, &shb)));
    if wide {
        let shb2 = Bounds { mid_first: 1, mid_second: 1, faults: false, ..sb };
        shape_pairs.par_iter().for_each(|(o, n)| with_universe(shape_uid, || run_pair(sh, *o, *n, &shb2)));
    }
    // ---- L/SOA
    let content_pairs = [(e, e), (a1, a1), (a1, a2), (a2, a1), (e, a1)];
    let fault_plans = [[0u8, 1, 0], [1, 0, 1], [0, 4, 0], [5, 0, 5]];
    let mut work = vec![];
    for plan in soa_plans(wide, &all_variants) {
        for cp in content_pairs {
            work.push((plan, cp));
        }
    }
    lcount(&format!("L:soa-plans-x-content-pairs={}", work.len()));
    work.par_iter().for_each(|(plan, (o, n))| {
        let faults = fault_plans.contains(plan) && *o == a1;
        with_soa_plan(*plan, || with_universe(4, || run_pair(sh, *o, *n, &Bounds { faults, ..sb })))
    });
    // ---- L/D
    run_diff_space(sh, &uni, &ttl_op_alphabet(), b.diff_len.min(2), [0; 3]);
    if wide {
        run_diff_space(sh, &small, &ttl_op_alphabet(), 3, [0; 3]);
    }
    // (zones that hold A{3} or A{1,3} before the edits)
    let shape_only: Vec<Kinds> = shapes.iter().filter(|k| k[0] & 7 >= 4).cloned().collect();
    run_diff_space(sh, &shape_only, &ttl_op_alphabet(), if wide { 2 } else { 1 }, [0; 3]);
    for v1 in &all_variants {
        for v2 in &all_variants {
            if (*v1, *v2) != (0, 0) {
                run_diff_space(sh, &soa_axis_zones(), &op_alphabet(), 1, [*v1, *v2, 0]);
            }
        }
    }
    // ---- L/S
    let mut chains: Vec<([u8; 3], Vec<Kinds>)> = vec![];
    let suni = ttl_universe(false);
    for o in &suni {
        for n in &suni {
            let d = dist(*o, *n);
            if d >= 1 && d <= b.sender_dist && !(is_base(*o) && is_base(*n)) {
                chains.push(([0; 3], vec![*o, *n]));
            }
        }
    }
    for o in &small {
        for m in &small {
            for n in &small {
                if o != m && m != n && !(is_base(*o) && is_base(*m) && is_base(*n)) {
                    chains.push(([0; 3], vec![*o, *m, *n]));
                }
            }
        }
    }
    // the sender edited along every pair of the edit-shape universe (thorough: and on through every third zone
    // of the 3-TTL shape universe)
    for (o, n) in &shape_pairs {
        if o != n {
            chains.push(([0; 3], vec![*o, *n]));
            if wide {
                for m in ttl_shape_universe(false) {
                    if m != *n {
                        chains.push(([0; 3], vec![*o, *n, m]));
                    }
                }
            }
        }
    }
    for plan in soa_plans(false, &all_variants) {
        for ks in [vec![a1, a1], vec![a1, a2], vec![e, a1], vec![a1, a2, a1]] {
            chains.push((plan, ks));
        }
    }
    lcount(&format!("L:S:version-chains={}", chains.len()));
    let reqs = ttl_sender_requests();
    chains.par_iter().for_each(|(plan, ks)| {
        with_soa_plan(*plan, || {
            for rq in &reqs {
                if rq.serial.map(|s| s as usize > ks.len()).unwrap_or(false) {
                    continue;
                }
                run_sender_case(sh, ks, rq, false);
            }
        })
    });
    // ---- L/W
    let wb = Bounds { wire_faults: false, wire_all_splits_upto: 0, mid_first: 0, mid_second: 0, ..*b };
    let mut wwork: Vec<([u8; 3], Kinds, Kinds)> = vec![];
    for (o, n) in &spairs {
        if !(is_base(*o) && is_base(*n)) {
            wwork.push(([0; 3], *o, *n));
        }
    }
    for plan in soa_plans(false, &all_variants) {
        wwork.push((plan, a1, a1));
        wwork.push((plan, a1, a2));
    }
    wwork.par_iter().for_each(|(plan, o, n)| with_soa_plan(*plan, || with_universe(3, || run_wire_pair(sh, *o, *n, &wb))));
    shape_pairs.par_iter().for_each(|(o, n)| with_universe(shape_uid, || run_wire_pair(sh, *o, *n, &wb)));
    // ---- L/H
    let mids = if wide { 1 } else { 0 };
    let hb = Bounds { hist_aborts: if wide { 2 } else { 1 }, hist_all_mids: false, mid_first: mids, mid_second: mids, ..*b };
    let mut hwork: Vec<([u8; 3], u8, Kinds, Kinds)> = vec![];
    for (o, n) in &spairs {
        if o != n {
            hwork.push(([0; 3], 3, *o, *n));
        }
    }
    for plan in soa_plans(false, &[0, 1, 4, 5]) {
        hwork.push((plan, 4, a1, a1));
        hwork.push((plan, 4, a1, a2));
    }
    hwork.par_iter().for_each(|(plan, u, o, n)| with_soa_plan(*plan, || with_universe(*u, || run_history_pair(sh, *o, *n, &hb))));
}

// ====================================================================
// Part Q: record data whose equality is not settled by a fixed layout
// ====================================================================

/// The edits of part Q on a.z: the RRset becomes {X}, {X,Y}, {Y}, is removed, or everything is removed.
fn twin_op_alphabet(p: usize) -> Vec<Op> {
    let t = REM_TYPES.iter().position(|t| *t == XS[TWINS[p].0 as usize].0).unwrap() as u8;
    let mut v = vec![Op::Upd(1, 4), Op::Upd(1, 6), Op::Rem(1, t), Op::RemAll];
    if p != CASE_TWIN {
        v.push(Op::Upd(1, 5));
    }
    v
}

fn run_eq_part(sh: &Shared, b: &Bounds, quick: bool) {
    // ---- Q/R (+ Q/F thorough): every ordered pair of every twin universe through every stream
    // form of part R (AXFR, AXFR-style IXFR, IXFR RR / RRset granular, 2-step through every zone)
    let rb = Bounds { max_dist: 2, all_splits_upto: if quick { 7 } else { 10 }, both_qmodes: !quick, mid_first: 1, mid_second: 1, fault_dist: 1, fault_cuts: 1, faults: !quick, ..*b };
    let mut pairs: Vec<(u8, Kinds, Kinds)> = vec![];
    for p in 0..TWINS.len() {
        let uni = twin_universe(p);
        for o in &uni {
            for n in &uni {
                pairs.push((TWIN_U0 + p as u8, *o, *n));
            }
        }
        lcount(&format!("Q:twin-pair:{}", TWIN_NAMES[p]));
    }
    pairs.par_iter().for_each(|(u, o, n)| with_universe(*u, || run_pair(sh, *o, *n, &rb)));
    // ---- Q/D: every edit sequence <= 2 (thorough 3) on every zone, both commit modes
    let max_len = if quick { 2 } else { 3 };
    let mut dwork: Vec<(u8, Kinds, Vec<Op>)> = vec![];
    for p in 0..TWINS.len() {
        let alpha = twin_op_alphabet(p);
        for z in twin_universe(p) {
            for len in 0..=max_len {
                for idx in 0..pow(alpha.len(), len) {
                    let mut ops = vec![];
                    nth_string(&alpha, len, idx, &mut ops);
                    dwork.push((TWIN_U0 + p as u8, z, ops));
                }
            }
        }
    }
    dwork.par_iter().for_each(|(u, z, ops)| {
        with_universe(*u, || {
            for mode in 0..2u8 {
                run_diff_case(sh, *z, ops, mode, false);
            }
        })
    });
    // ---- Q/S: the sender edited with the write interface along every pair (thorough: every 3-chain),
    // its commit diffs served by the real XfrMiddlewareSvc; Q/W: the streams through the stream client
    let reqs = ttl_sender_requests();
    let mut chains: Vec<(u8, Vec<Kinds>)> = vec![];
    for (u, o, n) in &pairs {
        if o != n {
            chains.push((*u, vec![*o, *n]));
            if !quick {
                for m in twin_universe((*u - TWIN_U0) as usize) {
                    if m != *n {
                        chains.push((*u, vec![*o, *n, m]));
                    }
                }
            }
        }
    }
    lcount(&format!("Q:S:version-chains={}", chains.len()));
    chains.par_iter().for_each(|(u, ks)| {
        with_universe(*u, || {
            for rq in &reqs {
                if rq.serial.map(|s| s as usize > ks.len()).unwrap_or(false) {
                    continue;
                }
                run_sender_case(sh, ks, rq, false);
            }
        })
    });
    let wb = Bounds { wire_faults: false, wire_all_splits_upto: 0, mid_first: 0, mid_second: 0, ..*b };
    pairs.par_iter().for_each(|(u, o, n)| with_universe(*u, || run_wire_pair(sh, *o, *n, &wb)));
}

fn replay_sender(sh: &Shared, case: &Value) {
    let ks: Vec<Kinds> = case["zones"]
        .as_array()
        .unwrap()
        .iter()
        .map(|z| {
            let a: Vec<u8> = z.as_array().unwrap().iter().map(|x| x.as_u64().unwrap() as u8).collect();
            [a[0], a[1], a[2]]
        })
        .collect();
    let rq = sreq_from_json(&case["request"]);
    run_sender_case(sh, &ks, &rq, true);
}

fn sreq_from_json(r: &Value) -> SReq {
    SReq {
        qtype: r["qtype"].as_u64().unwrap() as u16,
        serial: r["serial"].as_u64().map(|s| s as u32),
        udp: r["udp"].as_bool().unwrap(),
        limit: r["limit"].as_u64().unwrap() as u16,
        compat: r["compat"].as_bool().unwrap(),
        via_client: r["via_client"].as_bool().unwrap_or(false),
        provider: r["provider"].as_u64().unwrap_or(0) as u8,
        foreign: r["foreign"].as_bool().unwrap_or(false),
    }
}


// ====================================================================
// Part W: the same streams served over an in-memory connection and read
// by the real stream client (net::client::stream, multi-response request)
// ====================================================================
//
// The scripted server answers the request the client really sent (ID taken
// from it) with the messages of the stream and closes the connection.  The
// client's own end-of-transfer detection decides how many messages reach the
// interpreter.  Same reference, same oracles as parts R and F.

fn run_wire_pair(sh: &Shared, old_k: Kinds, new_k: Kinds, b: &Bounds) {
    let old = zone_recs(old_k);
    for st in streams_for(old_k, new_k, b) {
        let n = st.seq.len();
        let client_serial = if st.qtype == 251 { Some(1) } else { None };
        for mask in masks_for(n, b.wire_all_splits_upto, 1) {
            let qmode = (mask.count_ones() & 1) as u8;
            let specs = split_specs(&st.seq, mask, st.qtype, qmode);
            let msgs: Vec<Bytes> = specs.iter().map(build_msg).collect();
            let c = Case {
                part: "W",
                label: format!("{}/new={:?}/mask={:#b}/q={}", st.label, new_k, mask, qmode),
                old_kinds: old_k,
                old_serial: 1,
                old: &old,
                honest_new: Some(st.new_obs.clone()),
                honest_versions: st.versions.clone(),
                fault: None,
                msgs,
                custom_old: None,
                replay_as: None,
                via_client: Some((st.qtype, client_serial)),
            };
            judge(sh, &c, false);
            // faults: on the single-message and the one-RR-per-message packaging
            let total = (1u32 << (n - 1)) - 1;
            if !(mask == 0 || mask == total) || !b.wire_faults {
                continue;
            }
            if st.label.starts_with("ixfr-2step") && (st.kinds[1] == st.kinds[0] || st.kinds[1] == st.kinds[2]) {
                continue;
            }
            for f in all_faults(&specs) {
                let Some(fs) = apply_fault(&specs, &f) else { continue };
                let msgs: Vec<Bytes> = fs.iter().map(build_msg).collect();
                let c = Case {
                    part: "W",
                    label: format!("{}/new={:?}/mask={:#b}/q={}", st.label, new_k, mask, qmode),
                    old_kinds: old_k,
                    old_serial: 1,
                    old: &old,
                    honest_new: None,
                    honest_versions: vec![],
                    fault: Some(fault_name(&f)),
                    msgs,
                    custom_old: None,
                    replay_as: None,
                    via_client: Some((st.qtype, client_serial)),
                };
                judge(sh, &c, false);
            }
        }
    }
}

fn run_wire_part(sh: &Shared, b: &Bounds) {
    let mut work = vec![];
    for sc in [0usize, 1] {
        for oi in 0..64 {
            for ni in 0..64 {
                if dist(kinds_of(oi), kinds_of(ni)) <= b.wire_dist {
                    work.push((sc, kinds_of(oi), kinds_of(ni)));
                }
            }
        }
    }
    work.par_iter().for_each(|(sc, o, n)| {
        // (faults under the plain serials only)
        let bb = Bounds { wire_faults: b.wire_faults && *sc == 0, ..*b };
        with_scheme(*sc, || run_wire_pair(sh, *o, *n, &bb))
    });
}

// ====================================================================
// Part H: histories of two updates of one zone, the first one aborted
// ====================================================================
//
// U1 is any honest stream of part R (one RR per message) cut after every k
// RRs, either by the end of the stream or by an error response; the updater
// is dropped.  U2 is a different, complete update from the version the zone
// is at after the abort (IXFR in one message, IXFR one RR per message, AXFR)
// to every zone at most one RRset away (the same content with a new serial
// included).  The reference model ignores the aborted update.

struct HistCase<'a> {
    old_k: Kinds,
    st: &'a Stream,
    cut: usize,
    abort: u8,
    new2_k: Kinds,
    form: u8,
}

fn hist_json(h: &HistCase) -> Value {
    json!({"part": "H", "scheme": scheme(), "soa_plan": soa_plan(), "universe": universe_id(), "old": h.old_k, "u1": h.st.label, "u1_kinds": h.st.kinds, "cut": h.cut, "abort": h.abort, "new2": h.new2_k, "form": h.form})
}

fn run_history_case(sh: &Shared, h: &HistCase, verbose: bool) {
    let old = zone_recs(h.old_k);
    let old_obs = model_obs(1, &old);
    // ---- U1, aborted
    let specs = split_specs(&h.st.seq, (1u32 << (h.st.seq.len() - 1)) - 1, h.st.qtype, 0);
    let mut specs1: Vec<MsgSpec> = specs[..h.cut].to_vec();
    if h.abort == 1 {
        let mut e = MsgSpec::plain(h.st.qtype, true, &[]);
        e.rcode = 2;
        specs1.push(e);
    }
    let msgs1: Vec<Bytes> = specs1.iter().map(build_msg).collect();
    let ref1 = reference(&msgs1, &old_obs);
    // the version the zone is at after the abort, by the reference: the last completed one
    let base_obs = ref1.completed.last().cloned().unwrap_or_else(|| old_obs.clone());
    let Some(base_idx) = h.st.versions.iter().position(|v| *v == base_obs) else {
        report(sh, "C10|MACHINERY|history-base-version-unknown", &|| "harness self-check".into(), &|| hist_json(h));
        return;
    };
    if ref1.verdict == V::Valid || ref1.verdict == V::Either {
        report(sh, "C10|MACHINERY|aborted-stream-read-as-complete", &|| "harness self-check".into(), &|| hist_json(h));
        return;
    }
    let base_k = h.st.kinds[base_idx];
    if dist(base_k, h.new2_k) > 1 {
        return;
    }
    let base_serial = base_idx as u32 + 1;
    let base = zone_recs(base_k);
    // ---- U2, complete
    let new2 = zone_recs(h.new2_k);
    let serial2 = base_serial + 10;
    let want = model_obs(serial2, &new2);
    let (seq2, qtype2, mask2) = match h.form {
        0 => (ixfr_seq(&[(base_serial, base.clone()), (serial2, new2.clone())], 0), 251u16, 0u32),
        1 => {
            let s = ixfr_seq(&[(base_serial, base.clone()), (serial2, new2.clone())], 0);
            let m = (1u32 << (s.len() - 1)) - 1;
            (s, 251, m)
        }
        _ => (axfr_seq(serial2, &new2), 252, 0),
    };
    let msgs2: Vec<Bytes> = split_specs(&seq2, mask2, qtype2, 0).iter().map(build_msg).collect();
    // ---- the real zone
    let zone = build_zone(1, &old);
    let pinned = zone.read();
    let mut rec1 = RealRec::default();
    let out1 = guard(|| RT.with(|rt| rt.block_on(run_pipeline(&zone, &msgs1, &mut rec1))));
    let after_abort = observe(&zone);
    let reader_mid = zone.read();
    let mut rec2 = RealRec::default();
    let out2 = guard(|| RT.with(|rt| rt.block_on(run_pipeline(&zone, &msgs2, &mut rec2))));
    let final_obs = observe(&zone);
    sh.stats.eval();
    LOCAL.with(|l| {
        let mut l = l.borrow_mut();
        l.runs += 1;
        l.transitions += (rec1.consumed + rec2.consumed) as u64 + 2;
        l.states.insert(obs_hash(&after_abort));
        l.states.insert(obs_hash(&final_obs));
    });
    let mut key = vec![0x48, h.cut as u8, h.abort, h.form, universe_id()];
    key.extend_from_slice(&soa_plan());
    key.extend_from_slice(&h.old_k);
    key.extend_from_slice(&h.new2_k);
    key.extend_from_slice(h.st.label.as_bytes());
    for k in &h.st.kinds {
        key.extend_from_slice(k);
    }
    sh.stats.distinct(fnv(&key));
    let u1 = h.st.label.split('/').next().unwrap_or("");
    let reopened = rec1.updates.contains(&"BeginBatchDelete");
    lcount(&format!(
        "H:u1={}:abort={}:after-reopen={}:u1={}:u2-form={}:u2={}",
        u1,
        if h.abort == 0 { "stream-ends" } else { "servfail" },
        reopened,
        outcome_name(&out1),
        ["ixfr-1msg", "ixfr-1rr-per-msg", "axfr"][h.form as usize],
        outcome_name(&out2)
    ));
    if verbose {
        println!("history case: {}", hist_json(h));
        println!("  U1 {} messages, reference {:?}/{}; real {:?} updates {:?}", msgs1.len(), ref1.verdict, ref1.reason, out1, rec1.updates);
        println!("  after abort: {}", obs_json(&after_abort));
        println!("  base (model): {}", obs_json(&base_obs));
        println!("  U2 real {:?} updates {:?}", out2, rec2.updates);
        println!("  final: {}", obs_json(&final_obs));
        println!("  want : {}", obs_json(&want));
    }
    let cj = || hist_json(h);
    let phase = if reopened { "aborted-after-reopen" } else { "aborted-before-first-commit" };
    for (o, which) in [(&out1, "aborted"), (&out2, "following")] {
        if let Err(p) = o {
            report(sh, &format!("C10|panic|history|{}", panic_class(p)), &|| format!("the {which} update panicked: {p}"), &cj);
            return;
        }
    }
    if out1 == Ok(Outcome::Finished) {
        report(sh, &format!("C10|history|{u1}|aborted-update-reported-finished"), &|| "an update whose stream was cut is reported as finished".into(), &cj);
    }
    if after_abort != base_obs {
        let tc = ttl_cause(&old_obs, &base_obs, &after_abort).map(|t| format!("|{t}")).unwrap_or_default();
        report(
            sh,
            &format!("C10|history|{u1}|{phase}|partial-update-visible-after-abort{tc}"),
            &|| format!("after the aborted update a new reader sees {} instead of {}", obs_json(&after_abort), obs_json(&base_obs)),
            &cj,
        );
    }
    match &out2 {
        Ok(Outcome::Finished) => {
            if final_obs != want {
                let tc = ttl_cause(&base_obs, &want, &final_obs).map(|t| format!("|{t}")).unwrap_or_default();
                report(
                    sh,
                    &format!("C10|history|{u1}|{phase}|aborted-update-leaks-into-the-next-committed-version{tc}"),
                    &|| {
                        format!(
                            "after an aborted {u1} update ({phase}) a complete update to {} leaves the zone at {}: edits of the aborted update were published by the later commit",
                            obs_json(&want),
                            obs_json(&final_obs)
                        )
                    },
                    &cj,
                );
            }
        }
        Ok(o) => {
            report(
                sh,
                &format!("C10|history|{u1}|{phase}|update-after-aborted-update-rejected|{}", outcome_name(&Ok(o.clone()))),
                &|| format!("a valid complete update following an aborted one ends with {o:?}"),
                &cj,
            );
        }
        Err(_) => {}
    }
    // readers: every reader opened during U2 sees the base version or the new one
    for (i, sn) in rec2.snaps.iter().enumerate() {
        if *sn != base_obs && *sn != want {
            report(
                sh,
                &format!("C10|history|{u1}|{phase}|reader-during-next-update-sees-leftovers"),
                &|| format!("a reader opened after message {i} of the following update sees {}", obs_json(sn)),
                &cj,
            );
            break;
        }
    }
    if observe_reader(reader_mid.as_ref()) != after_abort || observe_reader(pinned.as_ref()) != old_obs {
        report(sh, &format!("C10|history|{u1}|{phase}|open-reader-changed"), &|| "a reader opened before or between the two updates sees different content afterwards".into(), &cj);
    }
    sample(sh, &format!("H:{u1}:{}:{}", h.abort, h.form), &cj);
}

fn run_history_part(sh: &Shared, b: &Bounds) {
    let mut pairs = vec![];
    for oi in 0..64 {
        for ni in 0..64 {
            let d = dist(kinds_of(oi), kinds_of(ni));
            if d >= 1 && d <= b.hist_dist {
                pairs.push((kinds_of(oi), kinds_of(ni)));
            }
        }
    }
    pairs.par_iter().for_each(|(old_k, new1_k)| run_history_pair(sh, *old_k, *new1_k, b));
}

fn run_history_pair(sh: &Shared, old_k: Kinds, new1_k: Kinds, b: &Bounds) {
    let uni = universe();
    for st in streams_for(old_k, new1_k, b) {
        // (a first step without change adds nothing over the 1-step stream)
        if st.kinds.len() == 3 && (st.kinds[1] == st.kinds[0] || st.kinds[1] == st.kinds[2]) && !b.hist_all_mids {
            continue;
        }
        let n = st.seq.len();
        for cut in 1..n {
            for abort in 0..b.hist_aborts {
                // the version after the abort decides which U2 are enumerated: do it per candidate base
                for new2_k in uni.iter().cloned() {
                    // cheap pre-filter: new2 within one RRset of some version of U1
                    if !st.kinds.iter().any(|k| dist(*k, new2_k) <= 1) {
                        continue;
                    }
                    for form in 0..3u8 {
                        if dry() {
                            lcount("dry:H");
                            continue;
                        }
                        let h = HistCase { old_k, st: &st, cut, abort, new2_k, form };
                        run_history_case(sh, &h, false);
                    }
                }
            }
        }
    }
}

fn replay_history(sh: &Shared, case: &Value, b: &Bounds) {
    let kinds = |v: &Value| -> Kinds {
        let a: Vec<u8> = v.as_array().unwrap().iter().map(|x| x.as_u64().unwrap() as u8).collect();
        [a[0], a[1], a[2]]
    };
    let old_k = kinds(&case["old"]);
    let ks: Vec<Kinds> = case["u1_kinds"].as_array().unwrap().iter().map(|k| kinds(k)).collect();
    let new1_k = *ks.last().unwrap();
    let label = case["u1"].as_str().unwrap();
    // all mids, so that any stored stream is found again
    let wide = Bounds { mid_first: 3, mid_second: 3, ..*b };
    let Some(st) = streams_for(old_k, new1_k, &wide).into_iter().find(|s| s.label == label) else {
        println!("replay: stream {label} not found");
        return;
    };
    let h = HistCase {
        old_k,
        st: &st,
        cut: case["cut"].as_u64().unwrap() as usize,
        abort: case["abort"].as_u64().unwrap() as u8,
        new2_k: kinds(&case["new2"]),
        form: case["form"].as_u64().unwrap() as u8,
    };
    run_history_case(sh, &h, true);
}

// ====================================================================
// Part T: sender behind a reserving outer middleware (real TSIG), with a
// zone big enough to fill a 64 KiB response message
// ====================================================================
//
// Zone: SOA + FILLERS TXT records of identical wire size at f000.z ...; the
// first response message is filled to the byte limit.  The length of the
// SOA RNAME is stepped over more than one filler record size, so that the
// room left in the first message takes every value 0..record size.  Stack:
// TsigMiddlewareSvc -> XfrMiddlewareSvc, request signed by the real
// ClientSequence (or unsigned, as control).

const FILLERS: usize = 320;
const FILL_TXT: usize = 200;

/// `extra` octets of additional labels in front of the RNAME h.z. (0 or >= 2)
fn ext_labels(extra: usize) -> Vec<usize> {
    let mut v = vec![];
    let mut e = extra;
    while e > 0 {
        let mut l = 63.min(e - 1);
        if e - (l + 1) == 1 {
            l -= 1;
        }
        v.push(l);
        e -= l + 1;
    }
    v
}

fn ext_soa_data(serial: u32, extra: usize) -> SData {
    let mut rname = String::new();
    for l in ext_labels(extra) {
        rname.push_str(&"r".repeat(l));
        rname.push('.');
    }
    rname.push_str("h.z.");
    ZoneRecordData::Soa(Soa::new(
        Name::from_str("ns.z.").unwrap(),
        Name::from_str(&rname).unwrap(),
        Serial(serial),
        Ttl::from_secs(7200),
        Ttl::from_secs(900),
        Ttl::from_secs(86400),
        Ttl::from_secs(300),
    ))
}

/// independent encoding of the same SOA
fn ext_soa_crec(serial: u32, extra: usize) -> CRec {
    let mut v = vec![2, b'n', b's', 1, b'z', 0];
    for l in ext_labels(extra) {
        v.push(l as u8);
        v.extend(std::iter::repeat(b'r').take(l));
    }
    v.extend_from_slice(&[1, b'h', 1, b'z', 0]);
    for x in [serial, 7200, 900, 86400, 300] {
        v.extend_from_slice(&x.to_be_bytes());
    }
    CRec { owner: "z".into(), rtype: 6, ttl: TTL, rdata: v }
}

fn filler_crec(i: usize) -> CRec {
    let mut rdata = vec![FILL_TXT as u8];
    rdata.extend(std::iter::repeat(b'x').take(FILL_TXT));
    CRec { owner: format!("f{i:03}.z"), rtype: 16, ttl: TTL, rdata }
}

fn filler_rrset() -> SharedRrset {
    let mut s = Rrset::new(Rtype::TXT, Ttl::from_secs(TTL));
    s.push_data(ZoneRecordData::Txt(Txt::build_from_slice(&[b'x'; FILL_TXT]).unwrap()));
    SharedRrset::new(s)
}

fn ext_soa_rrset(serial: u32, extra: usize) -> SharedRrset {
    let mut s = Rrset::new(Rtype::SOA, Ttl::from_secs(TTL));
    s.push_data(ext_soa_data(serial, extra));
    SharedRrset::new(s)
}

fn big_zone(serial: u32, extra: usize, fillers: usize) -> Zone {
    let mut b = ZoneBuilder::new(name(0), Class::IN);
    b.insert_rrset(&name(0), ext_soa_rrset(serial, extra)).unwrap();
    for i in 0..fillers {
        b.insert_rrset(&Name::<Bytes>::from_str(&format!("f{i:03}.z.")).unwrap(), filler_rrset()).unwrap();
    }
    b.build()
}

fn big_obs(serial: u32, extra: usize, fillers: usize) -> Obs {
    let mut v: Obs = (0..fillers).map(filler_crec).collect();
    v.push(ext_soa_crec(serial, extra));
    v.sort();
    v
}

fn tsig_key() -> Arc<Key> {
    Arc::new(Key::new(Algorithm::Sha256, &[0x5au8; 32], KeyName::from_str("xfr-key").unwrap(), None, None).unwrap())
}

#[derive(Clone, Copy, Debug, PartialEq)]
enum TReq {
    AxfrSigned,
    AxfrUnsigned,
    IxfrDiffSigned,
    IxfrFallbackSigned,
}

struct TOut {
    msgs: Vec<Bytes>,
    errors: Vec<String>,
    tsig_failures: Vec<String>,
    too_long: bool,
}

async fn run_tsig_sender(extra: usize, rq: TReq) -> Result<TOut, String> {
    // sender: version 1 = SOA only, version 2 = SOA + fillers (written with diffing on)
    let zone = big_zone(1, extra, 0);
    let diff = {
        let mut w = zone.write().await;
        let root = w.open(true).await.map_err(|e| format!("open:{e}"))?;
        for i in 0..FILLERS {
            let l = format!("f{i:03}");
            let node = root.update_child(Label::from_slice(l.as_bytes()).unwrap()).await.map_err(|e| format!("update_child:{e}"))?;
            node.update_rrset(filler_rrset()).await.map_err(|e| format!("update_rrset:{e}"))?;
        }
        root.update_rrset(ext_soa_rrset(2, extra)).await.map_err(|e| format!("update_rrset(soa):{e}"))?;
        drop(root);
        w.commit(false).await.map_err(|e| format!("commit:{e}"))?
    };
    let Some(diff) = diff else { return Err("no-diff-from-commit".into()) };
    let key = tsig_key();
    let xfr = XfrMiddlewareSvc::<Vec<u8>, NoSvc, Option<Arc<Key>>, Provider>::new(NoSvc, Provider { zone, diffs: vec![Arc::new(diff)], compat: false }, 1);
    let svc = TsigMiddlewareSvc::<Vec<u8>, _, Arc<Key>, ()>::new(xfr, key.clone());
    let mut q = MessageBuilder::new_vec().question();
    q.header_mut().set_id(0x4343);
    let qtype = if matches!(rq, TReq::AxfrSigned | TReq::AxfrUnsigned) { Rtype::AXFR } else { Rtype::IXFR };
    q.push((name(0), qtype)).unwrap();
    let mut add = match rq {
        TReq::IxfrDiffSigned | TReq::IxfrFallbackSigned => {
            let mut a = q.authority();
            let serial = if rq == TReq::IxfrDiffSigned { 1 } else { 0 };
            a.push((name(0), Class::IN, Ttl::from_secs(TTL), ext_soa_data(serial, extra))).unwrap();
            a.additional()
        }
        _ => q.additional(),
    };
    let mut seq = if rq != TReq::AxfrUnsigned {
        Some(ClientSequence::request(key.clone(), &mut add, Time48::now()).map_err(|e| format!("sign-request:{e}"))?)
    } else {
        None
    };
    let request = Request::new("192.0.2.1:5300".parse().unwrap(), tokio::time::Instant::now(), add.into_message(), NonUdpTransportContext::new(None).into(), ());
    let mut out = TOut { msgs: vec![], errors: vec![], tsig_failures: vec![], too_long: false };
    let fut = async {
        let mut stream = svc.call(request).await;
        while let Some(item) = stream.next().await {
            match item {
                Ok(cr) => {
                    let (resp, _fb) = cr.into_inner();
                    if let Some(r) = resp {
                        let t = r.finish();
                        let octets = t.as_dgram_slice().to_vec();
                        if octets.len() > u16::MAX as usize {
                            out.too_long = true;
                        }
                        if let Some(seq) = seq.as_mut() {
                            // (verification strips the TSIG record from its copy)
                            match Message::from_octets(octets.clone()) {
                                Ok(mut m) => {
                                    if let Err(e) = seq.answer(&mut m, Time48::now()) {
                                        out.tsig_failures.push(format!("response {}: {e}", out.msgs.len()));
                                    }
                                }
                                Err(_) => out.tsig_failures.push(format!("response {}: short", out.msgs.len())),
                            }
                        }
                        out.msgs.push(Bytes::from(octets));
                    }
                }
                Err(e) => out.errors.push(format!("{e}")),
            }
        }
    };
    if tokio::time::timeout(std::time::Duration::from_secs(30), fut).await.is_err() {
        return Err("response-stream-never-ends".into());
    }
    Ok(out)
}

fn run_tsig_case(sh: &Shared, extra: usize, rq: TReq, verbose: bool) {
    let r = guard(|| RT.with(|rt| rt.block_on(run_tsig_sender(extra, rq))));
    sh.stats.eval();
    LOCAL.with(|l| {
        let mut l = l.borrow_mut();
        l.runs += 1;
        l.transitions += 2;
    });
    sh.stats.distinct(fnv(format!("T:{extra}:{rq:?}").as_bytes()));
    let rname = format!("{rq:?}");
    let cj = || json!({"part": "T", "extra": extra, "request": rname});
    let out = match r {
        Err(p) => {
            report(sh, &format!("C10|panic|sender-tsig|{}", panic_class(&p)), &|| format!("TSIG + XFR middleware stack panicked: {p}"), &cj);
            return;
        }
        Ok(Err(e)) => {
            report(sh, &format!("C10|sender-tsig|{rname}|{}", err_class(e.clone())), &|| format!("sender run failed: {e}"), &cj);
            return;
        }
        Ok(Ok(o)) => o,
    };
    // the requester: SOA-only version 1 (IXFR with a known serial) or the same for a full transfer
    let client_obs = big_obs(1, extra, 0);
    let want = big_obs(2, extra, FILLERS);
    let refo = reference(&out.msgs, &client_obs);
    // what travelled: every non-SOA answer record, as a multiset
    let mut travelled: Vec<CRec> = vec![];
    let mut sizes = vec![];
    let mut flags = vec![];
    for m in &out.msgs {
        sizes.push(m.len());
        if let Ok(raw) = wire::read_message(m) {
            flags.push(format!("{:#06x}/an={}", raw.flags, raw.counts[1]));
            for rr in &raw.sections[0] {
                if let Ok(c) = crec_from_raw(m, rr) {
                    if c.rtype != 6 {
                        travelled.push(c);
                    }
                }
            }
        }
    }
    travelled.sort();
    let want_records: Vec<CRec> = want.iter().filter(|c| c.rtype != 6).cloned().collect();
    let full = sizes.iter().filter(|s| **s > 60000).count();
    lcount(&format!("T:{rname}:messages={}:filled-to-the-limit={}:ref={:?}({})", out.msgs.len(), full, refo.verdict, refo.reason));
    if verbose {
        println!("tsig sender case: extra={extra} request={rname}");
        println!("  message sizes {sizes:?} flags {flags:?}");
        println!("  errors {:?} tsig failures {:?}", out.errors, out.tsig_failures);
        println!("  reference {:?}/{} records travelled {} wanted {}", refo.verdict, refo.reason, travelled.len(), want_records.len());
    }
    if full == 0 {
        // The residual-room sweep of this part presupposes a sender that fills messages up to the
        // 65535-octet limit. How full a sender packs its messages is its own choice ("any legal
        // packaging"), so a sender that closes messages earlier makes this part vacuous, which is
        // recorded in the evidence counters - it is not a violation of the property.
        lcount("T:VACUOUS:no-message-filled-to-the-limit(sender packs smaller messages; residual-room sweep did not apply)");
    }
    if !out.errors.is_empty() {
        report(sh, &format!("C10|sender-tsig|{rname}|service-error"), &|| format!("response stream carries errors {:?}", out.errors), &cj);
        return;
    }
    if out.too_long {
        report(sh, &format!("C10|sender-tsig|{rname}|response-longer-than-65535"), &|| format!("sizes {sizes:?}"), &cj);
    }
    if !out.tsig_failures.is_empty() {
        report(
            sh,
            &format!("C10|sender-tsig|{rname}|response-fails-tsig-verification"),
            &|| format!("{:?}; message sizes {sizes:?} flags {flags:?}", out.tsig_failures),
            &cj,
        );
    }
    if refo.verdict != V::Valid || refo.final_zone.as_ref() != Some(&want) || travelled != want_records {
        report(
            sh,
            &format!("C10|sender-tsig|{rname}|emitted-stream-is-not-a-valid-transfer-of-the-zone|{:?}({})", refo.verdict, refo.reason),
            &|| {
                format!(
                    "transfer of a zone that fills a response message to the limit: reference reads {:?}/{}; {} of {} records travelled; message sizes {sizes:?} flags {flags:?}",
                    refo.verdict,
                    refo.reason,
                    travelled.len(),
                    want_records.len()
                )
            },
            &cj,
        );
        return;
    }
    // and the real receiver ends up with the sender's zone
    let mk = move || big_zone(1, extra, 0);
    let empty = BTreeSet::new();
    let c = Case {
        part: "S",
        label: format!("sender-tsig:{rname}/extra={extra}"),
        old_kinds: [0, 0, 0],
        old_serial: 1,
        old: &empty,
        honest_new: Some(want.clone()),
        honest_versions: vec![client_obs.clone(), want],
        fault: None,
        msgs: out.msgs.clone(),
        custom_old: Some((client_obs, &mk)),
        replay_as: Some(cj()),
        via_client: None,
    };
    judge(sh, &c, verbose);
}

fn treq_all() -> [TReq; 4] {
    [TReq::AxfrSigned, TReq::AxfrUnsigned, TReq::IxfrDiffSigned, TReq::IxfrFallbackSigned]
}

fn run_tsig_part(sh: &Shared, b: &Bounds) {
    // 0 and 2..=b.tsig_extra_max: every room 0..filler size left in the first message
    let extras: Vec<usize> = std::iter::once(0).chain(2..=b.tsig_extra_max).collect();
    let mut cases = vec![];
    for e in extras {
        for rq in treq_all() {
            cases.push((e, rq));
        }
    }
    cases.par_iter().for_each(|(e, rq)| run_tsig_case(sh, *e, *rq, false));
}

fn replay_tsig(sh: &Shared, case: &Value) {
    let extra = case["extra"].as_u64().unwrap() as usize;
    let rq = treq_all().into_iter().find(|r| format!("{r:?}") == case["request"].as_str().unwrap()).unwrap();
    run_tsig_case(sh, extra, rq, true);
}

// ====================================================================
// Part E: where the old zone comes from x the shape of its name tree
// ====================================================================
//
// Parts R..L hold the receiving / edited zone in a tree made by ZoneBuilder,
// and their names sit at most one level below a name without records.  Here
// the old content reaches the zone through every route the library offers
// (ZoneBuilder; a first AXFR into an empty zone through interpreter +
// ZoneUpdater; write-interface additions; a richer zone from which names were
// emptied by write-interface removals, by an IXFR through the updater, or by
// an AXFR through the updater), over a name tree z > a > b and z > c > e > d
// in which every name holds records or not - names below an empty
// non-terminal, below a name emptied in an earlier version, two levels below
// - and is then replaced by every other content of the universe through every
// replacement route (AXFR and IXFR through the updater; write interface:
// incremental edits, remove_all at the apex / at the two subtrees / at an
// inner name followed by re-adding).  Oracles: the zone holds the model
// content after the history and after the replacement; a diff is returned
// with the right serials; the diff applied BY THE MODEL to the old content
// gives the new content; an IXFR served from that diff by the real
// XfrMiddlewareSvc is read by the reference as a valid transfer of the new
// content, and the real receiver (its zone produced by the same history)
// ends up with it.

/// kinds (see `kind_rds`) of a.z, b.a.z, c.z, e.c.z, d.e.c.z
type EK = [u8; 5];
const E_OWNERS: [u8; 5] = [1, 2, 3, 7, 6];

fn ek_recs(k: EK) -> BTreeSet<MRec> {
    let mut s = BTreeSet::new();
    for (i, kind) in k.iter().enumerate() {
        for rd in kind_rds(*kind) {
            s.insert(MRec { owner: E_OWNERS[i], rd, ttl: *kind >> 3 });
        }
    }
    s
}

/// every name holds nothing or A{1}; `wide`: the two leaves b.a.z and d.e.c.z also A{1,2} or TXT
fn ek_universe(wide: bool) -> Vec<EK> {
    let leaf: &[u8] = if wide { &[0, 1, 2, 3] } else { &[0, 1] };
    let mut v = vec![];
    for a in [0u8, 1] {
        for b in leaf {
            for c in [0u8, 1] {
                for e in [0u8, 1] {
                    for d in leaf {
                        v.push([a, *b, c, e, *d]);
                    }
                }
            }
        }
    }
    v
}

fn ek_dist(a: EK, b: EK) -> usize {
    (0..5).filter(|i| a[*i] != b[*i]).count()
}

/// How a zone gets from one version to the next.
#[derive(Clone, Copy, PartialEq, Eq, Debug)]
enum Step {
    /// an AXFR in one message through the real interpreter + ZoneUpdater
    /// (DeleteAllRecords, AddRecord.., Finished)
    UpdaterAxfr,
    /// a one-sequence IXFR in one message through interpreter + updater
    UpdaterIxfr,
    /// write interface: one update_rrset / remove_rrset per changed RRset
    WriteIncremental,
    /// write interface: remove_all at the apex, every RRset of the new version written
    WriteRemoveAllApex,
    /// write interface: remove_all at a.z and at c.z, the RRsets at and below them written again
    WriteRemoveAllSubtrees,
    /// write interface: remove_all at e.c.z, the RRsets at and below it written again, the rest edited incrementally
    WriteRemoveAllInner,
}

const E_ROUTES: [(Step, &str); 6] = [
    (Step::UpdaterAxfr, "axfr-through-updater"),
    (Step::WriteRemoveAllApex, "write-interface-remove_all-at-apex+re-add"),
    (Step::WriteRemoveAllSubtrees, "write-interface-remove_all-at-subtrees+re-add"),
    (Step::WriteRemoveAllInner, "write-interface-remove_all-at-inner-name+re-add"),
    (Step::UpdaterIxfr, "ixfr-through-updater"),
    (Step::WriteIncremental, "write-interface-incremental"),
];

const E_ORIGINS: [&str; 6] = [
    "ZoneBuilder",
    "axfr-into-empty-zone",
    "write-interface-additions",
    "richer-zone-emptied-by-write-interface-removals",
    "richer-zone-emptied-by-ixfr",
    "richer-zone-replaced-by-axfr",
];

/// One step on the real zone; returns the diff the step reported.
async fn do_step(zone: &Zone, step: Step, from_serial: u32, from: &BTreeSet<MRec>, to_serial: u32, to: &BTreeSet<MRec>) -> Result<Option<InMemoryZoneDiff>, String> {
    match step {
        Step::UpdaterAxfr | Step::UpdaterIxfr => {
            let (qtype, seq) = if step == Step::UpdaterAxfr { (252u16, axfr_seq(to_serial, to)) } else { (251u16, ixfr_seq(&[(from_serial, from.clone()), (to_serial, to.clone())], 0)) };
            let msgs = vec![build_msg(&MsgSpec::plain(qtype, true, &seq))];
            let mut rec = RealRec::default();
            match run_pipeline(zone, &msgs, &mut rec).await {
                Outcome::Finished => Ok(rec.raw_diffs.pop()),
                o => Err(format!("transfer-through-updater-not-finished:{}", outcome_name(&Ok(o)))),
            }
        }
        _ => {
            let mut w = zone.write().await;
            let root = w.open(true).await.map_err(|e| format!("open:{e}"))?;
            // the names whose records a remove_all takes away
            let wiped: &[u8] = match step {
                Step::WriteRemoveAllApex => {
                    root.remove_all().await.map_err(|e| format!("remove_all:{e}"))?;
                    &[1, 2, 3, 6, 7]
                }
                Step::WriteRemoveAllSubtrees => {
                    for n in [1u8, 3] {
                        node_for(&root, n).await.map_err(|e| format!("update_child:{e}"))?.remove_all().await.map_err(|e| format!("remove_all:{e}"))?;
                    }
                    &[1, 2, 3, 6, 7]
                }
                Step::WriteRemoveAllInner => {
                    node_for(&root, 7).await.map_err(|e| format!("update_child:{e}"))?.remove_all().await.map_err(|e| format!("remove_all:{e}"))?;
                    &[6, 7]
                }
                _ => &[],
            };
            let (rf, rt) = (rrsets_of(from), rrsets_of(to));
            let keys: BTreeSet<(u8, u16)> = rf.keys().chain(rt.keys()).cloned().collect();
            for k in keys {
                if !wiped.contains(&k.0) && rf.get(&k) == rt.get(&k) {
                    continue;
                }
                match rt.get(&k) {
                    Some((ttl, set)) => {
                        let node = node_for(&root, k.0).await.map_err(|e| format!("update_child:{e}"))?;
                        let rds: Vec<RD> = set.iter().cloned().collect();
                        node.update_rrset(shared_rrset(&rds, *ttl)).await.map_err(|e| format!("update_rrset:{e}"))?
                    }
                    None if wiped.contains(&k.0) => {}
                    None => {
                        let node = node_for(&root, k.0).await.map_err(|e| format!("update_child:{e}"))?;
                        node.remove_rrset(Rtype::from_int(k.1)).await.map_err(|e| format!("remove_rrset:{e}"))?
                    }
                }
            }
            root.update_rrset(soa_rrset(to_serial)).await.map_err(|e| format!("update_rrset(soa):{e}"))?;
            drop(root);
            w.commit(false).await.map_err(|e| format!("commit:{e}"))
        }
    }
}

/// every name of part E holding A{1}, plus what `old` holds
fn ek_richer(old: &BTreeSet<MRec>) -> BTreeSet<MRec> {
    let mut s = ek_recs([1; 5]);
    s.extend(old.iter().cloned());
    s
}

/// The versions a zone of the given origin goes through before it holds `old`:
/// (start zone, [(step, serial, content)]); the last entry is `old`.
fn origin_history(origin: u8, old: &BTreeSet<MRec>) -> (Option<BTreeSet<MRec>>, Vec<(Step, u32, BTreeSet<MRec>)>) {
    let rich = ek_richer(old);
    match origin {
        0 => (Some(old.clone()), vec![]),
        1 => (None, vec![(Step::UpdaterAxfr, 1, old.clone())]),
        2 => (Some(BTreeSet::new()), vec![(Step::WriteIncremental, 2, old.clone())]),
        3 => (Some(rich), vec![(Step::WriteIncremental, 2, old.clone())]),
        4 => (None, vec![(Step::UpdaterAxfr, 1, rich), (Step::UpdaterIxfr, 2, old.clone())]),
        _ => (None, vec![(Step::UpdaterAxfr, 1, rich), (Step::UpdaterAxfr, 2, old.clone())]),
    }
}

/// what went wrong while a zone was taken through its history
struct HistoryFault {
    /// index of the step
    at: usize,
    what: String,
    diff: Option<(Obs, DiffObs, Obs)>,
}

/// Build a zone of the given origin holding `old`; returns it with the
/// logical serial it is at.  Every diff reported on the way is checked.
async fn build_origin(origin: u8, old: &BTreeSet<MRec>) -> Result<(Zone, u32), HistoryFault> {
    let (start, steps) = origin_history(origin, old);
    let zone = match &start {
        Some(recs) => build_zone(1, recs),
        None => ZoneBuilder::new(name(0), Class::IN).build(),
    };
    let mut cur: Option<(u32, BTreeSet<MRec>)> = start.map(|s| (1, s));
    for (i, (step, serial, to)) in steps.iter().enumerate() {
        let empty = BTreeSet::new();
        let (fs, from) = cur.as_ref().map(|(s, r)| (*s, r)).unwrap_or((0, &empty));
        let d = do_step(&zone, *step, fs, from, *serial, to).await.map_err(|e| HistoryFault { at: i, what: e, diff: None })?;
        let want = model_obs(*serial, to);
        if observe(&zone) != want {
            return Err(HistoryFault { at: i, what: "content-after-step!=model".into(), diff: None });
        }
        if let Some((fs, from)) = &cur {
            let before = model_obs(*fs, from);
            match d {
                None => return Err(HistoryFault { at: i, what: "no-diff-returned".into(), diff: None }),
                Some(d) => {
                    let dobs = diff_obs(&d);
                    if diff_mismatch(&before, &dobs, &want).is_some() {
                        return Err(HistoryFault { at: i, what: "diff-wrong".into(), diff: Some((before, dobs, want)) });
                    }
                }
            }
        }
        cur = Some((*serial, to.clone()));
    }
    Ok((zone, cur.map(|c| c.0).unwrap_or(1)))
}

/// Where the first record on which diff(old) and new disagree sits in the
/// name tree of the OLD content (a structural class, from the model only).
fn tree_position(before: &Obs, d: &DiffObs, after: &Obs) -> String {
    let got = apply_diff(before, d);
    let want: BTreeSet<CRec> = after.iter().cloned().collect();
    let Some(bad) = got.symmetric_difference(&want).next().cloned() else { return "none".into() };
    if bad.rtype == 6 {
        return "soa".into();
    }
    let holds = |n: &str| before.iter().any(|c| c.owner == n);
    let labels: Vec<&str> = bad.owner.split('.').collect();
    // the names strictly between the owner and the apex
    let mut empty_above = 0;
    let mut above = 0;
    for i in 1..labels.len().saturating_sub(1) {
        above += 1;
        if !holds(&labels[i..].join(".")) {
            empty_above += 1;
        }
    }
    match (above, empty_above) {
        (0, _) => "name-directly-below-the-apex".into(),
        (_, 0) => "name-below-names-that-hold-records".into(),
        (a, e) if a == e && a >= 2 => "name-two-or-more-levels-below-names-without-records".into(),
        (_, e) if e >= 1 && above > e => "name-below-a-name-without-records-and-a-name-with-records".into(),
        _ => "name-below-a-name-without-records".into(),
    }
}

fn ek_json(origin: u8, old: EK, route: usize, new: EK) -> Value {
    json!({"part": "E", "origin": origin, "origin_name": E_ORIGINS[origin as usize], "old": old, "route": route, "route_name": E_ROUTES[route].1, "new": new, "names": ["a.z", "b.a.z", "c.z", "e.c.z", "d.e.c.z"]})
}

fn run_ent_case(sh: &Shared, origin: u8, old_k: EK, route: usize, new_k: EK, verbose: bool) {
    let (old, new) = (ek_recs(old_k), ek_recs(new_k));
    let (step, rname) = E_ROUTES[route];
    let oname = E_ORIGINS[origin as usize];
    let oclass = if origin == 0 { "old-zone-built-by-ZoneBuilder" } else { "old-zone-populated-through-updater-or-write-interface" };
    let cj = || ek_json(origin, old_k, route, new_k);
    sh.stats.eval();
    sh.stats.distinct(fnv(format!("E:{origin}:{old_k:?}:{route}:{new_k:?}").as_bytes()));
    lcount(&format!("E:origin={oname}:route={rname}"));
    // ---- the history and the replacement on the real zone
    struct Out {
        os: u32,
        after_history: Obs,
        diff: Option<InMemoryZoneDiff>,
        after: Obs,
        served: Option<Result<SOut, String>>,
    }
    let r = guard(|| {
        RT.with(|rt| {
            rt.block_on(async {
                let (zone, os) = match build_origin(origin, &old).await {
                    Ok(x) => x,
                    Err(f) => return Err(f),
                };
                let after_history = observe(&zone);
                let diff = match do_step(&zone, step, os, &old, os + 1, &new).await {
                    Ok(d) => d,
                    Err(e) => return Err(HistoryFault { at: usize::MAX, what: e, diff: None }),
                };
                let after = observe(&zone);
                // an IXFR from the old serial, served from the diff the replacement reported
                let served = match &diff {
                    Some(d) => {
                        let rq = SReq { qtype: 251, serial: Some(os), udp: false, limit: u16::MAX, compat: false, via_client: false, provider: 0, foreign: false };
                        let p = Provider { zone: zone.clone(), diffs: vec![Arc::new(d.clone())], compat: false };
                        Some(drive_sender(XfrMiddlewareSvc::<Vec<u8>, NoSvc, (), Provider>::new(NoSvc, p, 1), &rq).await)
                    }
                    None => None,
                };
                Ok(Out { os, after_history, diff, after, served })
            })
        })
    });
    LOCAL.with(|l| {
        let mut l = l.borrow_mut();
        l.runs += 1;
        l.transitions += 2;
    });
    let out = match r {
        Err(p) => {
            report(sh, &format!("C10|panic|zone-history|{}", panic_class(&p)), &|| format!("panic ({p}) while a zone of origin {oname} was replaced through {rname}"), &cj);
            return;
        }
        Ok(Err(f)) => {
            let which = if f.at == usize::MAX { format!("replacement:{rname}") } else { format!("history:{oname}:step{}", f.at) };
            lcount(&format!("E:fault:{which}:{}", err_class(f.what.clone())));
            let pos = f.diff.as_ref().map(|(b, d, a)| format!("|{}|{}", diff_mismatch(b, d, a).unwrap_or_default(), tree_position(b, d, a))).unwrap_or_default();
            report(
                sh,
                &format!("C10|zone-history|{which}|{}{pos}", err_class(f.what.clone())),
                &|| match &f.diff {
                    Some((b, d, a)) => format!("{}: removed {} added {}; before {} after {}", f.what, obs_json(&d.removed), obs_json(&d.added), obs_json(b), obs_json(a)),
                    None => f.what.clone(),
                },
                &cj,
            );
            return;
        }
        Ok(Ok(o)) => o,
    };
    let os = out.os;
    let old_obs = model_obs(os, &old);
    let new_obs = model_obs(os + 1, &new);
    LOCAL.with(|l| {
        let mut l = l.borrow_mut();
        l.states.insert(obs_hash(&out.after));
    });
    if verbose {
        println!("zone-history case: {}", cj());
        println!("  old (model)   {}", obs_json(&old_obs));
        println!("  after history {}", obs_json(&out.after_history));
        println!("  new (model)   {}", obs_json(&new_obs));
        println!("  after         {}", obs_json(&out.after));
        if let Some(d) = &out.diff {
            let d = diff_obs(d);
            println!("  diff {}->{} removed {} added {}", d.start, d.end, obs_json(&d.removed), obs_json(&d.added));
        }
    }
    if out.after_history != old_obs {
        report(sh, &format!("C10|zone-history|history:{oname}|content-after-history!=model"), &|| format!("the zone holds {} instead of {}", obs_json(&out.after_history), obs_json(&old_obs)), &cj);
        return;
    }
    if out.after != new_obs {
        report(
            sh,
            &format!("C10|zone-history|replacement:{rname}|{oclass}|content-after-replacement!=model"),
            &|| format!("after the replacement the zone holds {} instead of {}", obs_json(&out.after), obs_json(&new_obs)),
            &cj,
        );
        return;
    }
    let Some(d) = &out.diff else {
        report(sh, &format!("C10|diff|{rname}|{oclass}|no-diff-returned"), &|| "a replacement of a zone that has a SOA by a version with a newer serial returned no diff".into(), &cj);
        return;
    };
    if let Some(why) = diff_trait_view_differs(d) {
        report(sh, &format!("C10|diff|{rname}|diff-trait-view-differs-from-fields:{why}"), &|| "ZoneDiff trait view and fields disagree".into(), &cj);
    }
    let dobs = diff_obs(d);
    if (dobs.start, dobs.end) != (actual(os), actual(os + 1)) {
        report(sh, &format!("C10|diff|{rname}|serials"), &|| format!("diff serials {}->{} instead of {}->{}", dobs.start, dobs.end, actual(os), actual(os + 1)), &cj);
    }
    match diff_mismatch(&old_obs, &dobs, &new_obs) {
        None => lcount("E:diff-correct"),
        Some(k) => {
            let pos = tree_position(&old_obs, &dobs, &new_obs);
            lcount(&format!("E:diff-wrong:{rname}:{k}:{pos}"));
            report(
                sh,
                &format!("C10|diff|{rname}|{oclass}|{k}|{pos}"),
                &|| {
                    format!(
                        "old zone from {oname}, replaced through {rname}: the diff returned, applied to the old content, does not give the new content ({k}; {pos}): removed {} added {}; old {} new {}",
                        obs_json(&dobs.removed),
                        obs_json(&dobs.added),
                        obs_json(&old_obs),
                        obs_json(&new_obs)
                    )
                },
                &cj,
            );
        }
    }
    // ---- the IXFR served from the diff
    let served = match out.served {
        Some(Ok(s)) => s,
        Some(Err(e)) => {
            report(sh, &format!("C10|sender|ixfr-served-from-the-reported-diff|{}", err_class(e.clone())), &|| format!("sender run failed: {e}"), &cj);
            return;
        }
        None => return,
    };
    if !served.errors.is_empty() {
        report(sh, "C10|sender|ixfr-served-from-the-reported-diff|service-error", &|| format!("response stream carries errors {:?}", served.errors), &cj);
        return;
    }
    let refo = reference(&served.msgs, &old_obs);
    if refo.verdict != V::Valid || refo.final_zone.as_ref() != Some(&new_obs) {
        let cause = match &refo.final_zone {
            Some(f) => {
                let (g, w): (BTreeSet<_>, BTreeSet<_>) = (f.iter().collect(), new_obs.iter().collect());
                format!("{}{}", if g.difference(&w).next().is_some() { "stale-records-left" } else { "" }, if w.difference(&g).next().is_some() { "+records-missing" } else { "" })
            }
            None => format!("{:?}({})", refo.verdict, refo.reason),
        };
        lcount(&format!("E:ixfr-from-diff-wrong:{rname}:{cause}"));
        report(
            sh,
            &format!("C10|sender|ixfr-served-from-the-reported-diff|{rname}|{oclass}|{cause}"),
            &|| {
                format!(
                    "old zone from {oname}, replaced through {rname}: the IXFR the real sender serves from the reported diff is read as {:?}/{} and leads from {} to {} instead of {}",
                    refo.verdict,
                    refo.reason,
                    obs_json(&old_obs),
                    refo.final_zone.as_ref().map(obs_json).unwrap_or(Value::Null),
                    obs_json(&new_obs)
                )
            },
            &cj,
        );
        return;
    }
    lcount("E:ixfr-from-diff-correct");
    // the real receiver, its zone produced by the same history
    let old2 = old.clone();
    let mk = move || RT.with(|rt| rt.block_on(build_origin(origin, &old2))).map(|x| x.0).unwrap_or_else(|_| build_zone(os, &old2));
    let c = Case {
        part: "S",
        label: format!("ixfr-served-from-the-reported-diff/origin={oname}/route={rname}"),
        old_kinds: [0, 0, 0],
        old_serial: os,
        old: &old,
        honest_new: Some(new_obs.clone()),
        honest_versions: vec![old_obs.clone(), new_obs],
        fault: None,
        msgs: served.msgs.clone(),
        custom_old: Some((old_obs, &mk)),
        replay_as: Some(cj()),
        via_client: None,
    };
    judge(sh, &c, verbose);
    sample(sh, &format!("E:{origin}:{route}"), &cj);
}

fn run_ent_part(sh: &Shared, quick: bool) {
    let uni = ek_universe(!quick);
    let mut work = vec![];
    for origin in 0..E_ORIGINS.len() as u8 {
        for o in &uni {
            for route in 0..E_ROUTES.len() {
                work.push((origin, *o, route));
            }
        }
    }
    lcount(&format!("E:contents={}:origins={}:routes={}", uni.len(), E_ORIGINS.len(), E_ROUTES.len()));
    work.par_iter().for_each(|(origin, o, route)| {
        for n in &uni {
            // thorough: every other content of the wide universe at most 3 names away, plus the empty and the full one
            if !quick && ek_dist(*o, *n) > 3 && *n != [0; 5] && *n != [1; 5] {
                continue;
            }
            run_ent_case(sh, *origin, *o, *route, *n, false);
        }
    });
}

fn replay_ent(sh: &Shared, case: &Value) {
    let ek = |v: &Value| -> EK {
        let a: Vec<u8> = v.as_array().unwrap().iter().map(|x| x.as_u64().unwrap() as u8).collect();
        [a[0], a[1], a[2], a[3], a[4]]
    };
    run_ent_case(sh, case["origin"].as_u64().unwrap() as u8, ek(&case["old"]), case["route"].as_u64().unwrap() as usize, ek(&case["new"]), true);
}

// ====================================================================
// Part I: a writer commits new versions while a transfer is served
// ====================================================================
//
// The sender's zone is at version 2 (edited from version 1 with the write
// interface, diff kept) when the request arrives.  The response stream is
// consumed item by item on the current-thread runtime; the environment event
// "the writer commits the next version (3, then 4) with the write interface"
// is inserted at every position of that consumption: after the service call
// returned the stream and before its first poll, and after every k items
// taken from it - each after 0, 1 or 2 extra turns of the runtime, which let
// the tasks the service spawned advance without the consumer polling.
// Oracle: the emitted messages are, for the independent reference, a valid
// transfer (opening SOA, content, closing SOA) of ONE version of the zone
// that was current at some moment between the arrival of the request and the
// end of the stream: version 2, or a version committed before the stream
// ended - compared with the per-version content models; the real receiver
// holding the requester's version ends up with that version.  Which thread
// gets how far when does not enter the verdict.

#[derive(Clone)]
struct LiveProvider {
    zone: Zone,
    /// every diff committed so far; the writer appends
    diffs: Arc<Mutex<Vec<Arc<InMemoryZoneDiff>>>>,
    compat: bool,
}

impl<M> XfrDataProvider<M> for LiveProvider {
    type Diff = Arc<InMemoryZoneDiff>;
    fn request<Octs>(
        &self,
        _req: &Request<Octs, M>,
        diff_from: Option<Serial>,
    ) -> Pin<Box<dyn Future<Output = Result<XfrData<Self::Diff>, XfrDataProviderError>> + Sync + Send + '_>>
    where
        Octs: octseq::Octets + Send + Sync,
    {
        let all = self.diffs.lock().unwrap().clone();
        let diffs = match diff_from {
            Some(s) => all.iter().position(|d| d.start_serial == s).map(|p| all[p..].to_vec()).unwrap_or_default(),
            None => vec![],
        };
        Box::pin(std::future::ready(Ok(XfrData::new(self.zone.clone(), diffs, self.compat))))
    }
}

/// The writer commits the next version after `at` items were taken from the
/// response stream and `yields` further turns of the runtime.
#[derive(Clone, Copy, Debug, PartialEq, Eq, PartialOrd, Ord)]
struct Ev {
    at: usize,
    yields: u8,
}

struct IOut {
    msgs: Vec<Bytes>,
    errors: Vec<String>,
    /// logical serial of every version committed before the stream ended, and
    /// how many response messages had been received by then
    committed: Vec<(u32, usize)>,
    items: usize,
}

async fn drive_interleaved<S>(svc: S, rq: &SReq, zone: &Zone, chain: &[(u32, BTreeSet<MRec>)], evs: &[Ev], sink: &Arc<Mutex<Vec<Arc<InMemoryZoneDiff>>>>) -> Result<IOut, String>
where
    S: Service<Vec<u8>, (), Target = Vec<u8>>,
{
    let mut q = MessageBuilder::new_vec().question();
    q.header_mut().set_id(0x4949);
    q.push((name(0), Rtype::from_int(rq.qtype))).unwrap();
    let msg = if let Some(s) = rq.serial {
        let mut a = q.authority();
        a.push((name(0), Class::IN, Ttl::from_secs(TTL), data(RD::Soa(s)))).unwrap();
        a.into_message()
    } else {
        q.into_message()
    };
    let mut out = IOut { msgs: vec![], errors: vec![], committed: vec![], items: 0 };
    let mut stream = svc.call(mk_request(msg, rq)).await;
    let mut next_ev = 0;
    loop {
        while next_ev < evs.len() && evs[next_ev].at == out.items {
            for _ in 0..evs[next_ev].yields {
                tokio::task::yield_now().await;
            }
            let (from, to) = (&chain[1 + next_ev], &chain[2 + next_ev]);
            match edit_to(zone, &from.1, &to.1, to.0).await? {
                Some(d) => sink.lock().unwrap().push(Arc::new(d)),
                None => return Err("no-diff-from-commit".into()),
            }
            out.committed.push((to.0, out.msgs.len()));
            next_ev += 1;
        }
        let item = match tokio::time::timeout(std::time::Duration::from_secs(10), stream.next()).await {
            Err(_) => return Err("response-stream-never-ends".into()),
            Ok(None) => break,
            Ok(Some(i)) => i,
        };
        out.items += 1;
        match item {
            Ok(cr) => {
                let (resp, _fb) = cr.into_inner();
                if let Some(r) = resp {
                    out.msgs.push(Bytes::copy_from_slice(r.finish().as_dgram_slice()));
                }
            }
            Err(e) => out.errors.push(format!("{e}")),
        }
    }
    Ok(out)
}

async fn run_interleaved(chain: &[(u32, BTreeSet<MRec>)], rq: &SReq, evs: &[Ev]) -> Result<IOut, String> {
    let zone = build_zone(chain[0].0, &chain[0].1);
    let sink: Arc<Mutex<Vec<Arc<InMemoryZoneDiff>>>> = Default::default();
    match edit_to(&zone, &chain[0].1, &chain[1].1, chain[1].0).await? {
        Some(d) => sink.lock().unwrap().push(Arc::new(d)),
        None => return Err("no-diff-from-commit".into()),
    }
    match rq.provider {
        0 => drive_interleaved(XfrMiddlewareSvc::<Vec<u8>, NoSvc, (), LiveProvider>::new(NoSvc, LiveProvider { zone: zone.clone(), diffs: sink.clone(), compat: rq.compat }, 1), rq, &zone, chain, evs, &sink).await,
        _ => drive_interleaved(XfrMiddlewareSvc::<Vec<u8>, NoSvc, (), Zone>::new(NoSvc, zone.clone(), 1), rq, &zone, chain, evs, &sink).await,
    }
}

fn evs_json(evs: &[Ev]) -> Value {
    json!(evs.iter().map(|e| json!({"at": e.at, "yields": e.yields})).collect::<Vec<_>>())
}

fn run_interleave_case(sh: &Shared, ks: &[Kinds], rq: &SReq, evs: &[Ev], verbose: bool) {
    let chain: Vec<(u32, BTreeSet<MRec>)> = ks.iter().enumerate().map(|(i, k)| (i as u32 + 1, zone_recs(*k))).collect();
    let all_obs: Vec<Obs> = chain.iter().map(|(s, r)| model_obs(*s, r)).collect();
    let r = guard(|| RT.with(|rt| rt.block_on(run_interleaved(&chain, rq, evs))));
    sh.stats.eval();
    LOCAL.with(|l| {
        let mut l = l.borrow_mut();
        l.runs += 1;
        l.transitions += 1 + evs.len() as u64;
    });
    sh.stats.distinct(fnv(format!("I:{ks:?}:{rq:?}:{evs:?}").as_bytes()));
    let cj = || json!({"part": "I", "zones": ks, "request": sreq_json(rq), "events": evs_json(evs)});
    let rname = format!(
        "{}/{}{}{}",
        if rq.qtype == 252 {
            "axfr"
        } else if rq.serial == Some(1) && rq.provider == 0 {
            "ixfr-with-diffs"
        } else {
            "ixfr-answered-axfr-style"
        },
        if rq.udp { "udp" } else { "tcp" },
        if rq.compat { "/compat" } else { "" },
        ["", "/provider=Zone"][rq.provider.min(1) as usize],
    );
    let out = match r {
        Err(p) => {
            report(sh, &format!("C10|panic|sender|writer-commits-during-the-transfer|{}", panic_class(&p)), &|| format!("XfrMiddlewareSvc panicked: {p}; request {rq:?} events {evs:?}"), &cj);
            return;
        }
        Ok(Err(e)) => {
            report(sh, &format!("C10|sender|{rname}|writer-commits-during-the-transfer|{}", err_class(e.clone())), &|| format!("sender run failed: {e}; request {rq:?} events {evs:?}"), &cj);
            return;
        }
        Ok(Ok(o)) => o,
    };
    // when the first commit landed, as seen by the consumer of the stream
    let when = match (evs.first(), out.committed.first()) {
        (_, None) => "no-commit-before-the-end-of-the-stream",
        (Some(e), _) if e.at == 0 && e.yields == 0 => "commit-before-the-response-stream-was-first-polled",
        (_, Some((_, 0))) => "commit-before-the-first-response",
        _ => "commit-between-responses",
    };
    lcount(&format!("I:{rname}:{when}:commits={}", out.committed.len()));
    if verbose {
        println!("interleaving case: zones={ks:?} request={rq:?} events={evs:?}");
        println!("  items {} messages {} errors {:?} committed (serial, messages received before) {:?}", out.items, out.msgs.len(), out.errors, out.committed);
    }
    if !out.errors.is_empty() {
        report(sh, &format!("C10|sender|{rname}|writer-commits-during-the-transfer|service-error"), &|| format!("response stream carries errors {:?}", out.errors), &cj);
        return;
    }
    let client_obs = &all_obs[0];
    let refo = reference(&out.msgs, client_obs);
    if verbose {
        println!("  reference: {:?} reason={} xfr={} final {}", refo.verdict, refo.reason, refo.xfr, refo.final_zone.as_ref().map(obs_json).unwrap_or(Value::Null));
    }
    // (see run_sender_case) room below 512 octets may be declined by one clean error response
    if rq.limit < 512 && refo.verdict == V::Invalid && out.msgs.len() == 1 && wire::read_message(&out.msgs[0]).map(|r| r.flags & 0xf != 0 && r.counts[1] == 0).unwrap_or(false) {
        lcount("I:room-below-512-octets:clean-refusal");
        return;
    }
    if refo.verdict == V::Open {
        lcount("I:not-judged(soa-soa)");
        return;
    }
    // the versions that were current at some moment of the transfer
    let mut allowed: Vec<&Obs> = vec![&all_obs[1]];
    for (s, _) in &out.committed {
        allowed.push(&all_obs[*s as usize - 1]);
    }
    let good = refo.verdict == V::Valid && refo.final_zone.as_ref().map(|f| allowed.contains(&f)).unwrap_or(false);
    if !good {
        let cause = match (&refo.final_zone, refo.verdict) {
            (Some(f), V::Valid | V::Either) => {
                let soa_of = |o: &Obs| o.iter().filter(|c| c.rtype == 6).cloned().collect::<Vec<_>>();
                let content_of = |o: &Obs| o.iter().filter(|c| c.rtype != 6).cloned().collect::<Vec<_>>();
                let si = all_obs.iter().position(|v| soa_of(v) == soa_of(f));
                let ci: Vec<usize> = (0..all_obs.len()).filter(|i| content_of(&all_obs[*i]) == content_of(f)).collect();
                match si {
                    Some(i) if ci.contains(&i) => "a-version-that-was-not-current-during-the-transfer".to_string(),
                    Some(_) if !ci.is_empty() => "soa-of-one-version-frames-the-records-of-another".to_string(),
                    Some(_) => "soa-of-one-version-frames-records-of-no-single-version".to_string(),
                    None => "soa-of-no-version".to_string(),
                }
            }
            _ => format!("not-a-valid-transfer:{:?}({})", refo.verdict, refo.reason),
        };
        report(
            sh,
            &format!("C10|sender|{rname}|writer-commits-during-the-transfer|{when}|{cause}"),
            &|| {
                format!(
                    "the sender was at version 2 when the request arrived; the writer committed {:?} (logical serial, responses received before) while the stream was consumed (events {:?}); the emitted stream is read as {:?}/{} yielding {} which is no version of the zone that was current during the transfer ({cause})",
                    out.committed,
                    evs,
                    refo.verdict,
                    refo.reason,
                    refo.final_zone.as_ref().map(obs_json).unwrap_or(Value::Null)
                )
            },
            &cj,
        );
        return;
    }
    // the real receiver holding version 1
    let c = Case {
        part: "S",
        label: format!("sender-interleaved:{rname}/limit={}/zones={:?}/events={:?}", rq.limit, ks, evs),
        old_kinds: ks[0],
        old_serial: 1,
        old: &chain[0].1,
        honest_new: refo.final_zone.clone(),
        honest_versions: all_obs.clone(),
        fault: None,
        msgs: out.msgs.clone(),
        custom_old: None,
        replay_as: Some(cj()),
        via_client: None,
    };
    judge(sh, &c, verbose);
    sample(sh, &format!("I:{rname}:{when}"), &cj);
}

fn interleave_requests(quick: bool) -> Vec<SReq> {
    let base = SReq { qtype: 252, serial: None, udp: false, limit: u16::MAX, compat: false, via_client: false, provider: 0, foreign: false };
    let mut v = vec![
        base.clone(),
        // one RR per response: an insertion point between any two records
        SReq { compat: true, ..base.clone() },
        // the requester's serial is unknown to the sender: answered AXFR-style
        SReq { qtype: 251, serial: Some(0), ..base.clone() },
        SReq { qtype: 251, serial: Some(0), compat: true, ..base.clone() },
        // answered from the diffs
        SReq { qtype: 251, serial: Some(1), ..base.clone() },
        SReq { qtype: 251, serial: Some(1), limit: 90, ..base.clone() },
        // the `Zone` itself as data provider (no diffs)
        SReq { provider: 1, ..base.clone() },
        SReq { qtype: 251, serial: Some(1), provider: 1, ..base.clone() },
    ];
    if !quick {
        v.push(SReq { limit: 90, ..base.clone() });
        v.push(SReq { qtype: 251, serial: Some(0), limit: 90, ..base.clone() });
        v.push(SReq { qtype: 251, serial: Some(1), udp: true, limit: 512, ..base.clone() });
        v.push(SReq { qtype: 251, serial: Some(0), udp: true, limit: 512, ..base.clone() });
    }
    v
}

fn run_interleave_part(sh: &Shared, quick: bool) {
    // versions 1 (requester), 2 (current when the request arrives), 3 and 4 (committed meanwhile)
    let mut chains: Vec<Vec<Kinds>> = vec![vec![[1, 0, 0], [2, 0, 0], [2, 3, 0], [0, 3, 1]], vec![[0, 1, 0], [1, 1, 0], [1, 0, 3], [3, 0, 3]]];
    if !quick {
        let menu: [Kinds; 4] = [[1, 0, 0], [2, 0, 0], [1, 3, 0], [0, 1, 3]];
        for a in menu {
            for b in menu {
                for c in menu {
                    for d in menu {
                        if a != b && b != c && c != d && !chains.contains(&vec![a, b, c, d]) {
                            chains.push(vec![a, b, c, d]);
                        }
                    }
                }
            }
        }
    }
    let (max_at, yields): (usize, &[u8]) = if quick { (6, &[0, 1, 2]) } else { (12, &[0, 1, 2, 3]) };
    let mut scheds: Vec<Vec<Ev>> = vec![vec![]];
    for at in 0..=max_at {
        for y in yields {
            let e = Ev { at, yields: *y };
            // one version, or two versions at the same point
            scheds.push(vec![e]);
            scheds.push(vec![e, Ev { at, yields: 0 }]);
        }
    }
    if !quick {
        // every pair of insertion points
        for a1 in 0..=8usize {
            for y1 in [0u8, 1] {
                for a2 in a1 + 1..=9usize {
                    for y2 in [0u8, 1] {
                        scheds.push(vec![Ev { at: a1, yields: y1 }, Ev { at: a2, yields: y2 }]);
                    }
                }
            }
        }
    }
    let reqs = interleave_requests(quick);
    lcount(&format!("I:chains={}:requests={}:schedules={}", chains.len(), reqs.len(), scheds.len()));
    let mut work = vec![];
    for (ci, ks) in chains.iter().enumerate() {
        for rq in &reqs {
            for s in &scheds {
                // (pairs of insertion points on the two base chains only)
                if ci >= 2 && s.len() == 2 && s[0].at != s[1].at {
                    continue;
                }
                work.push((ks, rq, s));
            }
        }
    }
    lcount(&format!("I:cases={}", work.len()));
    work.par_iter().for_each(|(ks, rq, s)| run_interleave_case(sh, ks, rq, s, false));
}

fn replay_interleave(sh: &Shared, case: &Value) {
    let ks: Vec<Kinds> = case["zones"]
        .as_array()
        .unwrap()
        .iter()
        .map(|z| {
            let a: Vec<u8> = z.as_array().unwrap().iter().map(|x| x.as_u64().unwrap() as u8).collect();
            [a[0], a[1], a[2]]
        })
        .collect();
    let evs: Vec<Ev> = case["events"].as_array().unwrap().iter().map(|e| Ev { at: e["at"].as_u64().unwrap() as usize, yields: e["yields"].as_u64().unwrap() as u8 }).collect();
    run_interleave_case(sh, &ks, &sreq_from_json(&case["request"]), &evs, true);
}

// ====================================================================
// main
// ====================================================================

fn replay(sh: &Shared, case: &Value, b: &Bounds) {
    let kinds = |v: &Value| -> Kinds {
        let a: Vec<u8> = v.as_array().unwrap().iter().map(|x| x.as_u64().unwrap() as u8).collect();
        [a[0], a[1], a[2]]
    };
    match case["part"].as_str().unwrap_or("") {
        "D" => {
            let ops: Vec<Op> = case["ops"]
                .as_array()
                .unwrap()
                .iter()
                .map(|o| match o["op"].as_str().unwrap() {
                    "update_rrset" => Op::Upd(o["n"].as_u64().unwrap() as u8, o["k"].as_u64().unwrap() as u8),
                    "remove_rrset" => Op::Rem(o["n"].as_u64().unwrap() as u8, o["t"].as_u64().unwrap() as u8),
                    _ => Op::RemAll,
                })
                .collect();
            run_diff_case(sh, kinds(&case["old"]), &ops, case["mode"].as_u64().unwrap() as u8, true);
        }
        "S" => replay_sender(sh, case),
        "H" => replay_history(sh, case, b),
        "T" => replay_tsig(sh, case),
        "E" => replay_ent(sh, case),
        "I" => replay_interleave(sh, case),
        _ => {
            let old_k = kinds(&case["old"]);
            let old = zone_recs(old_k);
            let msgs: Vec<Bytes> = case["msgs"].as_array().unwrap().iter().map(|m| Bytes::from(unhex(m.as_str().unwrap()))).collect();
            let c = Case {
                part: if case["via_client"].is_object() { "W" } else { "F" },
                label: case["label"].as_str().unwrap_or("replay").to_string(),
                old_kinds: old_k,
                old_serial: case["old_serial"].as_u64().unwrap_or(1) as u32,
                old: &old,
                honest_new: None,
                honest_versions: vec![],
                fault: case["fault"].as_str().map(|s| s.to_string()).or(Some("replay".into())),
                msgs,
                custom_old: None,
                replay_as: None,
                via_client: case["via_client"].as_object().map(|o| (o["qtype"].as_u64().unwrap() as u16, o["serial"].as_u64().map(|x| x as u32))),
            };
            judge(sh, &c, true);
        }
    }
}

fn main() {
    let ctx = Ctx::new("C10", "model_checking");
    let sh = Shared { ctx: ctx.clone(), stats: Stats::new(), seen: Default::default(), sample_keys: Default::default(), samples: Default::default() };
    let b = if ctx.quick() {
        Bounds { max_dist: 2, all_splits_upto: 8, both_qmodes: false, mid_first: 1, mid_second: 1, fault_dist: 1, fault_cuts: 1, diff_len: 2, sender_dist: 1, hist_dist: 1, hist_aborts: 2, hist_all_mids: false, tsig_extra_max: 230, wire_dist: 1, wire_all_splits_upto: 0, wire_faults: true, faults: true, ttl_wide: false }
    } else {
        Bounds { max_dist: 3, all_splits_upto: 10, both_qmodes: true, mid_first: 1, mid_second: 2, fault_dist: 2, fault_cuts: 2, diff_len: 3, sender_dist: 2, hist_dist: 2, hist_aborts: 2, hist_all_mids: true, tsig_extra_max: 230, wire_dist: 2, wire_all_splits_upto: 8, wire_faults: true, faults: true, ttl_wide: true }
    };
    let mut npairs = 0;
    if let Some(p) = &ctx.replay {
        let text = std::fs::read_to_string(p).expect("replay file");
        let v: Value = serde_json::from_str(&text).expect("replay json");
        let sc = v["case"]["scheme"].as_u64().unwrap_or(0) as usize;
        let plan = plan_from_json(&v["case"]["soa_plan"]);
        let uni = v["case"]["universe"].as_u64().unwrap_or(0) as u8;
        with_scheme(sc.min(SCHEMES.len() - 1), || with_soa_plan(plan, || with_universe(uni, || replay(&sh, &v["case"], &b))));
    } else {
        let mut pairs = vec![];
        for oi in 0..64 {
            for ni in 0..64 {
                if dist(kinds_of(oi), kinds_of(ni)) <= b.max_dist {
                    pairs.push((kinds_of(oi), kinds_of(ni)));
                }
            }
        }
        npairs = pairs.len();
        let t0 = std::time::Instant::now();
        // (C10_ONLY_L=1: only part L, a development aid like C10_DRY)
        let only_ei = std::env::var("C10_ONLY_EI").is_ok();
        if only_ei {
            // (C10_ONLY_EI=1: only parts E and I, a development aid)
            run_ent_part(&sh, ctx.quick());
            eprintln!("part E done at {:.1}s ({} evaluations)", t0.elapsed().as_secs_f64(), sh.stats.evals());
            run_interleave_part(&sh, ctx.quick());
            eprintln!("part I done at {:.1}s ({} evaluations)", t0.elapsed().as_secs_f64(), sh.stats.evals());
        } else if std::env::var("C10_ONLY_L").is_err() && std::env::var("C10_ONLY_Q").is_err() {
            pairs.par_iter().for_each(|(o, n)| run_pair(&sh, *o, *n, &b));
            eprintln!("parts R+F done at {:.1}s ({} evaluations)", t0.elapsed().as_secs_f64(), sh.stats.evals());
            run_diff_part(&sh, &b);
            eprintln!("part D done at {:.1}s ({} evaluations)", t0.elapsed().as_secs_f64(), sh.stats.evals());
            run_sender_part(&sh, &b);
            eprintln!("part S done at {:.1}s ({} evaluations)", t0.elapsed().as_secs_f64(), sh.stats.evals());
            run_serial_part(&sh, &b);
            eprintln!("serial schemes done at {:.1}s ({} evaluations)", t0.elapsed().as_secs_f64(), sh.stats.evals());
            run_wire_part(&sh, &b);
            eprintln!("part W done at {:.1}s ({} evaluations)", t0.elapsed().as_secs_f64(), sh.stats.evals());
            run_history_part(&sh, &b);
            eprintln!("part H done at {:.1}s ({} evaluations)", t0.elapsed().as_secs_f64(), sh.stats.evals());
            run_tsig_part(&sh, &b);
            eprintln!("part T done at {:.1}s ({} evaluations)", t0.elapsed().as_secs_f64(), sh.stats.evals());
            run_ent_part(&sh, ctx.quick());
            eprintln!("part E done at {:.1}s ({} evaluations)", t0.elapsed().as_secs_f64(), sh.stats.evals());
            run_interleave_part(&sh, ctx.quick());
            eprintln!("part I done at {:.1}s ({} evaluations)", t0.elapsed().as_secs_f64(), sh.stats.evals());
        }
        if !only_ei && std::env::var("C10_ONLY_Q").is_err() {
            run_ttl_part(&sh, &b);
        }
        eprintln!("part L done at {:.1}s ({} evaluations)", t0.elapsed().as_secs_f64(), sh.stats.evals());
        if !only_ei {
            run_eq_part(&sh, &b, ctx.quick());
            eprintln!("part Q done at {:.1}s ({} evaluations)", t0.elapsed().as_secs_f64(), sh.stats.evals());
        }
    }
    // merge the per-thread statistics
    let mut locals: Vec<Local> = rayon::broadcast(|_| LOCAL.with(|l| std::mem::take(&mut *l.borrow_mut())));
    locals.push(LOCAL.with(|l| std::mem::take(&mut *l.borrow_mut())));
    let mut total = Local::default();
    for l in locals {
        for (k, v) in l.counters {
            *total.counters.entry(k).or_insert(0) += v;
        }
        total.states.extend(l.states);
        total.transitions += l.transitions;
        total.runs += l.runs;
    }
    let mut samples = sh.samples.lock().unwrap().clone();
    samples.sort_by_key(|v| v.to_string());
    ctx.finish(
        json!({
            "states": total.states.len(),
            "transitions": total.transitions,
            "traces_validated_against_impl": total.runs,
            "evaluations": sh.stats.evals(),
            "distinct_nontrivial": sh.stats.distinct_count(),
            "rule": "(part L and part Q cases count like the cases of the part they re-run, with the SOA plan / twin universe in the key) distinct (old zone, exact response octets) receiver cases with >=2 messages, a fault, or a changed zone; plus distinct (old zone, non-empty edit sequence, commit mode) diff cases; plus distinct (old,mid,new,request) sender cases; plus distinct (old, first stream, cut, abort kind, second target, second form) histories; plus distinct (RNAME extension, request kind) TSIG sender cases; part W cases count like part R/F cases; plus distinct (zone origin, old content, replacement route, new content) cases of part E; plus distinct (version chain, request, commit schedule) cases of part I (the receiver run of a part E / part I case is a second evaluation of that case)",
            "exhaustive": true,
            "bounds": {
                "zones": 64, "ordered_pairs": npairs, "pair_distance": b.max_dist, "all_splits_up_to_rrs": b.all_splits_upto, "beyond": "all splits with <=2 cuts + one RR per message",
                "two_step_mid": format!("dist(old,mid)<={} and dist(mid,new)<={}", b.mid_first, b.mid_second),
                "fault_pair_distance": b.fault_dist, "fault_split_cuts": b.fault_cuts, "diff_edit_len": b.diff_len,
                "history": format!("first update: every stream of pairs 1..={} RRsets apart{}, one RR per message, cut after every RR, {} abort kinds; second update: 3 forms to every zone <=1 RRset from the version reached", b.hist_dist, if b.hist_all_mids { " (all 2-step mids)" } else { " (2-step mids different from both ends)" }, b.hist_aborts),
                "serial_schemes": format!("{:?} as (start, step); part S complete under all, parts R (pairs <=1 apart, <=1 cut + one RR per message) and D (<=1 edit) under schemes 1..", SCHEMES),
                "wire_stream_client": format!("pairs <={} RRsets apart, serial schemes 0 and 1, honest splits: {}, all faults on the single-message and one-RR-per-message packagings (scheme 0)", b.wire_dist, if b.wire_all_splits_upto > 0 { format!("all up to {} RRs, beyond <=1 cut + one RR per message", b.wire_all_splits_upto) } else { "<=1 cut + one RR per message".to_string() }),
                "ttl_axis": format!("part L: RRset TTL menu {:?}, SOA menu (TTL index, [refresh, retry, expire, minimum]) {:?}; TTL universe of {} zones (a.z: none | A,Ax2,TXT x TTL; b.a.z: none | TXT x {} TTLs), all ordered pairs through axfr / axfr-style ixfr / ixfr RR-granular, RRset-granular, added-records-carry-new-ttl, all splits up to {} RRs; 2-step streams and faults on the 7-zone sub-universe (faults: {}); SOA plans {} x 5 content pairs; diff edits: {} ops, sequences <= {}{}; sender: TTL pairs <= {} RRset apart + 3-chains of the sub-universe + SOA plans x 4 chains, 12 request kinds; stream client and histories on the sub-universe and under SOA plans; edit-shape universe of {} zones (a.z: A{{1}} | A{{1,2}} | A{{3}} | A{{1,3}} x {} TTLs): the ordered pairs with A{{3}} or A{{1,3}} on a side (record edit keep+add, keep+remove, keep+add+remove, replace all, none x TTL same, raised, lowered; counted per shape in the histogram under L:shape:) through the receiver (all stream forms), the sender (2-version chains{}), the stream client, and as old contents / operations of the diff edits", TTLS, SOAVS, ttl_universe(b.ttl_wide).len(), if b.ttl_wide { 2 } else { 1 }, if b.ttl_wide { 8 } else { 6 }, if b.ttl_wide { "all pairs" } else { "4 pairs" }, if b.ttl_wide { "v1 x v2 x v3 (215)" } else { "v1 x v2, v3 = v1 (35)" }, ttl_op_alphabet().len(), b.diff_len.min(2), if b.ttl_wide { " (3 on the sub-universe)" } else { "" }, b.sender_dist, ttl_shape_universe(b.ttl_wide).len(), if b.ttl_wide { 4 } else { 3 }, if b.ttl_wide { " and 3-version chains; faults and 2-step streams through every zone of it" } else { "" }),
                "zone_origin_x_tree_shape": format!("part E: names a.z, b.a.z, c.z, e.c.z, d.e.c.z each holding nothing or A{{1}}{}: {} contents; origins of the old zone {:?}; replacement routes {:?}; new content: {}; per case: content after history and after replacement == model, diff returned with the right serials, diff(old) == new by the model's own diff application, IXFR served from the diff by the real sender is a valid transfer of new (reference) and takes the real receiver there", if ctx.quick() { "" } else { " (leaves b.a.z, d.e.c.z also A{1,2} or TXT)" }, ek_universe(!ctx.quick()).len(), E_ORIGINS, E_ROUTES.iter().map(|r| r.1).collect::<Vec<_>>(), if ctx.quick() { "every content of the universe" } else { "every content <= 3 names away plus the empty and the full content" }),
                "writer_interleaved_with_transfer": format!("part I: sender at version 2 of a 4-version chain ({} chains), {} request kinds (axfr, axfr one RR per response, ixfr answered axfr-style, ixfr from diffs in one / many messages, Zone as provider{}); the writer commits version 3 (and 4) after k = 0..={} items of the response stream (k = 0: stream returned, not yet polled) and 0..={} extra runtime turns: one version, two versions at one point{}; oracle: the emitted stream is a valid transfer of one version that was current between request and end of stream (histogram I:<request>:<when>)", if ctx.quick() { 2 } else { 110 }, interleave_requests(ctx.quick()).len(), if ctx.quick() { "" } else { ", small message limits, udp" }, if ctx.quick() { 6 } else { 12 }, if ctx.quick() { 2 } else { 3 }, if ctx.quick() { "" } else { ", every pair of points (base chains)" }),
                "record_identity": format!("part Q: twin pairs {:?} as (type, RDATA) {:?} (last pair: one record by DNS rules, embedded names folded on both sides); per pair a.z in {{none, {{X}}, {{X,Y}}, {{Y}}}}: all ordered pairs through part R (all stream forms, 2-step through every zone, all splits up to {} RRs{}), part D (edit sequences <= {}, both commit modes), part S ({} request kinds, {}), part W", TWIN_NAMES, TWINS.iter().map(|(x, y)| (XS[*x as usize].0, hex(XS[*x as usize].1), hex(XS[*y as usize].1))).collect::<Vec<_>>(), if ctx.quick() { 7 } else { 10 }, if ctx.quick() { "" } else { ", faults" }, if ctx.quick() { 2 } else { 3 }, ttl_sender_requests().len(), if ctx.quick() { "2-version chains" } else { "2- and 3-version chains" }),
                "tsig_sender": format!("SOA + {} TXT records of {} octets, RNAME extension 0 and 2..={} octets, 4 request kinds", FILLERS, FILL_TXT, b.tsig_extra_max),
            },
            "histogram": total.counters,
            "samples": samples,
        }),
        &[
            "states = distinct receiver-zone contents observed on the real zone; transitions = response messages fed to the real interpreter/updater plus edit operations executed on the real write interface",
            "an end of the response stream without ZoneUpdate::Finished counts as rejection (the library has no end-of-stream call); the updater is then dropped and the zone inspected",
            "an AXFR-style IXFR answer for a zone with no record besides its SOA (SOA SOA) is not judged: RFC 1995 gives a client no way to tell it from a difference list",
            "cases the RFCs leave open (data after the closing SOA, IXFR deleting an absent RR or adding a present RR, base-serial or chain-serial mismatch with a consistent end state, empty middle message, question of a later message) accept either verdict",
        ],
    );
}
