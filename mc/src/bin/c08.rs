//! C08 — zone answers follow RFC 1034/4592 and depend only on content.
//!
//! Enumerates ALL zone contents over a 7-name tree x RRset kinds, ALL
//! (qname, qtype) over the closure, and ALL histories of the listed shapes
//! ending in each content; compares every answer of the real in-memory zone
//! with an independent reference resolver over plain data.
use domain::base::iana::Rtype;
use domain::zonetree::update::ZoneUpdater;
use domain::zonetree::types::ZoneUpdate;
use domain::zonetree::Zone;
use mc::zfix::*;
use mc::*;
use rayon::prelude::*;
use serde_json::{json, Value};
use std::collections::BTreeSet;

#[derive(Clone, Copy, Debug, PartialEq)]
enum K {
    None,
    A,
    Txt,
    ATxt,
    Cname,
    Ns,
    NsDs,
    NsIn,
    NsInDs,
    NsBA,
}

fn apply_kind(c: &mut Content, name: &str, k: K, a_id: u8) {
    match k {
        K::None => {}
        K::A => c.add(name, Rd::A(a_id)),
        K::Txt => c.add(name, Rd::Txt(format!("t{a_id}"))),
        K::ATxt => {
            c.add(name, Rd::A(a_id));
            c.add(name, Rd::Txt(format!("t{a_id}")));
        }
        K::Cname => c.add(name, Rd::Cname),
        K::Ns => c.add(name, Rd::NsOut),
        K::NsDs => {
            c.add(name, Rd::NsOut);
            c.add(name, Rd::Ds);
        }
        K::NsIn => c.add(name, Rd::NsIn),
        K::NsInDs => {
            c.add(name, Rd::NsIn);
            c.add(name, Rd::Ds);
        }
        K::NsBA => c.add(name, Rd::NsBA),
    }
}

/// One zone content = a kind per universe name (slot).
const SLOTS: [&str; 6] = ["a", "b.a", "*.a", "c", "d.c", "*"];

fn menus(quick: bool) -> Vec<Vec<K>> {
    let _ = quick;
    vec![
        vec![K::None, K::A, K::Txt, K::ATxt, K::Cname, K::Ns, K::NsDs, K::NsBA],
        vec![K::None, K::A, K::Txt, K::Cname],
        vec![K::None, K::A, K::Txt, K::Cname],
        vec![K::None, K::A, K::NsIn, K::NsInDs, K::NsBA],
        vec![K::None, K::A],
        vec![K::None, K::A, K::Txt, K::Cname],
    ]
}

fn valid(ks: &[K]) -> bool {
    // below a cut at `a` only nothing / glue-like A may exist
    // nothing below the cut at `a` (occluded data is outside the property's zone model)
    if matches!(ks[0], K::Ns | K::NsDs) && (ks[1] != K::None || ks[2] != K::None) {
        return false;
    }
    // below the cut at `c` only the glue of its own in-bailiwick target may exist
    if ks[3] == K::NsBA && ks[4] != K::None {
        return false;
    }
    // `a` delegated to its own in-bailiwick server b.a: only that glue may exist below
    if ks[0] == K::NsBA && (!matches!(ks[1], K::None | K::A) || ks[2] != K::None) {
        return false;
    }
    // below the cut at `c` only glue for the in-bailiwick NS target d.c
    if !matches!(ks[3], K::NsIn | K::NsInDs) && false {
        return false;
    }
    true
}

fn content_of(ks: &[K], serial: u32) -> Content {
    let mut c = Content::base(serial);
    for (i, k) in ks.iter().enumerate() {
        apply_kind(&mut c, SLOTS[i], *k, 10 + i as u8);
    }
    c
}

fn all_contents(quick: bool) -> Vec<Vec<K>> {
    let m = menus(quick);
    let sizes: Vec<usize> = m.iter().map(|x| x.len()).collect();
    let mut v = Vec::new();
    product(&sizes, |ix| {
        let ks: Vec<K> = ix.iter().enumerate().map(|(i, j)| m[i][*j]).collect();
        if valid(&ks) {
            v.push(ks);
        }
    });
    v
}

const QNAMES: [&str; 16] = ["", "a", "b.a", "*.a", "c", "d.c", "*", "x", "x.a", "y.b.a", "y.x.a", "x.c", "y.d.c", "y.*", "y.*.a", "b.x"];
const QTYPES: [Rtype; 6] = [Rtype::A, Rtype::TXT, Rtype::NS, Rtype::DS, Rtype::CNAME, Rtype::SOA];

/// Check every query against the reference. `prev`: content the zone held
/// before (for classifying history-dependent mismatches).
/// Nodes the tree holds after building/writing content `c`: names with data and their ancestors.
fn nodes_of(c: &Content) -> BTreeSet<RelName> {
    let mut s = BTreeSet::new();
    for (n, d) in &c.names {
        if !d.is_empty() {
            for i in 1..=n.len() {
                s.insert(n[..i].to_vec());
            }
        }
    }
    s
}

/// Which known mechanism can explain a history-dependent mismatch at `q`?
/// prevs: contents whose nodes exist in the tree from earlier in the history.
fn cause_of(prevs: &[&Content], c: &Content, q: &RelName, hist: &str, e: &Expected) -> &'static str {
    let mut prev_nodes: BTreeSet<RelName> = BTreeSet::new();
    for p in prevs {
        prev_nodes.extend(nodes_of(p));
    }
    let from = prevs[0];
    let on_path = |n: &RelName| -> bool {
        (n.len() <= q.len() && q[..n.len()] == n[..]) || (n.last().map(|l| l == "*").unwrap_or(false) && n.len() - 1 <= q.len() && q[..n.len() - 1] == n[..n.len() - 1])
    };
    // the updater stores NS and CNAME as plain RRsets: no cut / CNAME semantics
    if hist.starts_with("updater") {
        let special_on_path = (1..=q.len()).any(|i| {
            let p = q[..i].to_vec();
            c.is_cut(&p) || !c.rrset(&p, Rtype::CNAME).is_empty()
        }) || {
            // wildcard CNAME
            matches!(e.kind, Kind::Cname)
        };
        if special_on_path {
            return "updater-stores-NS/CNAME-as-plain-rrsets";
        }
        // glue below a cut added as ordinary nodes
    }
    // a node that existed earlier in the history and has no data or descendants now
    if prev_nodes.iter().any(|n| !c.exists(n) && on_path(n)) {
        return "stale-node-of-removed-name-on-lookup-path";
    }
    // an empty non-terminal on the path whose NxDomain marker was set by the write interface
    let ent_marked = (1..=q.len()).any(|i| {
        let p = q[..i].to_vec();
        c.exists(&p) && !c.has_data(&p) && (!nodes_of(from).contains(&p) || from.has_data(&p) || prevs.len() > 1)
    });
    if ent_marked {
        return "empty-non-terminal-marked-NXDOMAIN-by-write-interface";
    }
    "unexplained"
}

fn check_zone(ctx: &Ctx, stats: &Stats, zone: &Zone, c: &Content, hist: &str, prev: Option<&[&Content]>, case: &dyn Fn() -> Value) {
    let read = zone.read();
    for qn in QNAMES {
        let q = rel(qn);
        for qt in QTYPES {
            stats.eval();
            let e = resolve(c, &q, qt);
            let o = match guard(|| query(read.as_ref(), &q, qt)) {
                Ok(o) => o,
                Err(p) => {
                    ctx.violation(&format!("C08|{hist}|panic|{}", panic_class(&p)), &p, json!({"zone": case(), "qname": qn, "qtype": qt.to_string()}));
                    continue;
                }
            };
            stats.count(&format!("answers.{:?}", e.kind));
            if let Err(why) = compare(&e, &o) {
                // structural cause of a history-dependent mismatch
                let what = why.split_whitespace().take(2).collect::<Vec<_>>().join("-");
                let sig = match prev {
                    None => format!("C08|{hist}|qname={}|expected={:?}|observed={:?}|{}", e.qclass, e.kind, o.kind(), what),
                    Some(prevs) => {
                        let cause = cause_of(prevs, c, &q, hist, &e);
                        let fam = if hist.starts_with("updater") { "updater" } else { "write" };
                        if cause == "unexplained" {
                            format!("C08|{hist}|cause=unexplained|qname={}|expected={:?}|observed={:?}|{}", e.qclass, e.kind, o.kind(), what)
                        } else {
                            // each cause implies its observable symptom; anything else is reported in full
                            let implied = match cause {
                                "empty-non-terminal-marked-NXDOMAIN-by-write-interface" => o.kind() == Kind::NxDomain,
                                "stale-node-of-removed-name-on-lookup-path" => matches!(o.kind(), Kind::NxDomain | Kind::NoData),
                                _ => false,
                            };
                            if implied {
                                format!("C08|{fam}|cause={cause}|observed={:?}", o.kind())
                            } else {
                                format!("C08|{hist}|cause={cause}-but-unexpected-symptom|qname={}|expected={:?}|observed={:?}|{}", e.qclass, e.kind, o.kind(), what)
                            }
                        }
                    }
                };
                ctx.violation(&sig, &format!("{qn:?}/{qt}: {why}; expected {:?}, observed {:?}", e.kind, o.kind()), json!({"zone": case(), "history": hist, "qname": qn, "qtype": qt.to_string()}));
            }
        }
    }
    // walk enumerates exactly the records (glue appears under the cut)
    stats.eval();
    match guard(|| walk(read.as_ref())) {
        Ok((w, dup)) => {
            let want = content_as_walk(c);
            if w != want || dup {
                let missing = want.difference(&w).count();
                let extra = w.difference(&want).count();
                let fam = if prev.is_none() { "built" } else if hist.starts_with("updater") { "updater" } else { "write" };
                ctx.violation(&format!("C08|{fam}|walk|missing={}|extra={}|dup={dup}", missing.min(1), extra.min(1)), &format!("walk() enumerates {} records, content has {} (missing {missing}, extra {extra})", w.len(), want.len()), json!({"zone": case(), "history": hist}));
            }
        }
        Err(p) => {
            ctx.violation(&format!("C08|{hist}|walk|panic|{}", panic_class(&p)), &p, json!({"zone": case(), "history": hist}));
        }
    }
}

fn soa_record(c: &Content) -> domain::zonetree::types::StoredRecord {
    record_of(&vec![], &c.soa())
}

/// History U: ZoneUpdater, AXFR-style full replacement of `from` by `to`.
fn updater_replace(from: &Content, to: &Content) -> Result<Zone, String> {
    let zone = build_direct(from, false);
    let rt = rt();
    rt.block_on(async {
        let mut up = ZoneUpdater::<domain::zonetree::types::StoredName>::new(zone.clone()).await.map_err(|e| format!("{e:?}"))?;
        up.apply(ZoneUpdate::DeleteAllRecords).await.map_err(|e| format!("{e:?}"))?;
        for (n, r) in to.records() {
            if matches!(r, Rd::Soa(_)) {
                continue;
            }
            up.apply(ZoneUpdate::AddRecord(record_of(&n, &r))).await.map_err(|e| format!("{e:?}"))?;
        }
        up.apply(ZoneUpdate::Finished(soa_record(to))).await.map_err(|e| format!("{e:?}"))?;
        Ok::<(), String>(())
    })?;
    Ok(zone)
}

/// History E: ZoneUpdater, IXFR-style edit from `from` to `to`.
fn updater_edit(from: &Content, to: &Content) -> Result<Zone, String> {
    let zone = build_direct(from, false);
    let rt = rt();
    let (fr, tr) = (from.records(), to.records());
    rt.block_on(async {
        let mut up = ZoneUpdater::<domain::zonetree::types::StoredName>::new(zone.clone()).await.map_err(|e| format!("{e:?}"))?;
        up.apply(ZoneUpdate::BeginBatchDelete(soa_record(from))).await.map_err(|e| format!("{e:?}"))?;
        for (n, r) in fr.difference(&tr) {
            if matches!(r, Rd::Soa(_)) {
                continue;
            }
            up.apply(ZoneUpdate::DeleteRecord(record_of(n, r))).await.map_err(|e| format!("{e:?}"))?;
        }
        up.apply(ZoneUpdate::BeginBatchAdd(soa_record(to))).await.map_err(|e| format!("{e:?}"))?;
        for (n, r) in tr.difference(&fr) {
            if matches!(r, Rd::Soa(_)) {
                continue;
            }
            up.apply(ZoneUpdate::AddRecord(record_of(n, r))).await.map_err(|e| format!("{e:?}"))?;
        }
        up.apply(ZoneUpdate::Finished(soa_record(to))).await.map_err(|e| format!("{e:?}"))?;
        Ok::<(), String>(())
    })?;
    Ok(zone)
}

/// History W: write interface edit, optionally preceded by an abandoned attempt.
fn write_edit(from: &Content, to: &Content, abandoned_first: Option<&Content>, via_remove_all: bool) -> Zone {
    write_edit_opt(from, to, abandoned_first, via_remove_all, false)
}

fn write_edit_opt(from: &Content, to: &Content, abandoned_first: Option<&Content>, via_remove_all: bool, churn: bool) -> Zone {
    write_edit_full(from, to, abandoned_first, false, via_remove_all, churn)
}

/// `abandon_as_replacement`: the abandoned attempt is a full replacement (remove_all, then the junk
/// content is written), as an AXFR that dies half way does it.
fn write_edit_full(from: &Content, to: &Content, abandoned_first: Option<&Content>, abandon_as_replacement: bool, via_remove_all: bool, churn: bool) -> Zone {
    let zone = build_direct(from, false);
    let rt = rt();
    rt.block_on(async {
        if let Some(junk) = abandoned_first {
            let w = zone.write().await;
            let apex = w.open(false).await.unwrap();
            let mut names: BTreeSet<RelName> = from.names.keys().cloned().collect();
            names.extend(junk.names.keys().cloned());
            if abandon_as_replacement {
                apex.remove_all().await.unwrap();
            }
            for n in &names {
                write_name(apex.as_ref(), junk, if abandon_as_replacement { None } else { Some(from) }, n).await;
            }
            drop(apex);
            drop(w); // never committed
        }
        let mut w = zone.write().await;
        let apex = w.open(false).await.unwrap();
        let mut names: BTreeSet<RelName> = from.names.keys().cloned().collect();
        names.extend(to.names.keys().cloned());
        if via_remove_all {
            apex.remove_all().await.unwrap();
            for n in &names {
                write_name(apex.as_ref(), to, None, n).await;
            }
        } else {
            // names whose data differs, plus - because glue lives inside the
            // cut and cut status changes the representation of everything
            // below - the cut above and all names below a changed name
            let changed: Vec<&RelName> = names.iter().filter(|n| from.names.get(*n) != to.names.get(*n)).collect();
            let dirty: Vec<&RelName> = names
                .iter()
                .filter(|n| {
                    changed.iter().any(|ch| {
                        // (the apex always changes - its SOA serial does - but it is never a cut: only the apex itself is rewritten then)
                        let below = if ch.is_empty() { n.is_empty() } else { n.len() >= ch.len() && n[..ch.len()] == ch[..] };
                        let cut_above = ch.len() > n.len() && ch[..n.len()] == n[..] && (from.is_cut(n) || to.is_cut(n));
                        // the glue of a cut is part of the cut: rewrite it when a target's addresses change
                        let glue_of = ns_targets(from, n).contains(ch) || ns_targets(to, n).contains(ch);
                        below || cut_above || glue_of
                    })
                })
                .collect();
            // cuts first? no: parents before children so that nodes exist in path order
            for n in dirty {
                write_name_opt(apex.as_ref(), to, Some(from), n, churn).await;
            }
        }
        drop(apex);
        w.commit(false).await.unwrap();
    });
    zone
}

/// Two committed write batches: from2 -> from -> to.
fn write_edit2(from2: &Content, from: &Content, to: &Content) -> Zone {
    let zone = build_direct(from2, false);
    let rt = rt();
    rt.block_on(async {
        for (a, b) in [(from2, from), (from, to)] {
            let mut w = zone.write().await;
            let apex = w.open(false).await.unwrap();
            let mut names: BTreeSet<RelName> = a.names.keys().cloned().collect();
            names.extend(b.names.keys().cloned());
            let changed: Vec<&RelName> = names.iter().filter(|n| a.names.get(*n) != b.names.get(*n)).collect();
            let dirty: Vec<&RelName> = names
                .iter()
                .filter(|n| {
                    changed.iter().any(|ch| {
                        // (the apex always changes - its SOA serial does - but it is never a cut: only the apex itself is rewritten then)
                        let below = if ch.is_empty() { n.is_empty() } else { n.len() >= ch.len() && n[..ch.len()] == ch[..] };
                        let cut_above = ch.len() > n.len() && ch[..n.len()] == n[..] && (a.is_cut(n) || b.is_cut(n));
                        let glue_of = ns_targets(a, n).contains(ch) || ns_targets(b, n).contains(ch);
                        below || cut_above || glue_of
                    })
                })
                .collect();
            for n in dirty {
                write_name(apex.as_ref(), b, Some(a), n).await;
            }
            drop(apex);
            w.commit(false).await.unwrap();
        }
    });
    zone
}

fn neighbours(ks: &[K], quick: bool) -> Vec<Vec<K>> {
    let m = menus(quick);
    let mut v = Vec::new();
    for i in 0..ks.len() {
        for k in &m[i] {
            if *k != ks[i] {
                let mut n = ks.to_vec();
                n[i] = *k;
                if valid(&n) {
                    v.push(n);
                }
            }
        }
    }
    v
}

/// Contents without NS/DS/CNAME: the ZoneUpdater has no notion of cuts and
/// CNAME nodes (known finding, witnessed separately), so its histories are
/// explored over plain-data contents only.
fn plain(ks: &[K]) -> bool {
    ks.iter().all(|k| matches!(k, K::None | K::A | K::Txt | K::ATxt))
}

fn desc(ks: &[K]) -> Value {
    json!(SLOTS.iter().zip(ks.iter()).map(|(s, k)| format!("{s}={k:?}")).collect::<Vec<_>>())
}

// ---------------------------------------------------------------------------
// Part T: the set of zones (zonetree::tree::ZoneTree).
// RFC 1034 4.3.2 step 2: the zone that answers a query is the nearest
// ancestor zone of QNAME among the zones present - a function of the present
// set only, whatever inserts and removals led to it.
// ---------------------------------------------------------------------------
const T_ZONES: [(&str, u16); 7] = [("z.", 1), ("a.z.", 1), ("b.a.z.", 1), ("c.z.", 1), ("y.", 1), (".", 1), ("a.z.", 3)];
const T_QNAMES: [&str; 12] = [".", "z.", "a.z.", "b.a.z.", "x.b.a.z.", "x.a.z.", "c.z.", "x.c.z.", "x.z.", "y.", "x.y.", "w."];

fn t_zone(i: usize) -> Zone {
    use domain::base::iana::Class;
    let (n, c) = T_ZONES[i];
    domain::zonetree::ZoneBuilder::new(sname(n), Class::from_int(c)).build()
}

fn t_wire(name: &str) -> Vec<u8> {
    let mut w = Vec::new();
    for l in name.split('.').filter(|l| !l.is_empty()) {
        w.push(l.len() as u8);
        w.extend(l.to_ascii_lowercase().bytes());
    }
    w.push(0);
    w
}

/// reference: index of the present zone of that class whose apex is the longest suffix of qname
fn t_reference(present: u8, qname: &str, class: u16) -> Option<usize> {
    let q = t_wire(qname);
    let mut best: Option<(usize, usize)> = None;
    for (i, (n, c)) in T_ZONES.iter().enumerate() {
        if present & (1 << i) == 0 || *c != class {
            continue;
        }
        let a = t_wire(n);
        // suffix at a label boundary
        let mut off = 0usize;
        let mut hit = false;
        loop {
            if q[off..] == a[..] {
                hit = true;
                break;
            }
            let l = q[off] as usize;
            if l == 0 {
                break;
            }
            off += 1 + l;
        }
        if hit && best.map(|(_, len)| a.len() > len).unwrap_or(true) {
            best = Some((i, a.len()));
        }
    }
    best.map(|b| b.0)
}

fn zone_tree_part(ctx: &Ctx, stats: &Stats, quick: bool) -> (u64, u64) {
    use domain::base::iana::Class;
    use domain::zonetree::ZoneTree;
    let depth = if quick { 4 } else { 5 };
    let nops = T_ZONES.len() * 2; // insert i / remove i
    let total = (1..=depth).map(|d| (nops as u64).pow(d as u32)).sum::<u64>();
    let seqs: Vec<Vec<usize>> = {
        let mut all = vec![vec![]];
        let mut layer: Vec<Vec<usize>> = vec![vec![]];
        for _ in 0..depth {
            let mut next = Vec::with_capacity(layer.len() * nops);
            for s in &layer {
                for o in 0..nops {
                    let mut t = s.clone();
                    t.push(o);
                    next.push(t);
                }
            }
            all.extend(next.iter().cloned());
            layer = next;
        }
        all
    };
    let states = std::sync::Mutex::new(BTreeSet::new());
    // only maximal sequences need running: every prefix is checked on the way
    seqs.par_iter().filter(|s| s.len() == depth).for_each(|seq| {
        let show = |upto: usize| -> Vec<String> { seq[..upto].iter().map(|o| format!("{} {}/{}", if o % 2 == 0 { "insert" } else { "remove" }, T_ZONES[o / 2].0, T_ZONES[o / 2].1)).collect() };
        let r = guard(|| {
            let mut tree = ZoneTree::new();
            let mut present: u8 = 0;
            let mut out: Vec<(String, String, usize)> = Vec::new();
            for (k, o) in seq.iter().enumerate() {
                let i = o / 2;
                let (n, c) = T_ZONES[i];
                let was = present & (1 << i) != 0;
                if o % 2 == 0 {
                    let res = tree.insert_zone(t_zone(i));
                    if was && res.is_ok() {
                        out.push(("C08|zone-tree|insert-of-existing-apex-accepted".into(), format!("insert_zone({n}/{c}) returned Ok although that apex and class is present"), k + 1));
                    }
                    if !was && res.is_err() {
                        out.push(("C08|zone-tree|insert-of-absent-apex-refused".into(), format!("insert_zone({n}/{c}) returned {:?} although no such zone is present", res.err()), k + 1));
                    }
                    present |= 1 << i;
                } else {
                    // the Result for an absent zone is not specified ("Removes the specified zone, if any")
                    let _ = tree.remove_zone(&sname(n), Class::from_int(c));
                    present &= !(1 << i);
                }
                stats.eval();
                // observe
                for q in T_QNAMES {
                    for class in [1u16, 3u16] {
                        let got = tree.find_zone(&sname(q), Class::from_int(class)).map(|z| (format!("{}", z.apex_name()), z.class().to_int()));
                        let want = t_reference(present, q, class).map(|i| (T_ZONES[i].0.to_string(), T_ZONES[i].1));
                        let norm = |x: Option<(String, u16)>| x.map(|(n, c)| (if n.ends_with('.') { n } else { format!("{n}.") }, c));
                        let (got, want) = (norm(got), norm(want));
                        if got != want {
                            let kind = match (&got, &want) {
                                (None, Some(_)) => "present-zone-not-found",
                                (Some(_), None) => "removed-or-foreign-zone-found",
                                _ => "not-the-nearest-ancestor",
                            };
                            out.push((format!("C08|zone-tree|find_zone|{kind}|last-op={}", if o % 2 == 0 { "insert" } else { "remove" }), format!("find_zone({q}, class {class}) = {:?}, nearest present ancestor zone is {:?}", got, want), k + 1));
                        }
                    }
                }
                for (j, (n2, c2)) in T_ZONES.iter().enumerate() {
                    let got = tree.get_zone(&sname(n2), Class::from_int(*c2)).is_some();
                    if got != (present & (1 << j) != 0) {
                        out.push((format!("C08|zone-tree|get_zone|{}", if got { "removed-zone-still-there" } else { "present-zone-missing" }), format!("get_zone({n2}/{c2}) = {got}"), k + 1));
                    }
                }
                let mut listed: Vec<(String, u16)> = tree.iter_zones().map(|z| (format!("{}", z.apex_name()), z.class().to_int())).map(|(n, c)| (if n.ends_with('.') { n } else { format!("{n}.") }, c)).collect();
                listed.sort();
                let mut want: Vec<(String, u16)> = T_ZONES.iter().enumerate().filter(|(j, _)| present & (1 << j) != 0).map(|(_, (n, c))| (n.to_string(), *c)).collect();
                want.sort();
                if listed != want {
                    out.push(("C08|zone-tree|iter_zones-differs-from-present-set".into(), format!("iter_zones() = {:?}, present {:?}", listed, want), k + 1));
                }
                if !out.is_empty() {
                    break; // do not explore through a violating state
                }
            }
            (out, present)
        });
        match r {
            Ok((out, present)) => {
                states.lock().unwrap().insert(present);
                for (sig, what, upto) in out {
                    ctx.violation(&sig, &what, json!({"zone_tree_ops": show(upto)}));
                }
            }
            Err(p) => {
                ctx.violation(&format!("C08|zone-tree|panic|{}", panic_class(&p)), &p, json!({"zone_tree_ops": show(seq.len())}));
            }
        }
    });
    stats.count_n("zone-tree.sequences", total);
    let n_states = states.lock().unwrap().len() as u64;
    (total, n_states)
}

fn main() {
    let ctx = Ctx::new("C08", "model_checking");
    let stats = Stats::new();
    let quick = ctx.quick();
    let contents = all_contents(quick);
    let transitions = std::sync::atomic::AtomicU64::new(0);
    let tr = |n: u64| {
        transitions.fetch_add(n, std::sync::atomic::Ordering::Relaxed);
    };
    let replay_zone: Option<Vec<String>> = ctx.replay.as_ref().map(|p| {
        let v: Value = serde_json::from_str(&std::fs::read_to_string(p).expect("replay")).expect("json");
        println!("replaying {}: {}", v["signature"], v["what"]);
        v["case"]["zone"]["to"].as_array().or(v["case"]["zone"].as_array()).map(|a| a.iter().map(|x| x.as_str().unwrap_or("").to_string()).collect()).unwrap_or_default()
    });

    contents.par_iter().for_each(|ks| {
        if let Some(z) = &replay_zone {
            let d: Vec<String> = desc(ks).as_array().unwrap().iter().map(|x| x.as_str().unwrap().to_string()).collect();
            if &d != z {
                return;
            }
        }
        let c = content_of(ks, 1);
        stats.distinct(fnv(format!("{:?}", ks).as_bytes()));
        let case = || desc(ks);
        // B: builder, two insertion orders
        for (h, rev) in [("builder-fwd", false), ("builder-rev", true)] {
            match guard(|| build_direct(&c, rev)) {
                Ok(z) => {
                    tr(1);
                    check_zone(&ctx, &stats, &z, &c, h, None, &case)
                }
                Err(p) => {
                    ctx.violation(&format!("C08|{h}|build-panic|{}", panic_class(&p)), &p, json!({"zone": case()}));
                }
            }
        }
        // P: parsed zonefile
        match guard(|| build_parsed(&c)) {
            Ok(Ok(z)) => {
                tr(1);
                check_zone(&ctx, &stats, &z, &c, "parsed", None, &case)
            }
            Ok(Err(e)) => {
                let class: String = e.chars().filter(|ch| !ch.is_ascii_digit()).take(50).collect();
                ctx.violation(&format!("C08|parsed|rejected|{class}"), &e, json!({"zone": case()}));
            }
            Err(p) => {
                ctx.violation(&format!("C08|parsed|build-panic|{}", panic_class(&p)), &p, json!({"zone": case()}));
            }
        }
        // U: updater full replacement, from the bare zone and from a busy zone
        let bare = Content::base(0);
        let busy = content_of(&[K::ATxt, K::A, K::A, K::A, K::None, K::Txt], 0);
        for (h, from) in [("updater-replace-from-bare", &bare), ("updater-replace-from-busy", &busy)] {
            if !plain(ks) {
                continue;
            }
            match guard(|| updater_replace(from, &c)) {
                Ok(Ok(z)) => {
                    tr(1);
                    check_zone(&ctx, &stats, &z, &c, h, Some(&[from]), &case)
                }
                Ok(Err(e)) => {
                    let class: String = e.chars().filter(|ch| !ch.is_ascii_digit()).take(50).collect();
                    ctx.violation(&format!("C08|{h}|update-error|{class}"), &e, json!({"zone": case()}));
                }
                Err(p) => {
                    ctx.violation(&format!("C08|{h}|panic|{}", panic_class(&p)), &p, json!({"zone": case()}));
                }
            }
        }
        // W-full: write interface from bare zone; and via remove_all from busy
        for (h, from, ra) in [("write-from-bare", &bare, false), ("write-remove_all-from-busy", &busy, true)] {
            match guard(|| write_edit(from, &c, None, ra)) {
                Ok(z) => {
                    tr(1);
                    check_zone(&ctx, &stats, &z, &c, h, Some(&[from]), &case)
                }
                Err(p) => {
                    ctx.violation(&format!("C08|{h}|panic|{}", panic_class(&p)), &p, json!({"zone": case()}));
                }
            }
        }
        // E / W: single-slot edits from every neighbour content
        for nks in neighbours(ks, quick) {
            let from = content_of(&nks, 0);
            let case2 = || json!({"from": desc(&nks), "to": desc(ks)});
            match guard(|| if plain(ks) && plain(&nks) { updater_edit(&from, &c).map(Some) } else { Ok(None) }) {
                Ok(Ok(None)) => {}
                Ok(Ok(Some(z))) => {
                    tr(1);
                    check_zone(&ctx, &stats, &z, &c, "updater-edit", Some(&[&from]), &case2)
                }
                Ok(Err(e)) => {
                    let class: String = e.chars().filter(|ch| !ch.is_ascii_digit()).take(50).collect();
                    ctx.violation(&format!("C08|updater-edit|update-error|{class}"), &e, case2());
                }
                Err(p) => {
                    ctx.violation(&format!("C08|updater-edit|panic|{}", panic_class(&p)), &p, case2());
                }
            }
            match guard(|| write_edit(&from, &c, None, false)) {
                Ok(z) => {
                    tr(1);
                    check_zone(&ctx, &stats, &z, &c, "write-edit", Some(&[&from]), &case2)
                }
                Err(p) => {
                    ctx.violation(&format!("C08|write-edit|panic|{}", panic_class(&p)), &p, case2());
                }
            }
            // replaced-then-removed within one version
            match guard(|| write_edit_opt(&from, &c, None, false, true)) {
                Ok(z) => {
                    tr(1);
                    check_zone(&ctx, &stats, &z, &c, "write-edit-replace-then-remove", Some(&[&from]), &case2)
                }
                Err(p) => {
                    ctx.violation(&format!("C08|write-edit-replace-then-remove|panic|{}", panic_class(&p)), &p, case2());
                }
            }
            // thorough: two committed batches Z'' -> Z' -> Z through the write interface
            if !quick {
                for n2 in neighbours(&nks, quick) {
                    if n2 == *ks {
                        continue;
                    }
                    let from2 = content_of(&n2, 0);
                    let case3 = || json!({"from2": desc(&n2), "from": desc(&nks), "to": desc(ks)});
                    match guard(|| write_edit2(&from2, &from, &c)) {
                        Ok(z) => {
                            tr(1);
                            check_zone(&ctx, &stats, &z, &c, "write-edit-two-batches", Some(&[&from2, &from]), &case3)
                        }
                        Err(p) => {
                            ctx.violation(&format!("C08|write-edit-two-batches|panic|{}", panic_class(&p)), &p, case3());
                        }
                    }
                }
            }
            // an abandoned full replacement (remove_all + part of `busy`, or remove_all alone), then the real edit
            for (h, junk) in [("write-edit-after-abandoned-replacement", &busy), ("write-edit-after-abandoned-remove_all", &bare)] {
                if quick && h.ends_with("replacement") && nks[0] == ks[0] {
                    continue;
                }
                match guard(|| write_edit_full(&from, &c, Some(junk), true, false, false)) {
                    Ok(z) => {
                        tr(1);
                        check_zone(&ctx, &stats, &z, &c, h, Some(&[&from, junk]), &case2)
                    }
                    Err(p) => {
                        ctx.violation(&format!("C08|{h}|panic|{}", panic_class(&p)), &p, case2());
                    }
                }
            }
            // an abandoned attempt (towards `busy`) first, then the real edit
            if !quick || nks[0] != ks[0] {
                match guard(|| write_edit(&from, &c, Some(&busy), false)) {
                    Ok(z) => {
                        tr(1);
                        check_zone(&ctx, &stats, &z, &c, "write-edit-after-abandoned-attempt", Some(&[&from, &busy]), &case2)
                    }
                    Err(p) => {
                        ctx.violation(&format!("C08|write-edit-after-abandoned-attempt|panic|{}", panic_class(&p)), &p, case2());
                    }
                }
            }
        }
    });
    // Witnesses: NS / CNAME added through the ZoneUpdater are not honoured.
    if replay_zone.is_none() {
        for (what, slot_kinds) in [("cname", [K::Cname, K::None, K::None, K::None, K::None, K::None]), ("ns", [K::None, K::None, K::None, K::NsIn, K::A, K::None])] {
            let c = content_of(&slot_kinds, 1);
            let bare = Content::base(0);
            if let Ok(Ok(z)) = guard(|| updater_replace(&bare, &c)) {
                tr(1);
                let read = z.read();
                let mut bad = 0;
                for qn in QNAMES {
                    for qt in QTYPES {
                        let q = rel(qn);
                        let e = resolve(&c, &q, qt);
                        if let Ok(o) = guard(|| query(read.as_ref(), &q, qt)) {
                            if compare(&e, &o).is_err() {
                                bad += 1;
                            }
                        }
                    }
                }
                if bad > 0 {
                    ctx.violation(&format!("C08|updater|witness|{what}-added-through-ZoneUpdater-is-stored-as-plain-rrset"), &format!("{bad} of {} queries answered differently from a builder-built zone with the same records", QNAMES.len() * QTYPES.len()), json!({"zone": desc(&slot_kinds), "history": "updater-replace-from-bare"}));
                }
            }
        }
    }
    let (tree_seqs, tree_sets) = if replay_zone.is_none() { zone_tree_part(&ctx, &stats, quick) } else { (0, 0) };
    let t = transitions.load(std::sync::atomic::Ordering::Relaxed);
    ctx.finish(
        json!({
            "states": contents.len(),
            "transitions": t.max(1),
            "traces_validated_against_impl": t,
            "evaluations": stats.evals(),
            "distinct_nontrivial": stats.distinct_count(),
            "rule": "states = all zone contents (kind per slot name, consistent with zone rules); transitions = histories executed on the real zone (builder fwd/rev, parsed zonefile, updater full replacement from bare and busy zones, write interface from bare / via remove_all, and for every single-slot neighbour content an updater edit, a write-interface edit, a write-interface edit after an abandoned attempt and after an abandoned full replacement (remove_all, with and without rewriting); thorough: also two committed write batches through every pair of successive single-slot edits); evaluations = (qname,qtype) queries + walks compared with the reference resolver",
            "exhaustive": true,
            "zone_tree": {"zones": T_ZONES.iter().map(|(n, c)| format!("{n}/{c}")).collect::<Vec<_>>(), "qnames": T_QNAMES, "operation_sequences": tree_seqs, "final_zone_sets_reached": tree_sets, "rule": "every sequence of insert/remove over the 7 zones (two classes, nested apexes, root) to the depth bound on a real ZoneTree; after every step find_zone for every qname x class == nearest present ancestor (RFC 1034 4.3.2 step 2), get_zone and iter_zones == present set"},
            "slots": SLOTS,
            "qnames": QNAMES,
            "qtypes": QTYPES.iter().map(|t| t.to_string()).collect::<Vec<_>>(),
            "samples": [desc(&contents[contents.len() / 3]), desc(&contents[contents.len() - 1])],
            "counters": stats.counters_json(),
        }),
        &["HashMap iteration order in the zone is not owned: observations are compared as sets, qtype ANY is excluded", "CNAME answers are not chased (the zone returns the CNAME only)", "additional section: must contain the glue of in-bailiwick NS targets and nothing else"],
    );
}
